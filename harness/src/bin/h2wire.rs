//! C15 (wire layer): the real `parser::frame_header` / `parser::frame_body` /
//! `parser::settings_frame`, the real frame serializer and the real
//! `H2FloodDetector` against the Lean model `Sozu.H2Wire.Model`, plus the
//! property's own oracles (exact consumption, no panic, RFC 9113 validity of
//! the verdict, serializer round trip, flood counters bounded).
use std::panic::{catch_unwind, AssertUnwindSafe};
use std::time::Duration;

use sozu_lib::protocol::mux::parser::{self, Frame, FrameHeader, FrameType, PriorityPart};
use sozu_lib::protocol::mux::verif::flood::{self, H2FloodConfig, H2FloodDetector, H2FloodViolation};
use sozu_lib::protocol::mux::verif::{self, serializer, H2Settings};
use sozu_lib::protocol::mux::H2Error;
use verif_harness::*;

struct H2Wire;

const MFS_DEFAULT: u32 = 16384;
const MFS_MAX: u32 = (1 << 24) - 1;

// ------------------------------------------------------------ real code ----

fn b01(b: bool) -> &'static str {
    if b {
        "1"
    } else {
        "0"
    }
}

fn prio_str(p: &PriorityPart) -> String {
    match p {
        PriorityPart::Rfc7540 { stream_dependency, weight } => {
            format!("{}/{}/{}", b01(stream_dependency.exclusive), stream_dependency.stream_id, weight)
        }
        PriorityPart::Rfc9218 { urgency, incremental } => format!("rfc9218/{urgency}/{}", b01(*incremental)),
    }
}

/// canonical summary of a decoded frame; `buf` is the slice the body parser was given
fn summary(f: &Frame, buf: &[u8]) -> String {
    match f {
        Frame::Data(d) => format!("data:{}:{}:{}", d.stream_id, b01(d.end_stream), hex(d.payload.data(buf))),
        Frame::Headers(h) => format!(
            "headers:{}:{}:{}:{}:{}",
            h.stream_id,
            b01(h.end_stream),
            b01(h.end_headers),
            h.priority.as_ref().map(prio_str).unwrap_or_else(|| "-".into()),
            hex(h.header_block_fragment.data(buf))
        ),
        Frame::Priority(p) => format!("priority:{}:{}", p.stream_id, prio_str(&p.inner)),
        Frame::RstStream(r) => format!("rst:{}:{}", r.stream_id, r.error_code),
        Frame::Settings(s) => {
            let body = if s.settings.is_empty() {
                "-".to_string()
            } else {
                s.settings.iter().map(|e| format!("{}={}", e.identifier, e.value)).collect::<Vec<_>>().join(",")
            };
            format!("settings:{}:{}", b01(s.ack), body)
        }
        Frame::PushPromise(_) => "push_promise".into(),
        Frame::Ping(p) => format!("ping:{}:{}", b01(p.ack), hex(&p.payload)),
        Frame::GoAway(g) => {
            format!("goaway:{}:{}:{}", g.last_stream_id, g.error_code, hex(g.additional_debug_data.data(buf)))
        }
        Frame::WindowUpdate(w) => format!("wu:{}:{}", w.stream_id, w.increment),
        Frame::Continuation(_) => "continuation".into(),
        Frame::PriorityUpdate(p) => format!("pu:{}:{}", p.prioritized_stream_id, hex(&p.priority_field_value)),
        Frame::Unknown(t) => format!("unknown:{t}"),
    }
}

fn frame_type_of(t: u8) -> FrameType {
    match t {
        0 => FrameType::Data,
        1 => FrameType::Headers,
        2 => FrameType::Priority,
        3 => FrameType::RstStream,
        4 => FrameType::Settings,
        5 => FrameType::PushPromise,
        6 => FrameType::Ping,
        7 => FrameType::GoAway,
        8 => FrameType::WindowUpdate,
        9 => FrameType::Continuation,
        0x10 => FrameType::PriorityUpdate,
        o => FrameType::Unknown(o),
    }
}

enum Dec {
    Ok { ty: u8, flags: u8, sid: u32, len: u32, consumed: usize, summary: String },
    Incomplete,
    Err(u32),
    Other(String),
}

/// error class of a raw parser error: `eof`, `h2:<code>` or something else
fn raw_class(class: &str) -> (bool, Option<u32>) {
    if class.ends_with(":nom:Eof") && class.starts_with("error:") {
        return (true, None);
    }
    if let Some(p) = class.find(":h2:") {
        return (false, class[p + 4..].parse().ok());
    }
    (false, None)
}

/// The decoder the way `h2.rs` drives it: `frame_header`, then `frame_body` on
/// what follows, any body error mapped through `error_nom_to_h2` once the whole
/// declared payload is present.
fn decode_real(input: &[u8], mfs: u32) -> Dec {
    match parser::frame_header(input, mfs) {
        Err(e) => {
            let class = verif::parser_error_class(&e);
            match raw_class(&class) {
                (true, _) => Dec::Incomplete,
                (false, Some(c)) => Dec::Err(c),
                _ => Dec::Other(class),
            }
        }
        Ok((rest, h)) => match parser::frame_body(rest, &h) {
            Ok((rest2, f)) => Dec::Ok {
                ty: serializer::serialize_frame_type(&h.frame_type),
                flags: h.flags,
                sid: h.stream_id,
                len: h.payload_len,
                consumed: input.len() - rest2.len(),
                summary: summary(&f, rest),
            },
            Err(e) => {
                let class = verif::parser_error_class(&e);
                let (eof, code) = raw_class(&class);
                if eof && rest.len() < h.payload_len as usize {
                    Dec::Incomplete
                } else if eof || code.is_some() {
                    Dec::Err(verif::error_nom_to_h2(e) as u32)
                } else {
                    Dec::Other(class)
                }
            }
        },
    }
}

fn body_line(res: Result<(&[u8], Frame), String>, buf: &[u8]) -> String {
    match res {
        Ok((rest, f)) => format!("ok {} {}", rest.len(), summary(&f, buf)),
        Err(class) => match raw_class(&class) {
            (true, _) => "eof".into(),
            (false, Some(c)) => format!("err {c}"),
            _ => format!("other {class}"),
        },
    }
}

// ---------------------------------------------------- RFC 9113 oracle ----

#[derive(PartialEq, Debug)]
enum Rfc {
    Valid,
    /// invalid; the acceptable error codes
    Invalid(&'static [u32]),
    /// local policy or not decided by the RFC text: no opinion
    Skip,
}

/// What RFC 9113 §4.1/§4.2/§5.5/§6 (and RFC 9218 §7.1) say about one complete
/// frame, written from the RFC text (not from parser.rs). When several rules
/// are violated any of their codes is acceptable.
fn rfc_verdict(ty: u8, flags: u8, sid: u32, len: u32, mfs: u32, payload: &[u8]) -> Rfc {
    const FS: u32 = 6;
    const PE: u32 = 1;
    let mut codes: Vec<u32> = vec![];
    if len > mfs {
        codes.push(FS);
    }
    let need_nonzero = matches!(ty, 0 | 1 | 2 | 3 | 5 | 9);
    let need_zero = matches!(ty, 4 | 6 | 7 | 0x10);
    if (need_nonzero && sid == 0) || (need_zero && sid != 0) {
        codes.push(PE);
    }
    let padded = flags & 0x8 != 0;
    match ty {
        0 | 1 => {
            let mut avail = len as i64;
            let mut pad = 0i64;
            if padded {
                if len == 0 {
                    codes.push(FS);
                    codes.push(PE);
                } else {
                    pad = payload.first().copied().unwrap_or(0) as i64;
                    avail -= 1;
                    // §6.1: padding length >= frame payload length is a PROTOCOL_ERROR
                    if pad >= len as i64 {
                        codes.push(PE);
                    }
                }
            }
            if ty == 1 && flags & 0x20 != 0 {
                if avail - pad < 5 {
                    codes.push(FS);
                    codes.push(PE);
                }
            }
        }
        2 if len != 5 => codes.push(FS),
        3 if len != 4 => codes.push(FS),
        4 => {
            if (flags & 1 != 0 && len != 0) || len % 6 != 0 {
                codes.push(FS);
            }
            if len / 6 > 64 && codes.is_empty() {
                return Rfc::Skip; // sozu's own cap
            }
        }
        5 => codes.push(PE), // push is never enabled by sozu (§8.4)
        6 if len != 8 => codes.push(FS),
        7 if len < 8 => codes.push(FS),
        8 if len != 4 => codes.push(FS),
        0x10 => {
            if len < 4 {
                codes.push(FS);
            } else if len - 4 > 1024 && codes.is_empty() {
                return Rfc::Skip; // sozu's own cap
            }
        }
        _ => {}
    }
    if codes.is_empty() {
        return Rfc::Valid;
    }
    let has_fs = codes.contains(&FS);
    let has_pe = codes.contains(&PE);
    Rfc::Invalid(match (has_fs, has_pe) {
        (true, true) => &[1, 6],
        (true, false) => &[6],
        _ => &[1],
    })
}

// ------------------------------------------------------------- generators ----

fn be24(v: u32) -> [u8; 3] {
    [(v >> 16) as u8, (v >> 8) as u8, v as u8]
}

fn frame(ty: u8, flags: u8, sid: u32, payload: &[u8]) -> Vec<u8> {
    let mut v = be24(payload.len() as u32).to_vec();
    v.push(ty);
    v.push(flags);
    v.extend_from_slice(&sid.to_be_bytes());
    v.extend_from_slice(payload);
    v
}

fn pick_sid(rng: &mut Rng) -> u32 {
    match rng.below(8) {
        0 => 0,
        1 => 1,
        2 => 0x8000_0000,
        3 => 0x8000_0001,
        4 => 0x7fff_ffff,
        5 => 0xffff_ffff,
        _ => rng.next() as u32,
    }
}

/// a well-formed frame of a random kind (grammar-derived)
fn valid_frame(rng: &mut Rng) -> Vec<u8> {
    let sid = 1 + (rng.below(1000) as u32) * 2;
    match rng.below(14) {
        0 => {
            let n = rng.below(20) as usize;
            frame(0, *rng.pick(&[0u8, 1]), sid, &rng.bytes(n))
        }
        1 => {
            // padded DATA
            let n = rng.below(12) as usize;
            let pad = rng.below(6) as usize;
            let mut p = vec![pad as u8];
            p.extend(rng.bytes(n));
            p.extend(vec![0u8; pad]);
            frame(0, 0x8 | *rng.pick(&[0u8, 1]), sid, &p)
        }
        2 => {
            let n = rng.below(20) as usize;
            frame(1, *rng.pick(&[0u8, 1, 4, 5]), sid, &rng.bytes(n))
        }
        3 => {
            // HEADERS with PADDED and/or PRIORITY
            let padded = rng.chance(1, 2);
            let prio = rng.chance(2, 3);
            let pad = rng.below(5) as usize;
            let mut p = vec![];
            let mut fl = *rng.pick(&[0u8, 1, 4, 5]);
            if padded {
                fl |= 0x8;
                p.push(pad as u8);
            }
            if prio {
                fl |= 0x20;
                p.extend(rng.bytes(5));
            }
            let n = rng.below(10) as usize;
            p.extend(rng.bytes(n));
            if padded {
                p.extend(vec![0u8; pad]);
            }
            frame(1, fl, sid, &p)
        }
        4 => frame(2, 0, sid, &rng.bytes(5)),
        5 => frame(3, 0, sid, &(rng.below(16) as u32).to_be_bytes()),
        6 => {
            let n = rng.below(8) as usize;
            let mut p = vec![];
            for _ in 0..n {
                p.extend(((rng.below(12)) as u16).to_be_bytes());
                p.extend((rng.next() as u32).to_be_bytes());
            }
            frame(4, 0, 0, &p)
        }
        7 => frame(4, 1, 0, &[]),
        8 => frame(6, *rng.pick(&[0u8, 1]), 0, &rng.bytes(8)),
        9 => {
            let n = rng.below(10) as usize;
            let mut p = (rng.next() as u32).to_be_bytes().to_vec();
            p.extend((rng.below(16) as u32).to_be_bytes());
            p.extend(rng.bytes(n));
            frame(7, 0, 0, &p)
        }
        10 => frame(8, 0, if rng.chance(1, 2) { 0 } else { sid }, &(rng.next() as u32).to_be_bytes()),
        11 => {
            let n = rng.below(12) as usize;
            frame(9, *rng.pick(&[0u8, 4]), sid, &rng.bytes(n))
        }
        12 => {
            let n = rng.below(12) as usize;
            let mut p = (rng.next() as u32).to_be_bytes().to_vec();
            p.extend(rng.bytes(n));
            frame(0x10, 0, 0, &p)
        }
        _ => {
            let ty = *rng.pick(&[0x0au8, 0x0b, 0x11, 0x20, 0x7f, 0xff]);
            let n = rng.below(12) as usize;
            frame(ty, rng.next() as u8, pick_sid(rng), &rng.bytes(n))
        }
    }
}

fn mutate(rng: &mut Rng, mut f: Vec<u8>) -> Vec<u8> {
    let n = 1 + rng.below(2);
    for _ in 0..n {
        match rng.below(12) {
            0 => {
                // truncate anywhere
                let k = rng.below(f.len() as u64 + 1) as usize;
                f.truncate(k);
            }
            1 => {
                let k = rng.below(12) as usize;
                f.extend(rng.bytes(k));
            }
            2 if f.len() >= 5 => f[4] = rng.next() as u8,
            3 if f.len() >= 5 => f[4] ^= *rng.pick(&[0x1u8, 0x4, 0x8, 0x20, 0x28]),
            4 if f.len() >= 4 => f[3] = *rng.pick(&[0u8, 1, 2, 3, 4, 5, 6, 7, 8, 9, 0x10, 0x11, 0xa]),
            5 if f.len() >= 9 => {
                let s = pick_sid(rng).to_be_bytes();
                f[5..9].copy_from_slice(&s);
            }
            6 if f.len() >= 3 => {
                // declared length off by a little
                let l = ((f[0] as u32) << 16) | ((f[1] as u32) << 8) | f[2] as u32;
                let d = rng.range(1, 7) as u32;
                let nl = if rng.chance(1, 2) { l.saturating_sub(d) } else { l + d };
                f[..3].copy_from_slice(&be24(nl & 0xff_ffff));
            }
            7 if f.len() >= 3 => {
                // declared length around the frame size limits
                let nl = *rng.pick(&[16383u32, 16384, 16385, 0xff_ffff, 0xff_fffe, 65536]);
                f[..3].copy_from_slice(&be24(nl));
            }
            8 if f.len() >= 10 => f[9] = rng.next() as u8, // pad length / first payload byte
            9 if f.len() >= 10 => {
                let l = f.len() - 9;
                f[9] = (l as i64 + rng.range(0, 3) as i64 - 2).clamp(0, 255) as u8;
            }
            10 if f.len() >= 6 => f[5] |= 0x80, // reserved bit
            _ => {
                if !f.is_empty() {
                    let k = rng.below(f.len() as u64) as usize;
                    f[k] = rng.next() as u8;
                }
            }
        }
    }
    f
}

fn pick_mfs(rng: &mut Rng) -> u32 {
    match rng.below(10) {
        0..=4 => MFS_DEFAULT,
        5 | 6 => MFS_MAX,
        7 => *rng.pick(&[0u32, 4, 5, 8, 9, 100]),
        8 => 1 << 24,
        _ => (rng.next() as u32) % 70000,
    }
}

fn flood_counter_value(rng: &mut Rng, big64: bool) -> u64 {
    match rng.below(8) {
        0 => {
            if big64 {
                u64::MAX - rng.below(2)
            } else {
                u32::MAX as u64 - rng.below(2)
            }
        }
        1 => 10_000 - rng.below(3),
        2 => 10_000 + rng.below(3),
        3 => rng.below(200),
        _ => rng.below(8),
    }
}

const EXH_SIDS: [u32; 4] = [0, 1, 0x8000_0000, 0x8000_0001];

/// one cell block of the exhaustive sub-space: every flag byte x len 0..=12 for
/// a (type, stream id, max_frame_size) triple; `variant` selects the payload
fn exhaustive_case(ty: u8, sid: u32, mfs: u32, variant: u8) -> Vec<String> {
    let mut ops = vec!["new".to_string()];
    for flags in 0..=255u8 {
        for len in 0..=12usize {
            let payload: Vec<u8> = (0..len)
                .map(|i| match variant {
                    0 => {
                        if i == 0 {
                            (len / 2) as u8
                        } else {
                            (i * 17 + len) as u8
                        }
                    }
                    1 => {
                        if i == 0 {
                            (len as u8).wrapping_sub(1)
                        } else {
                            0
                        }
                    }
                    _ => {
                        if i == 0 {
                            len as u8
                        } else {
                            0xff
                        }
                    }
                })
                .collect();
            ops.push(format!("decode {mfs} {}", hex(&frame(ty, flags, sid, &payload))));
        }
    }
    ops
}

impl Area for H2Wire {
    fn name(&self) -> &'static str {
        "h2wire"
    }
    fn rule(&self) -> String {
        "corpus: exhaustive decode of type 0..=0x11 x all 256 flag bytes x len 0..=12 x stream id {0,1,2^31,2^31+1} x max_frame_size {16384,2^24-1} (complete input; payload variants: 1 quick / 3 thorough) + all 256 type bytes x 4 stream ids + fixed regressions. generated: grammar-derived valid frames of every type (35%) each mutated with p=0.6 (truncate, extend, flags, type, stream id, reserved bit, declared length +-, length at the size limits, pad byte), random byte strings, direct frame_body calls with arbitrary header fields, direct settings_frame calls (the first-SETTINGS path), serializer calls (every gen_* with random values and buffer capacities, round-tripped through the real parser), flood-detector event sequences (small and default thresholds, counter presets near the u32/u64 limits, window ages around 1 s). non-trivial = a case with at least two different result classes, or a flood violation/decay, or a serializer round trip; distinct = distinct op sequence".into()
    }
    fn cases(&self, thorough: bool) -> u64 {
        if thorough {
            150_000
        } else {
            24_000
        }
    }
    fn corpus(&self) -> Vec<Vec<String>> {
        let s = |v: &[&str]| v.iter().map(|x| x.to_string()).collect::<Vec<_>>();
        let mut c = vec![
            // regression / witnesses
            s(&[
                "new",
                "decode 16384 000000",                     // 3 bytes: incomplete
                "decode 16384 ffffff",                     // oversize declared before the header is complete
                "decode 16384 000000000800000001",         // DATA PADDED len 0: nom Eof on a complete frame
                "decode 16384 0000040128000000010000000a", // HEADERS PRIORITY with 4 bytes
                "decode 16384 00000100080000000100",       // pad 0 of len 1
                "decode 16384 00000200080000000101ff",     // pad 1 of len 2: ok, empty payload
                "decode 16384 00000200080000000102ff",     // pad 2 of len 2: PROTOCOL_ERROR
                "settings_frame 0 00030000006400",         // first SETTINGS, 7 bytes: tail ignored
                "settings_frame 1 000300000064",
            ]),
            s(&[
                "new",
                "gen_header 9 16777216 0 0 2147483649",
                "gen_header 8 1 1 1 1",
                "gen_rst 13 0 1",
                "gen_rst 13 4294967295 13",
                "gen_wu 13 0 4294967295",
                "gen_goaway 17 4294967295 11",
                "gen_pingack 17 0102030405060708",
                "gen_pingack 20 01020304",
                "gen_settings 57 4096 0 100 65535 16384 65536 0 1",
                "gen_settings 56 4096 1 100 65535 16384 65536 1 0",
            ]),
            s(&[
                "new",
                "fnew 2 2 2 2 2 2 2 5 3 3 100",
                "f rst 0",
                "f rst 0",
                "f age 1000",
                "f rst 0",
                "f rst 0",
                "f rst 0",
                "f rst 1",
            ]),
            s(&[
                "new",
                "fnew 100 100 50 100 100 20 3 10000 50 500 65536",
                "f settings 64",
                "f headers_start 70000",
                "f ping",
                "f settings 0",
            ]),
            s(&[
                "new",
                "fnew 100 100 50 100 100 20 100 10000 50 500 65536",
                "fset 0 0 0 18446744073709551615 0 4294967295 0 9999 0 4294967295 0 4294967290 0",
                "f rst_emitted",
                "f wu0",
            ]),
        ];
        // every type byte (header table + unknown-type handling)
        for &sid in &EXH_SIDS {
            let mut ops = vec!["new".to_string()];
            for ty in 0..=255u8 {
                for &(flags, len) in &[(0u8, 0usize), (0, 4), (1, 8), (0, 5)] {
                    ops.push(format!("decode 16384 {}", hex(&frame(ty, flags, sid, &vec![1u8; len]))));
                }
            }
            c.push(ops);
        }
        c
    }
    fn gen(&self, rng: &mut Rng, thorough: bool) -> Vec<String> {
        let mut ops = vec!["new".to_string()];
        let kind = rng.below(100);
        let n = rng.range(6, if thorough { 60 } else { 30 });
        if kind < 40 {
            for _ in 0..n {
                let mut f = valid_frame(rng);
                if rng.chance(3, 5) {
                    f = mutate(rng, f);
                }
                if rng.chance(1, 10) {
                    // a second frame behind the first: only the first may be consumed
                    f.extend(valid_frame(rng));
                }
                ops.push(format!("decode {} {}", pick_mfs(rng), hex(&f)));
            }
        } else if kind < 50 {
            for _ in 0..n {
                let len = rng.below(40) as usize;
                let mut f = rng.bytes(len);
                if len >= 4 && rng.chance(3, 4) {
                    f[0] = 0;
                    f[1] = 0;
                    f[2] = rng.below(30) as u8;
                    f[3] = *rng.pick(&[0u8, 1, 2, 3, 4, 5, 6, 7, 8, 9, 0x10, 0x42]);
                }
                ops.push(format!("decode {} {}", pick_mfs(rng), hex(&f)));
            }
        } else if kind < 53 {
            // large frames: SETTINGS around the entry cap, PRIORITY_UPDATE around the value cap
            for _ in 0..4 {
                if rng.chance(1, 2) {
                    let entries = *rng.pick(&[63usize, 64, 65, 66, 100]);
                    let extra = *rng.pick(&[0usize, 0, 1, 5]);
                    let p = rng.bytes(entries * 6 + extra);
                    ops.push(format!("decode {} {}", MFS_DEFAULT, hex(&frame(4, 0, 0, &p))));
                    ops.push(format!("settings_frame 0 {}", hex(&p)));
                } else {
                    let v = *rng.pick(&[1023usize, 1024, 1025, 1030]);
                    let p = rng.bytes(4 + v);
                    ops.push(format!("decode {} {}", MFS_DEFAULT, hex(&frame(0x10, 0, 0, &p))));
                }
            }
        } else if kind < 62 {
            for _ in 0..n {
                let ty = *rng.pick(&[0u8, 1, 2, 3, 4, 5, 6, 7, 8, 9, 0x10, 0x11, 0xee]);
                let have = rng.below(24) as usize;
                let len = match rng.below(4) {
                    0 => have as u64,
                    1 => rng.below(have as u64 + 1),
                    2 => have as u64 + rng.range(1, 4),
                    _ => *rng.pick(&[0u64, 4, 5, 6, 8, 12, 384, 390, 1028, 1029]),
                };
                let flags = if rng.chance(1, 2) { *rng.pick(&[0u8, 1, 4, 8, 0x20, 0x28, 0x29]) } else { rng.next() as u8 };
                ops.push(format!("body {ty} {flags} {} {len} {}", pick_sid(rng), hex(&rng.bytes(have))));
            }
        } else if kind < 66 {
            for _ in 0..n {
                let k = match rng.below(4) {
                    0 => rng.below(5) as usize * 6,
                    1 => rng.below(40) as usize,
                    2 => 64 * 6 + rng.below(14) as usize,
                    _ => rng.below(13) as usize,
                };
                ops.push(format!("settings_frame {} {}", *rng.pick(&[0u8, 0, 1, 0xff]), hex(&rng.bytes(k))));
            }
        } else if kind < 80 {
            for _ in 0..n {
                let v32 = |rng: &mut Rng| -> u64 {
                    match rng.below(5) {
                        0 => 0,
                        1 => u32::MAX as u64,
                        2 => 0x8000_0000 + rng.below(3),
                        3 => rng.below(70000),
                        _ => rng.next() as u32 as u64,
                    }
                };
                let cap = |rng: &mut Rng, need: u64| -> u64 {
                    match rng.below(6) {
                        0 => rng.below(need + 1),
                        1 => need - 1,
                        2 => need,
                        _ => need + rng.below(40),
                    }
                };
                let line = match rng.below(7) {
                    0 | 1 => {
                        let len = match rng.below(4) {
                            0 => v32(rng),
                            1 => (1 << 24) + rng.below(3),
                            _ => rng.below(20000),
                        };
                        let ty = if rng.chance(2, 3) { rng.below(18) } else { rng.below(256) };
                        format!("gen_header {} {len} {ty} {} {}", cap(rng, 9), rng.below(256), v32(rng))
                    }
                    2 => format!(
                        "gen_settings {} {} {} {} {} {} {} {} {}",
                        cap(rng, 57),
                        v32(rng),
                        rng.below(2),
                        v32(rng),
                        v32(rng),
                        v32(rng),
                        v32(rng),
                        rng.below(2),
                        rng.below(2)
                    ),
                    3 => format!("gen_rst {} {} {}", cap(rng, 13), v32(rng), rng.below(14)),
                    4 => format!("gen_wu {} {} {}", cap(rng, 13), v32(rng), v32(rng)),
                    5 => format!("gen_goaway {} {} {}", cap(rng, 17), v32(rng), rng.below(14)),
                    _ => {
                        let k = if rng.chance(3, 4) { 8 } else { rng.below(12) as usize };
                        format!("gen_pingack {} {}", cap(rng, 9 + k as u64), hex(&rng.bytes(k)))
                    }
                };
                ops.push(line);
            }
        } else {
            // flood detector
            if rng.chance(1, 3) {
                ops.push("fnew 100 100 50 100 100 20 100 10000 50 500 65536".into());
            } else {
                let t = |rng: &mut Rng| rng.below(6);
                ops.push(format!(
                    "fnew {} {} {} {} {} {} {} {} {} {} {}",
                    t(rng),
                    t(rng),
                    t(rng),
                    t(rng),
                    t(rng),
                    t(rng),
                    t(rng),
                    rng.range(1, 12),
                    t(rng),
                    t(rng),
                    rng.below(40)
                ));
            }
            if rng.chance(1, 4) {
                let mut v = vec![];
                for i in 0..13 {
                    let big64 = (1..=3).contains(&i);
                    v.push(flood_counter_value(rng, big64).to_string());
                }
                ops.push(format!("fset {}", v.join(" ")));
            }
            let m = rng.range(10, if thorough { 120 } else { 60 });
            let fav = rng.below(12);
            for _ in 0..m {
                let k = if rng.chance(1, 2) { fav } else { rng.below(12) };
                let line = match k {
                    0 => format!("f age {}", *rng.pick(&[0u64, 1, 500, 900, 1000, 1001, 5000])),
                    1 => format!("f rst {}", rng.below(2)),
                    2 => "f rst_emitted".into(),
                    3 => "f ping".into(),
                    4 => format!("f settings {}", if rng.chance(1, 2) { 0 } else { rng.below(65) }),
                    5 => "f empty_data".into(),
                    6 => "f wu0".into(),
                    7 => format!("f continuation {}", rng.below(30)),
                    8 => format!("f headers_start {}", rng.below(60)),
                    9 => "f headers_end".into(),
                    10 => "f glitch".into(),
                    _ => "f check".into(),
                };
                ops.push(line);
            }
        }
        ops
    }

    fn run_impl(&self, ops: &[String]) -> ImplRun {
        let mut r = ImplRun::default();
        let mut det: Option<H2FloodDetector> = None;
        let mut cfg_vals: [u64; 11] = [0; 11];
        let mut vage: u64 = 0; // virtual age of the rate window (ms)
        let mut dead = false;
        let mut classes: std::collections::BTreeSet<String> = Default::default();
        for op in ops {
            let w: Vec<&str> = op.split_whitespace().collect();
            let line: Result<String, ()> = catch_unwind(AssertUnwindSafe(|| -> String {
                match w[0] {
                    "new" => {
                        let cfg = H2FloodConfig::default();
                        cfg_vals = cfg_values(&cfg);
                        det = Some(H2FloodDetector::new(cfg));
                        dead = false;
                        vage = 0;
                        "new".into()
                    }
                    "decode" if w.len() == 3 => {
                        let mfs: u32 = w[1].parse().unwrap();
                        let input = unhex(w[2]);
                        let declared = if input.len() >= 3 {
                            Some(((input[0] as u32) << 16) | ((input[1] as u32) << 8) | input[2] as u32)
                        } else {
                            None
                        };
                        let complete = input.len() >= 9 && input.len() >= 9 + declared.unwrap() as usize;
                        let res = decode_real(&input, mfs);
                        // ---- oracles, independent of the model ----
                        match &res {
                            Dec::Ok { len, consumed, .. } => {
                                if Some(*len) != declared || *consumed != 9 + *len as usize || *consumed > input.len() {
                                    r.oracle.push(("consumed-not-header-plus-payload".into(), format!("{op}: consumed {consumed} declared {declared:?} input {}", input.len())));
                                }
                                if *len > mfs {
                                    r.oracle.push(("oversize-frame-accepted".into(), format!("{op}: len {len} > max_frame_size {mfs}")));
                                }
                            }
                            Dec::Incomplete => {
                                if complete {
                                    r.oracle.push(("incomplete-on-complete-frame".into(), op.clone()));
                                }
                            }
                            Dec::Err(c) => {
                                if *c != 1 && *c != 6 {
                                    r.oracle.push(("unexpected-error-code".into(), format!("{op}: code {c}")));
                                }
                            }
                            Dec::Other(s) => r.oracle.push(("unclassified-parser-error".into(), format!("{op}: {s}"))),
                        }
                        if complete {
                            let len = declared.unwrap();
                            let sid = u32::from_be_bytes([input[5], input[6], input[7], input[8]]) & 0x7fff_ffff;
                            match (rfc_verdict(input[3], input[4], sid, len, mfs, &input[9..9 + len as usize]), &res) {
                                (Rfc::Valid, Dec::Ok { .. }) | (Rfc::Skip, _) => {}
                                (Rfc::Valid, _) => r.oracle.push(("rfc-valid-frame-rejected".into(), op.clone())),
                                (Rfc::Invalid(_), Dec::Ok { .. }) => {
                                    r.oracle.push(("rfc-invalid-frame-accepted".into(), op.clone()))
                                }
                                (Rfc::Invalid(codes), Dec::Err(c)) if !codes.contains(c) => r
                                    .oracle
                                    .push(("wrong-error-class".into(), format!("{op}: got {c}, RFC allows {codes:?}"))),
                                _ => {}
                            }
                        }
                        match res {
                            Dec::Ok { ty, flags, sid, consumed, summary, .. } => {
                                classes.insert(format!("ok:{ty}"));
                                r.tags.push(format!("ok:type{}", if ty <= 9 || ty == 0x10 { ty.to_string() } else { "-unknown".into() }));
                                format!("ok {ty} {flags} {sid} {consumed} {summary}")
                            }
                            Dec::Incomplete => {
                                classes.insert("incomplete".into());
                                r.tags.push("incomplete".into());
                                "incomplete".into()
                            }
                            Dec::Err(c) => {
                                classes.insert(format!("err:{c}"));
                                r.tags.push(format!("err:{c}"));
                                format!("err {c}")
                            }
                            Dec::Other(s) => format!("other {s}"),
                        }
                    }
                    "body" if w.len() == 6 => {
                        let ty: u8 = w[1].parse().unwrap();
                        let h = FrameHeader {
                            payload_len: w[4].parse().unwrap(),
                            frame_type: frame_type_of(ty),
                            flags: w[2].parse().unwrap(),
                            stream_id: w[3].parse().unwrap(),
                        };
                        let buf = unhex(w[5]);
                        let res = parser::frame_body(&buf, &h).map_err(|e| verif::parser_error_class(&e));
                        if let Ok((rest, _)) = &res {
                            if buf.len() - rest.len() != h.payload_len as usize {
                                r.oracle.push(("body-consumed-not-payload-len".into(), op.clone()));
                            }
                        }
                        let l = body_line(res, &buf);
                        r.tags.push(format!("body:{}", l.split(' ').next().unwrap_or("")));
                        classes.insert(l.split(':').next().unwrap_or("").to_string());
                        l
                    }
                    "settings_frame" if w.len() == 3 => {
                        let buf = unhex(w[2]);
                        let h = FrameHeader {
                            payload_len: buf.len() as u32,
                            frame_type: FrameType::Settings,
                            flags: w[1].parse().unwrap(),
                            stream_id: 0,
                        };
                        let res = parser::settings_frame(&buf, &h).map_err(|e| verif::parser_error_class(&e));
                        if let Ok((_, Frame::Settings(s))) = &res {
                            if s.settings.len() > 64 {
                                r.oracle.push(("settings-entry-cap-exceeded".into(), op.clone()));
                            }
                            // (a length that is not a multiple of 6 is accepted by this public
                            // function; whether the *connection* accepts it as first SETTINGS is
                            // observed on a live worker by the h2conn binary, finding F24)
                        }
                        let l = body_line(res, &buf);
                        r.tags.push(format!("settings_frame:{}", l.split(' ').next().unwrap_or("")));
                        l
                    }
                    g if g.starts_with("gen_") => {
                        let cap: usize = w[1].parse().unwrap();
                        let mut buf = vec![0xAAu8; cap];
                        let p = |i: usize| -> u64 { w[i].parse().unwrap() };
                        let res: Option<usize> = match g {
                            "gen_header" => {
                                let h = FrameHeader {
                                    payload_len: p(2) as u32,
                                    frame_type: frame_type_of(p(3) as u8),
                                    flags: p(4) as u8,
                                    stream_id: p(5) as u32,
                                };
                                serializer::gen_frame_header(&mut buf, &h).ok().map(|x| x.1)
                            }
                            "gen_settings" => {
                                let s = H2Settings {
                                    settings_header_table_size: p(2) as u32,
                                    settings_enable_push: p(3) != 0,
                                    settings_max_concurrent_streams: p(4) as u32,
                                    settings_initial_window_size: p(5) as u32,
                                    settings_max_frame_size: p(6) as u32,
                                    settings_max_header_list_size: p(7) as u32,
                                    settings_enable_connect_protocol: p(8) != 0,
                                    settings_no_rfc7540_priorities: p(9) != 0,
                                };
                                serializer::gen_settings(&mut buf, &s).ok().map(|x| x.1)
                            }
                            "gen_rst" => {
                                let code = H2Error::try_from(p(3) as u32).unwrap_or(H2Error::NoError);
                                serializer::gen_rst_stream(&mut buf, p(2) as u32, code).ok().map(|x| x.1)
                            }
                            "gen_wu" => serializer::gen_window_update(&mut buf, p(2) as u32, p(3) as u32).ok().map(|x| x.1),
                            "gen_goaway" => {
                                let code = H2Error::try_from(p(3) as u32).unwrap_or(H2Error::NoError);
                                serializer::gen_goaway(&mut buf, p(2) as u32, code).ok().map(|x| x.1)
                            }
                            "gen_pingack" => {
                                let pl = unhex(w[2]);
                                serializer::gen_ping_acknowledgement(&mut buf, &pl).ok().map(|x| x.1)
                            }
                            _ => return "bad-op".into(),
                        };
                        r.tags.push(format!("{g}:{}", if res.is_some() { "ok" } else { "bufsmall" }));
                        match res {
                            None => "bufsmall".into(),
                            Some(n) => {
                                let out = &buf[..n.min(buf.len())];
                                // ---- round-trip oracle through the real parser ----
                                let back = decode_real(out, MFS_MAX);
                                let fail = |r: &mut ImplRun, why: &str| {
                                    r.oracle.push(("serializer-round-trip".into(), format!("{op}: {why}")));
                                };
                                match g {
                                    "gen_header" => match parser::frame_header(out, MFS_MAX) {
                                        Ok((rest, h)) => {
                                            if !rest.is_empty()
                                                || h.payload_len != (p(2) as u32 & 0xff_ffff)
                                                || serializer::serialize_frame_type(&h.frame_type) != p(3) as u8
                                                || h.flags != p(4) as u8
                                                || h.stream_id != (p(5) as u32 & 0x7fff_ffff)
                                            {
                                                fail(&mut r, "header fields differ");
                                            }
                                        }
                                        Err(e) => {
                                            // the only legitimate rejection: stream id invalid for the type
                                            let ty = p(3) as u8;
                                            let sid = p(5) as u32 & 0x7fff_ffff;
                                            let bad_sid = (matches!(ty, 0 | 1 | 2 | 3 | 5 | 9) && sid == 0)
                                                || (matches!(ty, 4 | 6 | 7 | 0x10) && sid != 0);
                                            if !(bad_sid && verif::parser_error_class(&e).ends_with(":h2:1")) {
                                                fail(&mut r, "emitted header rejected by the parser");
                                            }
                                        }
                                    },
                                    "gen_settings" => match &back {
                                        Dec::Ok { ty: 4, flags: 0, sid: 0, consumed, summary, .. } if *consumed == n => {
                                            let want = format!(
                                                "settings:0:1={},2={},3={},4={},5={},6={},8={},9={}",
                                                p(2) as u32, (p(3) != 0) as u32, p(4) as u32, p(5) as u32, p(6) as u32, p(7) as u32,
                                                (p(8) != 0) as u32, (p(9) != 0) as u32
                                            );
                                            if *summary != want {
                                                fail(&mut r, "settings differ");
                                            }
                                        }
                                        _ => fail(&mut r, "SETTINGS not parsed back"),
                                    },
                                    "gen_rst" => {
                                        let sid = p(2) as u32 & 0x7fff_ffff;
                                        let code = if p(3) < 14 { p(3) } else { 0 };
                                        match &back {
                                            Dec::Ok { summary, consumed, .. } if sid != 0 => {
                                                if *summary != format!("rst:{sid}:{code}") || *consumed != n {
                                                    fail(&mut r, "RST_STREAM differs");
                                                }
                                            }
                                            Dec::Err(1) if sid == 0 => {}
                                            _ => fail(&mut r, "RST_STREAM not parsed back"),
                                        }
                                    }
                                    "gen_wu" => match &back {
                                        Dec::Ok { summary, consumed, .. } => {
                                            if *summary != format!("wu:{}:{}", p(2) as u32 & 0x7fff_ffff, p(3) as u32 & 0x7fff_ffff) || *consumed != n {
                                                fail(&mut r, "WINDOW_UPDATE differs");
                                            }
                                        }
                                        _ => fail(&mut r, "WINDOW_UPDATE not parsed back"),
                                    },
                                    "gen_goaway" => {
                                        let code = if p(3) < 14 { p(3) } else { 0 };
                                        match &back {
                                            Dec::Ok { summary, consumed, .. } => {
                                                if *summary != format!("goaway:{}:{}:-", p(2) as u32 & 0x7fff_ffff, code) || *consumed != n {
                                                    fail(&mut r, "GOAWAY differs");
                                                }
                                            }
                                            _ => fail(&mut r, "GOAWAY not parsed back"),
                                        }
                                    }
                                    "gen_pingack" => {
                                        let pl = unhex(w[2]);
                                        if pl.len() == 8 {
                                            match &back {
                                                Dec::Ok { summary, consumed, .. } => {
                                                    if *summary != format!("ping:1:{}", hex(&pl)) || *consumed != n {
                                                        fail(&mut r, "PING ACK differs");
                                                    }
                                                }
                                                _ => fail(&mut r, "PING ACK not parsed back"),
                                            }
                                        }
                                    }
                                    _ => {}
                                }
                                classes.insert("gen".into());
                                classes.insert("roundtrip".into());
                                format!("bytes {}", hex(out))
                            }
                        }
                    }
                    "fnew" if w.len() == 12 => {
                        let v: Vec<u64> = w[1..].iter().map(|x| x.parse().unwrap()).collect();
                        let cfg = H2FloodConfig::new(
                            v[0] as u32, v[1] as u32, v[2] as u32, v[3] as u32, v[4] as u32, v[5] as u32, v[6] as u32,
                            v[7], v[8], v[9], v[10] as u32, 65536, 128,
                        );
                        cfg_vals = cfg_values(&cfg);
                        let d = H2FloodDetector::new(cfg);
                        let l = format!("f {}", cstr(&flood::counters(&d)));
                        det = Some(d);
                        dead = false;
                        vage = 0;
                        l
                    }
                    "fset" if w.len() == 14 => {
                        let d = det.as_mut().unwrap();
                        let mut c = [0u64; 13];
                        for i in 0..13 {
                            c[i] = w[1 + i].parse().unwrap();
                        }
                        flood::set_counters(d, c);
                        format!("f {}", cstr(&flood::counters(d)))
                    }
                    "f" if w.len() >= 2 => {
                        if dead {
                            return "dead".into();
                        }
                        let d = det.as_mut().unwrap();
                        if w[1] == "age" {
                            vage = w[2].parse().unwrap();
                            flood::set_window_age(d, Duration::from_millis(vage));
                            return format!("none {}", cstr(&flood::counters(d)));
                        }
                        // real time does not pass between events: re-impose the virtual age
                        flood::set_window_age(d, Duration::from_millis(vage));
                        let mut c = flood::counters(d);
                        let w32 = |x: u64| (x as u32).wrapping_add(1) as u64;
                        let s32 = |x: u64, n: u64| (x as u32).saturating_add(n as u32) as u64;
                        let mut checked = true;
                        // the increments of the handle_* functions of h2.rs, then the real detector
                        let v: Option<H2FloodViolation> = match w[1] {
                            "rst" => {
                                c[0] = w32(c[0]);
                                flood::set_counters(d, c);
                                d.check_flood().or_else(|| d.record_rst_lifetime(w[2] == "1"))
                            }
                            "rst_emitted" => {
                                checked = false;
                                d.record_rst_emitted()
                            }
                            "ping" => {
                                c[4] = w32(c[4]);
                                c[5] = s32(c[5], 1);
                                flood::set_counters(d, c);
                                d.check_flood()
                            }
                            "settings" => {
                                c[6] = w32(c[6]);
                                c[7] = s32(c[7], 1);
                                flood::set_counters(d, c);
                                let v = d.check_flood();
                                if v.is_none() {
                                    let k: u64 = w[2].parse().unwrap();
                                    let mut c = flood::counters(d);
                                    for _ in 0..k {
                                        c[12] = w32(c[12]);
                                    }
                                    flood::set_counters(d, c);
                                }
                                v
                            }
                            "empty_data" => {
                                c[8] = w32(c[8]);
                                flood::set_counters(d, c);
                                d.check_flood()
                            }
                            "wu0" => {
                                c[9] = s32(c[9], 1);
                                flood::set_counters(d, c);
                                d.check_flood()
                            }
                            "continuation" => {
                                c[10] = w32(c[10]);
                                c[11] = s32(c[11], w[2].parse().unwrap());
                                flood::set_counters(d, c);
                                d.check_flood()
                            }
                            "headers_start" => {
                                checked = false;
                                if c[10] == 0 {
                                    c[11] = w[2].parse::<u32>().unwrap() as u64;
                                    flood::set_counters(d, c);
                                }
                                None
                            }
                            "headers_end" => {
                                checked = false;
                                d.reset_continuation();
                                None
                            }
                            "glitch" => {
                                c[12] = w32(c[12]);
                                flood::set_counters(d, c);
                                d.check_flood()
                            }
                            "check" => d.check_flood(),
                            _ => return "bad-op".into(),
                        };
                        if vage > 0 && flood::window_age(d) < Duration::from_millis(vage / 2) {
                            vage = 0; // the detector started a new window
                            r.tags.push("flood:decay".into());
                            classes.insert("decay".into());
                        }
                        let after = flood::counters(d);
                        // ---- oracles ----
                        let thr: [(usize, u64); 11] = [
                            (0, cfg_vals[0]), (4, cfg_vals[1]), (6, cfg_vals[2]), (8, cfg_vals[3]), (9, cfg_vals[4]),
                            (10, cfg_vals[5]), (1, cfg_vals[7]), (2, cfg_vals[8]), (11, cfg_vals[10]), (5, 10_000), (7, 10_000),
                        ];
                        match &v {
                            Some(v) => {
                                if v.error != H2Error::EnhanceYourCalm || v.count <= v.threshold {
                                    r.oracle.push(("flood-violation-malformed".into(), format!("{op}: {v:?}")));
                                }
                            }
                            None if checked => {
                                // a passed check leaves every checked counter within its threshold
                                for (i, t) in thr.iter().filter(|(i, _)| ![1usize, 2].contains(i) || w[1] == "rst") {
                                    if after[*i] > *t {
                                        r.oracle.push(("flood-counter-over-threshold-unreported".into(), format!("{op}: counter {i} = {} > {t}", after[*i])));
                                    }
                                }
                                if w[1] != "settings" && after[12] > cfg_vals[6] {
                                    r.oracle.push(("flood-counter-over-threshold-unreported".into(), format!("{op}: glitch {} > {}", after[12], cfg_vals[6])));
                                }
                            }
                            None => {
                                if w[1] == "rst_emitted" && after[3] > cfg_vals[9] {
                                    r.oracle.push(("flood-counter-over-threshold-unreported".into(), format!("{op}: emitted {} > {}", after[3], cfg_vals[9])));
                                }
                            }
                        }
                        r.tags.push(format!("flood:{}:{}", w[1], if v.is_some() { "viol" } else { "none" }));
                        match v {
                            Some(v) => {
                                dead = true;
                                classes.insert("viol".into());
                                format!("viol {} {} {} {}", v.error as u32, v.count, v.threshold, cstr(&after))
                            }
                            None => format!("none {}", cstr(&after)),
                        }
                    }
                    _ => "bad-op".into(),
                }
            }))
            .map_err(|_| ());
            match line {
                Ok(l) => r.out.push(l),
                Err(()) => {
                    r.oracle.push(("parser-panic".into(), op.clone()));
                    r.tags.push("panic".into());
                    r.out.push("panic".into());
                }
            }
        }
        r.nontrivial = classes.len() >= 2;
        r
    }

    fn classify_mismatch(&self, ops: &[String], impl_out: &[String], model_out: &[String]) -> String {
        for (i, op) in ops.iter().enumerate() {
            if impl_out.get(i) != model_out.get(i) {
                let k = op.split_whitespace().next().unwrap_or("");
                return format!("model-mismatch-{}", if k == "f" || k == "fnew" || k == "fset" { "flood" } else if k.starts_with("gen_") { "serializer" } else { "decoder" });
            }
        }
        "model-mismatch".into()
    }
}

fn cfg_values(cfg: &H2FloodConfig) -> [u64; 11] {
    [
        cfg.max_rst_stream_per_window as u64,
        cfg.max_ping_per_window as u64,
        cfg.max_settings_per_window as u64,
        cfg.max_empty_data_per_window as u64,
        cfg.max_window_update_stream0_per_window as u64,
        cfg.max_continuation_frames as u64,
        cfg.max_glitch_count as u64,
        cfg.max_rst_stream_lifetime,
        cfg.max_rst_stream_abusive_lifetime,
        cfg.max_rst_stream_emitted_lifetime,
        cfg.max_header_list_size as u64,
    ]
}

fn cstr(c: &[u64; 13]) -> String {
    c.iter().map(|x| x.to_string()).collect::<Vec<_>>().join(" ")
}

fn main() {
    std::panic::set_hook(Box::new(|_| {}));
    let args = parse_args();
    let area = H2WireWithExhaustive { thorough: args.thorough() };
    std::process::exit(run_area(&area, &args));
}

/// wrapper adding the exhaustive finite sub-space to the corpus (the number of
/// payload variants depends on the tier, which `corpus()` does not receive)
struct H2WireWithExhaustive {
    thorough: bool,
}

impl Area for H2WireWithExhaustive {
    fn name(&self) -> &'static str {
        H2Wire.name()
    }
    fn rule(&self) -> String {
        H2Wire.rule()
    }
    fn cases(&self, thorough: bool) -> u64 {
        H2Wire.cases(thorough)
    }
    fn corpus(&self) -> Vec<Vec<String>> {
        let mut c = H2Wire.corpus();
        let variants: &[u8] = if self.thorough { &[0, 1, 2] } else { &[0] };
        for &v in variants {
            for ty in 0..=0x11u8 {
                for &sid in &EXH_SIDS {
                    for &mfs in &[MFS_DEFAULT, MFS_MAX] {
                        c.push(exhaustive_case(ty, sid, mfs, v));
                    }
                }
            }
        }
        c
    }
    fn gen(&self, rng: &mut Rng, thorough: bool) -> Vec<String> {
        H2Wire.gen(rng, thorough)
    }
    fn run_impl(&self, ops: &[String]) -> ImplRun {
        H2Wire.run_impl(ops)
    }
    fn classify_mismatch(&self, ops: &[String], i: &[String], m: &[String]) -> String {
        H2Wire.classify_mismatch(ops, i, m)
    }
}
