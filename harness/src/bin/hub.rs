//! C09 (scatter/gather verdict of the main process): a real
//! `sozu::command::server::CommandHub` in a thread, fake workers registered
//! through the public `register_worker`, scripted clients on the unix command
//! socket — versus the Lean model `Sozu.Hub.Model`, plus the property's own
//! oracles.
use std::collections::BTreeMap;
use std::io::{Read, Write};
use std::time::{Duration, Instant};

use sozu_command_lib::proto::command::{
    request::RequestType, Cluster, CountRequests, HardStop, ListWorkers, QueryCertificatesFilters, QueryClusterByDomain,
    QueryClustersHashes, QueryHealthChecks, QueryMetricsOptions, SetMetricDetail,
    Request, Response, ResponseStatus, ReturnListenSockets, SoftStop, Status, WorkerRequest,
};
use verif_harness::*;

#[path = "../hubrig.rs"]
mod hubrig;
use hubrig::*;

// --------------------------------------------------------------- probe ----

/// Direct witnesses of the suspected defects on the real code (no model).
fn probe() {
    quiet_logs();
    let add = |n: &str| -> Request {
        RequestType::AddCluster(Cluster { cluster_id: n.into(), ..Default::default() }).into()
    };
    // F17: one worker answers Ok, the other stays silent past the timeout
    {
        let mut rig = Rig::start(2, 1);
        let mut c = rig.connect();
        c.send_raw(&frame(&add("a")));
        let t0 = Instant::now();
        let r0: Option<WorkerRequest> = rig.workers[0].as_mut().unwrap().recv(Duration::from_secs(2));
        let r1: Option<WorkerRequest> = rig.workers[1].as_mut().unwrap().recv(Duration::from_secs(2));
        println!("F17 worker0 got {:?} worker1 got {:?}", r0.as_ref().map(|r| &r.id), r1.as_ref().map(|r| &r.id));
        let id0 = r0.unwrap().id;
        rig.workers[0].as_mut().unwrap().send_raw(&frame(&wresp(&id0, ResponseStatus::Ok, "")));
        let mut seen = String::new();
        while t0.elapsed() < Duration::from_secs(3) {
            if let Some(r) = c.recv::<Response>(Duration::from_millis(100)) {
                seen.push(status_code(r.status));
                if r.status != ResponseStatus::Processing as i32 {
                    println!("F17 final after {:?}: {} `{}`", t0.elapsed(), status_code(r.status), r.message);
                    break;
                }
            }
        }
        println!("F17 client saw {seen} (silent worker 1; expected by the property: F)");
    }
    // duplicate answer: worker 0 answers Ok twice, worker 1 never answers
    {
        let mut rig = Rig::start(2, 1);
        let mut c = rig.connect();
        c.send_raw(&frame(&add("a")));
        let t0 = Instant::now();
        let r0: WorkerRequest = rig.workers[0].as_mut().unwrap().recv(Duration::from_secs(2)).unwrap();
        let _r1: WorkerRequest = rig.workers[1].as_mut().unwrap().recv(Duration::from_secs(2)).unwrap();
        let mut two = frame(&wresp(&r0.id, ResponseStatus::Ok, ""));
        two.extend(frame(&wresp(&r0.id, ResponseStatus::Ok, "")));
        rig.workers[0].as_mut().unwrap().send_raw(&two);
        let mut seen = String::new();
        while t0.elapsed() < Duration::from_secs(3) {
            if let Some(r) = c.recv::<Response>(Duration::from_millis(100)) {
                seen.push(status_code(r.status));
                if r.status != ResponseStatus::Processing as i32 {
                    println!("DUP final after {:?}: {} `{}`", t0.elapsed(), status_code(r.status), r.message);
                    break;
                }
            }
        }
        println!("DUP client saw {seen} (worker 1 never answered)");
    }
    // closed worker channel
    {
        let mut rig = Rig::start(2, 1);
        let mut c = rig.connect();
        c.send_raw(&frame(&add("a")));
        let t0 = Instant::now();
        let r0: WorkerRequest = rig.workers[0].as_mut().unwrap().recv(Duration::from_secs(2)).unwrap();
        let _r1: WorkerRequest = rig.workers[1].as_mut().unwrap().recv(Duration::from_secs(2)).unwrap();
        rig.workers[0].as_mut().unwrap().send_raw(&frame(&wresp(&r0.id, ResponseStatus::Ok, "")));
        rig.workers[1] = None;
        let mut seen = String::new();
        while t0.elapsed() < Duration::from_secs(3) {
            if let Some(r) = c.recv::<Response>(Duration::from_millis(100)) {
                seen.push(status_code(r.status));
                if r.status != ResponseStatus::Processing as i32 {
                    println!("CLOSE final after {:?}: {} `{}`", t0.elapsed(), status_code(r.status), r.message);
                    break;
                }
            }
        }
        println!("CLOSE client saw {seen} (worker 1 closed its channel)");
    }
    // F21: requests that get no answer
    {
        let rig = Rig::start(1, 1);
        for (name, req) in [
            ("none", Request { request_type: None }),
            ("launch-worker", RequestType::LaunchWorker("x".into()).into()),
            ("return-listen-sockets", RequestType::ReturnListenSockets(ReturnListenSockets {}).into()),
        ] {
            let mut c = rig.connect();
            c.send_raw(&frame(&req));
            let r = c.recv::<Response>(Duration::from_millis(2500));
            println!("F21 {name}: answer within 2.5 s: {:?} eof={} sync={}", r.map(|r| status_code(r.status)), c.eof, rig.sync());
        }
    }
    // query verbs with a failing worker
    {
        let mut rig = Rig::start(2, 1);
        for (name, req) in [
            ("status", Request::from(RequestType::Status(Status {}))),
            ("query-hashes", RequestType::QueryClustersHashes(QueryClustersHashes {}).into()),
            ("query-metrics", RequestType::QueryMetrics(QueryMetricsOptions::default()).into()),
        ] {
            let mut c = rig.connect();
            c.send_raw(&frame(&req));
            let r0: WorkerRequest = rig.workers[0].as_mut().unwrap().recv(Duration::from_secs(2)).unwrap();
            let r1: WorkerRequest = rig.workers[1].as_mut().unwrap().recv(Duration::from_secs(2)).unwrap();
            rig.workers[0].as_mut().unwrap().send_raw(&frame(&wresp(&r0.id, ResponseStatus::Failure, "boom")));
            rig.workers[1].as_mut().unwrap().send_raw(&frame(&wresp(&r1.id, ResponseStatus::Ok, "")));
            let mut seen = String::new();
            let t0 = Instant::now();
            while t0.elapsed() < Duration::from_secs(3) {
                if let Some(r) = c.recv::<Response>(Duration::from_millis(100)) {
                    seen.push(status_code(r.status));
                    if r.status != ResponseStatus::Processing as i32 {
                        break;
                    }
                }
            }
            println!("QUERY {name}: worker 0 answered Failure; client saw {seen}");
        }
    }
    // reload configuration: message count of a small config, then through the hub; a bad path
    {
        use sozu_command_lib::config::Config;
        let dir = tempfile::tempdir().unwrap();
        let path = dir.path().join("c.toml");
        std::fs::write(&path, "command_socket = \"/tmp/none.sock\"\n[clusters.r1]\nprotocol = \"tcp\"\nfrontends = [ { address = \"127.0.0.1:18080\" } ]\nbackends = [ { address = \"127.0.0.1:11026\" } ]\n").unwrap();
        match Config::load_from_path(&path.to_string_lossy()) {
            Ok(c) => match c.generate_config_messages() {
                Ok(m) => println!("RELOAD config generates {} messages: {:?}", m.len(), m.iter().map(|x| x.content.short_name().to_string()).collect::<Vec<_>>()),
                Err(e) => println!("RELOAD generate error {e}"),
            },
            Err(e) => println!("RELOAD load error {e}"),
        }
        let mut rig = Rig::start(1, 1);
        let mut c = rig.connect();
        c.send_raw(&frame(&Request::from(RequestType::ReloadConfiguration(path.to_string_lossy().to_string()))));
        let mut seen = String::new();
        let t0 = Instant::now();
        while t0.elapsed() < Duration::from_secs(2) {
            if let Some(wr) = rig.workers[0].as_mut().unwrap().recv::<WorkerRequest>(Duration::from_millis(20)) {
                println!("RELOAD worker got {}", wr.id);
                rig.workers[0].as_mut().unwrap().send_raw(&frame(&wresp(&wr.id, ResponseStatus::Ok, "")));
            }
            if let Some(r) = c.recv::<Response>(Duration::from_millis(20)) {
                seen.push(status_code(r.status));
            }
        }
        println!("RELOAD client saw {seen}");
        let mut c2 = rig.connect();
        c2.send_raw(&frame(&Request::from(RequestType::ReloadConfiguration("/nonexistent/x.toml".into()))));
        let r = c2.recv::<Response>(Duration::from_millis(1500));
        println!("RELOAD bad path: answer {:?}, hub finished {}", r.map(|r| (status_code(r.status), r.message)), rig.hub_finished());
        if let Some(h) = rig.hub.take() { if rig.hub_finished() { println!("RELOAD hub result {:?}", h.join().map(|x| x.map_err(|e| e.chars().take(120).collect::<String>()))); } else { rig.hub = Some(h); } }
    }
    // load state of a corrupt file
    {
        let mut rig = Rig::start(1, 1);
        let path = rig._dir.path().join("corrupt");
        let mut f = std::fs::File::create(&path).unwrap();
        for i in 0..2 {
            let req: Request = RequestType::AddCluster(Cluster { cluster_id: format!("k{i}"), ..Default::default() }).into();
            f.write_all(serde_json::to_string(&WorkerRequest::new(format!("SAVE-{i}"), req)).unwrap().as_bytes()).unwrap();
            f.write_all(b"\n\0").unwrap();
        }
        f.write_all(b"{\"id\": garbage not json\n\0").unwrap();
        drop(f);
        let mut c = rig.connect();
        c.send_raw(&frame(&Request::from(RequestType::LoadState(path.to_string_lossy().to_string()))));
        let mut seen = String::new();
        let t0 = Instant::now();
        let mut ids = vec![];
        while t0.elapsed() < Duration::from_secs(2) {
            if let Some(wr) = rig.workers[0].as_mut().unwrap().recv::<WorkerRequest>(Duration::from_millis(20)) {
                ids.push(wr.id.clone());
                rig.workers[0].as_mut().unwrap().send_raw(&frame(&wresp(&wr.id, ResponseStatus::Ok, "")));
            }
            if let Some(r) = c.recv::<Response>(Duration::from_millis(20)) {
                seen.push(status_code(r.status));
                if r.status != 1 { println!("CORRUPT final: {}", r.message.chars().take(100).collect::<String>()); }
            }
        }
        println!("CORRUPT worker got {ids:?}; client saw {seen}");
        let mut c3 = rig.connect();
        c3.send_raw(&frame(&add("after")));
        let r: Option<WorkerRequest> = rig.workers[0].as_mut().unwrap().recv(Duration::from_secs(1));
        println!("CORRUPT next request id {:?}", r.map(|r| r.id));
    }
    // two requests in one write on one connection
    {
        let mut rig = Rig::start(1, 1);
        let mut c = rig.connect();
        let mut two = frame(&Request::from(RequestType::ListWorkers(ListWorkers {})));
        two.extend(frame(&add("p2")));
        c.send_raw(&two);
        let r: Option<WorkerRequest> = rig.workers[0].as_mut().unwrap().recv(Duration::from_secs(1));
        if let Some(wr) = &r { rig.workers[0].as_mut().unwrap().send_raw(&frame(&wresp(&wr.id, ResponseStatus::Ok, ""))); }
        let mut seen = String::new();
        let t0 = Instant::now();
        while t0.elapsed() < Duration::from_secs(2) {
            if let Some(r) = c.recv::<Response>(Duration::from_millis(50)) { seen.push(status_code(r.status)); }
        }
        println!("PIPELINED list+add in one write: client saw {seen} (two requests sent)");
    }
    // soft stop with a dead worker: no deadline
    {
        let mut rig = Rig::start(2, 1);
        let mut c = rig.connect();
        rig.workers[1] = None;
        rig.sync();
        let mut c2 = rig.connect();
        c2.send_raw(&frame(&add("b")));
        let _ = rig.workers[0].as_mut().unwrap().recv::<WorkerRequest>(Duration::from_secs(2));
        c.send_raw(&frame(&Request::from(RequestType::SoftStop(SoftStop {}))));
        let r0: Option<WorkerRequest> = rig.workers[0].as_mut().unwrap().recv(Duration::from_secs(2));
        println!("SOFTSTOP worker0 got {:?}", r0.as_ref().map(|r| &r.id));
        let mut seen = String::new();
        let t0 = Instant::now();
        while t0.elapsed() < Duration::from_secs(3) {
            if let Some(r) = c.recv::<Response>(Duration::from_millis(100)) {
                seen.push(status_code(r.status));
            }
        }
        println!("SOFTSTOP (worker 0 silent, worker 1 closed before): client saw {seen} in 3 s, eof={}", c.eof);
    }
}

// ----------------------------------------------------------- the area ----

/// model time units per `worker_timeout` (1 s): one unit = 100 ms
const T_UNITS: u64 = 10;
const UNIT_MS: u64 = 100;

#[derive(Clone, Debug, PartialEq)]
enum VerbK {
    Add,
    /// AddCluster with an 8 KB id: the small workers' channels refuse the frame
    AddBig,
    Bad,
    Query,
    Status,
    Metrics,
    HardStop,
    SoftStop,
    Load(usize),
    LoadMissing,
    List,
    NoneReq,
    Launch,
    RetSock,
    /// LoadState of a file with `k` good entries followed by an unparsable one
    LoadCorrupt(usize),
    /// ReloadConfiguration of a configuration generating 5 messages per cluster
    Reload(usize),
    ReloadBad,
    MaxConn,
    ConfMetrics,
    MetricDetail,
    MetricDetailBad,
    Count,
    Hc,
    Certs,
    QueryById,
    QueryDomain,
    QueryCerts,
}

impl VerbK {
    fn parse(w: &[&str]) -> Option<VerbK> {
        Some(match w {
            ["add"] => VerbK::Add,
            ["addbig"] => VerbK::AddBig,
            ["bad"] => VerbK::Bad,
            ["query"] => VerbK::Query,
            ["status"] => VerbK::Status,
            ["metrics"] => VerbK::Metrics,
            ["hardstop"] => VerbK::HardStop,
            ["softstop"] => VerbK::SoftStop,
            ["load", k] => VerbK::Load(k.parse().ok()?),
            ["loadmissing"] => VerbK::LoadMissing,
            ["list"] => VerbK::List,
            ["loadcorrupt", k] => VerbK::LoadCorrupt(k.parse().ok()?),
            ["loadcorrupt"] => VerbK::LoadCorrupt(1),
            ["reload", k] => VerbK::Reload(k.parse().ok()?),
            ["reloadbad"] => VerbK::ReloadBad,
            ["maxconn"] => VerbK::MaxConn,
            ["confmetrics"] => VerbK::ConfMetrics,
            ["metricdetail"] => VerbK::MetricDetail,
            ["metricdetailbad"] => VerbK::MetricDetailBad,
            ["count"] => VerbK::Count,
            ["hc"] => VerbK::Hc,
            ["certs"] => VerbK::Certs,
            ["querybyid"] => VerbK::QueryById,
            ["querydomain"] => VerbK::QueryDomain,
            ["querycerts"] => VerbK::QueryCerts,
            ["none"] => VerbK::NoneReq,
            ["launch"] => VerbK::Launch,
            ["retsock"] => VerbK::RetSock,
            _ => return None,
        })
    }
    fn gathers(&self) -> bool {
        matches!(self, VerbK::Add | VerbK::AddBig | VerbK::Query | VerbK::Status | VerbK::Metrics | VerbK::HardStop | VerbK::SoftStop | VerbK::Load(_) | VerbK::Reload(_) | VerbK::MaxConn | VerbK::ConfMetrics | VerbK::MetricDetail | VerbK::QueryById | VerbK::QueryDomain | VerbK::QueryCerts)
    }
    fn has_deadline(&self) -> bool {
        matches!(self, VerbK::Add | VerbK::AddBig | VerbK::Query | VerbK::Status | VerbK::Metrics | VerbK::HardStop | VerbK::MaxConn | VerbK::ConfMetrics | VerbK::MetricDetail | VerbK::QueryById | VerbK::QueryDomain | VerbK::QueryCerts)
    }
    fn is_stop(&self) -> bool {
        matches!(self, VerbK::HardStop | VerbK::SoftStop)
    }
    /// verbs whose Ok means "applied on every worker"
    fn is_mutating(&self) -> bool {
        matches!(self, VerbK::Add | VerbK::AddBig | VerbK::Load(_) | VerbK::Reload(_) | VerbK::MaxConn | VerbK::ConfMetrics)
    }
    fn subs(&self) -> usize {
        match self {
            VerbK::Load(k) => *k,
            VerbK::Reload(k) => *k,
            _ => 1,
        }
    }
    fn no_answer(&self) -> bool {
        matches!(self, VerbK::NoneReq | VerbK::Launch | VerbK::RetSock)
    }
}

/// what the script knows about one client request (for the oracles)
struct ReqInfo {
    client: u64,
    verb: VerbK,
    /// op index of the `req` line
    at: usize,
    /// workers whose channel was open when the request was sent
    targeted: Vec<u64>,
    /// hub task id (learnt from the ids the workers received)
    task: Option<u64>,
    /// terminal answers sent by the script for this request's ids, in order:
    /// (sending worker, id's worker, sub, ok?, op index)
    answers: Vec<(u64, u64, u64, bool, usize)>,
    /// workers closed while the request was pending
    closed_while_pending: Vec<u64>,
    /// workers alive at dispatch whose channel refused the request (never received it)
    unsendable: Vec<u64>,
    /// ops at which the script sent any response (Processing included) for this request
    touched_at: Vec<usize>,
    finals: Vec<(char, usize)>,
    eof_at: Option<usize>,
    dropped: bool,
    /// written back to back BEFORE another request on the same connection
    pipelined_first: bool,
    sent_at: Instant,
    /// model age in units
    age: u64,
}

struct Hubs;

struct Run<'a> {
    rig: Rig,
    clients: BTreeMap<u64, Peer>,
    closed_workers: Vec<u64>,
    /// workers with a small channel ceiling
    small: Vec<u64>,
    /// (worker, task, sub) -> id string as the hub produced it
    ids: BTreeMap<(u64, u64, u64), String>,
    reqs: Vec<ReqInfo>,
    hub_gone: bool,
    hub_gone_at: Option<usize>,
    stop_seen: bool,
    timing_bad: bool,
    r: &'a mut ImplRun,
    load_seq: usize,
    hold: Option<HoldState>,
    hold_path: Option<std::path::PathBuf>,
    fake_hold: bool,
    op_names: Vec<String>,
    /// `command_allowed_uids` excludes us: every request is refused
    deny: bool,
    /// a request that makes the handler panic was sent
    crash_expected: bool,
}

struct HoldState {
    reader: std::thread::JoinHandle<()>,
    client: Peer,
}

fn parse_failure_log(msg: &str) -> String {
    // WorkerTask failure message: "{worker}: OK, {worker}: {message}, ..."
    let mut v: Vec<(u64, char)> = vec![];
    if msg.is_empty() {
        return String::new();
    }
    for part in msg.split(", ") {
        let mut it = part.splitn(2, ": ");
        let w = it.next().unwrap_or("");
        let m = it.next().unwrap_or("");
        // an unknown message layout: no detail to compare (see `lines_agree`)
        let Ok(w) = w.trim().parse::<u64>() else { return "~".into() };
        v.push((w, match m { "OK" => 'O', "f" => 'F', "p" => 'P', _ => '?' }));
    }
    v.sort_by_key(|x| x.0); // stable: per-worker order kept
    v.iter().map(|(w, c)| format!("{w}:{c}")).collect::<Vec<_>>().join(",")
}

impl<'a> Run<'a> {
    fn build_request(&mut self, idx: usize, verb: &VerbK) -> Request {
        match verb {
            VerbK::Add => RequestType::AddCluster(Cluster { cluster_id: format!("c{idx}"), ..Default::default() }).into(),
            VerbK::AddBig => RequestType::AddCluster(Cluster {
                cluster_id: format!("big{idx}-{}", "x".repeat(8000)),
                ..Default::default()
            })
            .into(),
            VerbK::Bad => RequestType::RemoveCluster(format!("missing{idx}")).into(),
            VerbK::Query => RequestType::QueryClustersHashes(QueryClustersHashes {}).into(),
            VerbK::Status => RequestType::Status(Status {}).into(),
            VerbK::Metrics => RequestType::QueryMetrics(QueryMetricsOptions::default()).into(),
            VerbK::HardStop => RequestType::HardStop(HardStop {}).into(),
            VerbK::SoftStop => RequestType::SoftStop(SoftStop {}).into(),
            VerbK::Load(k) => {
                self.load_seq += 1;
                let path = self.rig._dir.path().join(format!("state{}", self.load_seq));
                let mut f = std::fs::File::create(&path).expect("state file");
                for i in 0..*k {
                    let req: Request = RequestType::AddCluster(Cluster {
                        cluster_id: format!("l{}x{i}", self.load_seq),
                        ..Default::default()
                    })
                    .into();
                    let wr = WorkerRequest::new(format!("SAVE-{i}"), req);
                    f.write_all(serde_json::to_string(&wr).unwrap().as_bytes()).unwrap();
                    f.write_all(b"\n\0").unwrap();
                }
                RequestType::LoadState(path.to_string_lossy().to_string()).into()
            }
            VerbK::LoadMissing => RequestType::LoadState(format!("{}/nonexistent", self.rig._dir.path().display())).into(),
            VerbK::LoadCorrupt(k) => {
                self.load_seq += 1;
                let path = self.rig._dir.path().join(format!("corrupt{}", self.load_seq));
                let mut f = std::fs::File::create(&path).unwrap_or_else(|e| panic!("{SETUP} state file: {e}"));
                for i in 0..*k {
                    let req: Request = RequestType::AddCluster(Cluster { cluster_id: format!("k{}x{i}", self.load_seq), ..Default::default() }).into();
                    f.write_all(serde_json::to_string(&WorkerRequest::new(format!("SAVE-{i}"), req)).unwrap().as_bytes()).unwrap();
                    f.write_all(b"\n\0").unwrap();
                }
                f.write_all(b"{\"id\": this entry is not json\n\0").unwrap();
                RequestType::LoadState(path.to_string_lossy().to_string()).into()
            }
            VerbK::Reload(k) => {
                // one tcp cluster = 5 messages (listener, cluster, frontend, backend, activation)
                self.load_seq += 1;
                let path = self.rig._dir.path().join(format!("conf{}.toml", self.load_seq));
                let mut toml = String::from("command_socket = \"/tmp/none.sock\"\n");
                for j in 0..(*k / 5) {
                    let port = 20000 + (idx * 16 + j) as u32 * 2;
                    toml.push_str(&format!("[clusters.r{idx}x{j}]\nprotocol = \"tcp\"\nfrontends = [ {{ address = \"127.0.0.1:{port}\" }} ]\nbackends = [ {{ address = \"127.0.0.1:{}\" }} ]\n", port + 1));
                }
                std::fs::write(&path, toml).unwrap_or_else(|e| panic!("{SETUP} config file: {e}"));
                RequestType::ReloadConfiguration(path.to_string_lossy().to_string()).into()
            }
            VerbK::ReloadBad => RequestType::ReloadConfiguration(format!("{}/no-such-config.toml", self.rig._dir.path().display())).into(),
            VerbK::MaxConn => RequestType::SetMaxConnectionsPerIp(7).into(),
            VerbK::ConfMetrics => RequestType::ConfigureMetrics(1).into(),
            VerbK::MetricDetail => RequestType::SetMetricDetail(SetMetricDetail { client_id: format!("verif{idx}"), detail: Some(3), ttl_seconds: Some(30), ..Default::default() }).into(),
            VerbK::MetricDetailBad => RequestType::SetMetricDetail(SetMetricDetail { client_id: "x".repeat(100), detail: Some(3), ..Default::default() }).into(),
            VerbK::Count => RequestType::CountRequests(CountRequests {}).into(),
            VerbK::Hc => RequestType::QueryHealthChecks(QueryHealthChecks { cluster_id: None }).into(),
            VerbK::Certs => RequestType::QueryCertificatesFromTheState(QueryCertificatesFilters::default()).into(),
            VerbK::QueryById => RequestType::QueryClusterById("c0".into()).into(),
            VerbK::QueryDomain => RequestType::QueryClustersByDomain(QueryClusterByDomain { hostname: "example.com".into(), path: None }).into(),
            VerbK::QueryCerts => RequestType::QueryCertificatesFromWorkers(QueryCertificatesFilters::default()).into(),
            VerbK::List => RequestType::ListWorkers(ListWorkers {}).into(),
            VerbK::NoneReq => Request { request_type: None },
            VerbK::Launch => RequestType::LaunchWorker("w".into()).into(),
            VerbK::RetSock => RequestType::ReturnListenSockets(ReturnListenSockets {}).into(),
        }
    }

    fn live_workers(&self) -> Vec<u64> {
        (0..self.rig.workers.len() as u64).filter(|w| !self.closed_workers.contains(w)).collect()
    }

    /// wait for a full iteration of the hub loop, then gather what every client got
    fn settle(&mut self, op_idx: usize) -> String {
        if !self.hub_gone && self.hold.is_none() {
            if !self.rig.sync() {
                // the hub stopped (or died) — wait for the thread to finish
                let t0 = Instant::now();
                while !self.rig.hub_finished() && t0.elapsed() < Duration::from_secs(3) {
                    std::thread::sleep(Duration::from_millis(5));
                }
                if self.rig.hub_finished() {
                    self.hub_gone = true;
                    self.hub_gone_at = Some(op_idx);
                    if let Some(h) = self.rig.hub.take() {
                        match h.join() {
                            Ok(Ok(_)) => {}
                            Ok(Err(e)) if e.contains("cannot load configuration") => {
                                self.r.oracle.push(("reload-bad-path-crashes-main".into(), format!("a client's ReloadConfiguration of an unloadable path kills the main process: {e}")));
                            }
                            Ok(Err(e)) => self.r.oracle.push(("hub-crash".into(), e)),
                            Err(_) => self.r.oracle.push(("hub-crash".into(), "hub thread panicked".into())),
                        }
                    }
                    if !self.stop_seen && !self.crash_expected {
                        self.r.oracle.push(("hub-exited-without-stop".into(), format!("op {op_idx}")));
                    }
                } else {
                    self.r.oracle.push(("hub-unresponsive".into(), format!("no answer to ListWorkers within 5 s at op {op_idx}")));
                    // nothing more can be learnt from this main process: the rest of
                    // the case is skipped instead of waiting 8 s per step
                    self.hub_gone = true;
                    self.hub_gone_at = Some(op_idx);
                }
            }
        }
        let mut parts = vec![];
        let held = self.hold.is_some();
        for (c, p) in self.clients.iter_mut() {
            if p.eof && p.buf.is_empty() {
                continue;
            }
            let mut s = String::new();
            // everything the hub queued was flushed before the second sync answer
            p.drain();
            if self.hub_gone && !p.eof {
                // the hub thread has ended: its sockets are closed
                p.pump(Duration::from_millis(200));
                p.drain();
            }
            while let Some(resp) = p.take::<Response>() {
                let code = status_code(resp.status);
                // attribute to the oldest unfinished request of this client
                let other_pending = self.reqs.iter().any(|q| q.client == *c && q.pipelined_first && q.finals.is_empty());
                let target = self.reqs.iter_mut().find(|q| q.client == *c && q.finals.is_empty() && !q.dropped && !q.pipelined_first);
                let mut text = code.to_string();
                match target {
                    Some(q) => {
                        if code != 'P' {
                            q.finals.push((code, op_idx));
                            if code == 'F' && matches!(q.verb, VerbK::Add | VerbK::AddBig) && q.task.is_some() && !resp.message.starts_with("could not") {
                                let log = parse_failure_log(&resp.message);
                                text = if log == "~" { "F".into() } else { format!("F[{log}]") };
                            }
                        }
                    }
                    None if other_pending => {
                        // the connection carried two requests: a further answer is for the other one
                        let q = self.reqs.iter_mut().find(|q| q.client == *c && q.pipelined_first && q.finals.is_empty()).unwrap();
                        if code != 'P' {
                            q.finals.push((code, op_idx));
                        }
                    }
                    None => {
                        // a message for a client with no request in progress
                        let last = self.reqs.iter_mut().rev().find(|q| q.client == *c);
                        match last {
                            Some(q) if code != 'P' => {
                                q.finals.push((code, op_idx));
                                self.r.oracle.push(("two-final-answers".into(), format!("client {c} got a second final answer `{code}` at op {op_idx}")));
                            }
                            _ => self.r.oracle.push(("cross-talk-message".into(), format!("client {c} got `{code}` with no request in progress at op {op_idx}"))),
                        }
                    }
                }
                s.push_str(&text);
            }
            if p.eof {
                s.push('X');
                for q in self.reqs.iter_mut().filter(|q| q.client == *c) {
                    if q.eof_at.is_none() {
                        q.eof_at = Some(op_idx);
                    }
                }
            }
            if !s.is_empty() {
                if held {
                    self.r.oracle.push(("rig-message-during-hold".into(), format!("client {c} got {s} while the hub is blocked")));
                }
                parts.push(format!("c{c}={s}"));
            }
        }
        // timing sanity: a deadline task must not be near its real deadline
        // unless the model time says it is long past it
        for q in self.reqs.iter() {
            // (a request answered during THIS op counts too: the answer may be the
            // real deadline firing while the model clock is still far from it)
            let open_before_this_op = q.finals.first().map(|f| f.1 >= op_idx).unwrap_or(true);
            if q.verb.has_deadline() && q.task.is_some() && open_before_this_op && q.age <= T_UNITS - 3 && self.hub_gone_at.map(|g| g >= op_idx).unwrap_or(true) {
                if q.sent_at.elapsed() > Duration::from_millis(UNIT_MS * T_UNITS - 150) {
                    self.timing_bad = true;
                    self.r.tags.push(format!("timing:task-aged-{}ms-at-model-age-{}", q.sent_at.elapsed().as_millis() / 100 * 100, q.age));
                }
            }
        }
        if parts.is_empty() { "-".into() } else { parts.join(" ") }
    }

    fn do_req(&mut self, op_idx: usize, c: u64, verb: VerbK) -> String {
        self.do_reqs(op_idx, c, vec![verb])
    }

    /// one client writes the given requests back to back in ONE write
    fn do_reqs(&mut self, op_idx: usize, c: u64, verbs: Vec<VerbK>) -> String {
        if self.hub_gone {
            return "-".into();
        }
        if !self.clients.contains_key(&c) {
            let p = self.rig.connect();
            self.clients.insert(c, p);
        }
        let targeted = self.live_workers();
        let mut bytes = vec![];
        let n = verbs.len();
        for (i, verb) in verbs.iter().enumerate() {
            let idx = self.reqs.len();
            let req = self.build_request(idx, verb);
            bytes.extend(frame(&req));
            self.reqs.push(ReqInfo {
                client: c,
                verb: verb.clone(),
                at: op_idx,
                targeted: targeted.clone(),
                task: None,
                answers: vec![],
                closed_while_pending: vec![],
                unsendable: vec![],
                touched_at: vec![],
                finals: vec![],
                eof_at: None,
                dropped: false,
                pipelined_first: i + 1 < n,
                sent_at: Instant::now(),
                age: 0,
            });
        }
        let idx = self.reqs.len() - 1;
        let verb = verbs[n - 1].clone();
        if verb.is_stop() && !self.deny {
            self.stop_seen = true;
        }
        if verb == VerbK::ReloadBad && !self.deny {
            self.crash_expected = true;
        }
        self.clients.get_mut(&c).unwrap().send_raw(&bytes);
        // the workers receive the scattered requests: learn the ids
        let scattered = if self.deny { 0 } else if let VerbK::LoadCorrupt(k) = verb { k } else if verb.gathers() { verb.subs() } else { 0 };
        if scattered > 0 {
            let unsendable: Vec<u64> =
                if verb == VerbK::AddBig { targeted.iter().copied().filter(|w| self.small.contains(w)).collect() } else { vec![] };
            // as coded, a worker whose channel refused the frame is flagged in
            // error and closed by the next loop iteration
            for w in &unsendable {
                self.closed_workers.push(*w);
                self.r.tags.push("unsendable-worker".into());
            }
            self.reqs[idx].unsendable = unsendable.clone();
            for w in targeted.into_iter().filter(|w| !unsendable.contains(w)) {
                for _ in 0..scattered {
                    let Some(peer) = self.rig.workers[w as usize].as_mut() else { continue };
                    match peer.recv::<WorkerRequest>(Duration::from_secs(3)) {
                        Some(wr) => {
                            let parts: Vec<&str> = wr.id.rsplitn(4, '-').collect();
                            if parts.len() == 4 {
                                let (sub, task, wk) = (parts[0].parse::<u64>(), parts[1].parse::<u64>(), parts[2].parse::<u64>());
                                if let (Ok(sub), Ok(task), Ok(wk)) = (sub, task, wk) {
                                    if wk != w {
                                        self.r.oracle.push(("scatter-wrong-worker".into(), format!("worker {w} received id {}", wr.id)));
                                    }
                                    self.ids.insert((wk, task, sub), wr.id.clone());
                                    if verb.gathers() {
                                        self.reqs[idx].task = Some(task);
                                    }
                                }
                            }
                        }
                        None => {
                            self.r.oracle.push(("scatter-missing".into(), format!("worker {w} did not receive request {idx} ({verb:?}) within 3 s")));
                        }
                    }
                }
            }
        }
        self.settle(op_idx)
    }

    fn do_ans(&mut self, op_idx: usize, w: u64, rw: u64, rt: u64, rs: u64, st: &str) -> String {
        if self.hub_gone {
            return "-".into();
        }
        // the id the hub registered for (rw, rt, rs): learnt from the worker that
        // received it, or — when that worker could not be sent the request —
        // rebuilt from a sibling id of the same scatter ("{verb}-{worker}-{task}-{sub}")
        let id = self.ids.get(&(rw, rt, rs)).cloned().unwrap_or_else(|| {
            let sibling = self.ids.iter().find(|(k, _)| k.1 == rt && k.2 == rs).map(|(_, v)| v.clone());
            let unsent = self.reqs.iter().any(|q| q.task == Some(rt) && q.unsendable.contains(&rw));
            match sibling {
                Some(sib) if unsent => {
                    let parts: Vec<&str> = sib.rsplitn(4, '-').collect();
                    format!("{}-{rw}-{rt}-{rs}", parts[3])
                }
                _ => format!("Unknown-{rw}-{rt}-{rs}"),
            }
        });
        let (status, msg) = match st {
            "ok" => (ResponseStatus::Ok, ""),
            "fail" => (ResponseStatus::Failure, "f"),
            _ => (ResponseStatus::Processing, "p"),
        };
        let known = !id.starts_with("Unknown-");
        if let Some(q) = self.reqs.iter_mut().find(|q| q.task == Some(rt) && known) {
            q.touched_at.push(op_idx);
            if st != "proc" {
                q.answers.push((w, rw, rs, st == "ok", op_idx));
            }
        }
        match self.rig.workers.get_mut(w as usize).and_then(|x| x.as_mut()) {
            Some(peer) => {
                peer.send_raw(&frame(&wresp(&id, status, msg)));
            }
            None => return "unrealisable".into(),
        }
        self.settle(op_idx)
    }

    fn run_op(&mut self, op_idx: usize, op: &str) -> String {
        let w: Vec<&str> = op.split_whitespace().collect();
        self.r.tags.push(format!("op:{}", w.first().copied().unwrap_or("")));
        match w.as_slice() {
            ["req", c, rest @ ..] => match (c.parse::<u64>(), VerbK::parse(rest)) {
                (Ok(c), Some(v)) => {
                    self.r.tags.push(format!("verb:{}", rest[0]));
                    self.do_req(op_idx, c, v)
                }
                _ => "bad-op".into(),
            },
            ["req2", c, rest @ ..] => {
                let parts: Vec<Vec<&str>> = rest.split(|w| *w == "|").map(|x| x.to_vec()).collect();
                let verbs: Option<Vec<VerbK>> = parts.iter().map(|p| VerbK::parse(p)).collect();
                match (c.parse::<u64>(), verbs) {
                    (Ok(c), Some(v)) if v.len() >= 2 => {
                        self.r.tags.push("pipelined-requests".into());
                        self.do_reqs(op_idx, c, v)
                    }
                    _ => "bad-op".into(),
                }
            }
            ["ans", w_, rw, rt, rs, st] if ["ok", "fail", "proc"].contains(st) => {
                match (w_.parse(), rw.parse(), rt.parse(), rs.parse()) {
                    (Ok(a), Ok(b), Ok(c), Ok(d)) => {
                        self.r.tags.push(format!("ans:{st}"));
                        self.do_ans(op_idx, a, b, c, d, st)
                    }
                    _ => "bad-op".into(),
                }
            }
            ["close", w_] => match w_.parse::<u64>() {
                Ok(wk) => {
                    if (wk as usize) < self.rig.workers.len() && !self.closed_workers.contains(&wk) && !self.hub_gone {
                        self.rig.workers[wk as usize] = None;
                        self.closed_workers.push(wk);
                        for q in self.reqs.iter_mut().filter(|q| q.finals.is_empty() && q.targeted.contains(&wk)) {
                            q.closed_while_pending.push(wk);
                        }
                    }
                    self.settle(op_idx)
                }
                Err(_) => "bad-op".into(),
            },
            ["adv", n] => match n.parse::<u64>() {
                Ok(n) => {
                    std::thread::sleep(Duration::from_millis(n * UNIT_MS));
                    for q in self.reqs.iter_mut() {
                        if q.finals.is_empty() {
                            q.age += n;
                        }
                    }
                    self.settle(op_idx)
                }
                Err(_) => "bad-op".into(),
            },
            ["drop", c] => match c.parse::<u64>() {
                Ok(c) => {
                    if let Some(p) = self.clients.remove(&c) {
                        drop(p);
                        for q in self.reqs.iter_mut().filter(|q| q.client == c) {
                            q.dropped = true;
                        }
                    }
                    self.settle(op_idx)
                }
                Err(_) => "bad-op".into(),
            },
            ["tick"] => self.settle(op_idx),
            ["hold"] => self.do_hold(),
            ["release"] => self.do_release(op_idx),
            _ => "bad-op".into(),
        }
    }

    /// Block the hub thread inside a request handler: `SaveState` to a FIFO
    /// nobody reads yet makes `File::create` wait for a reader.
    fn do_hold(&mut self) -> String {
        if self.hold.is_some() || self.fake_hold {
            return "bad-op".into();
        }
        if self.hub_gone {
            // nothing to block any more: the lines up to `release` do nothing
            self.fake_hold = true;
            return "-".into();
        }
        let path = self.rig._dir.path().join(format!("fifo{}", self.load_seq));
        self.load_seq += 1;
        let cpath = std::ffi::CString::new(path.to_string_lossy().as_bytes()).unwrap();
        // SAFETY: plain mkfifo on a path inside the rig's private directory
        if unsafe { libc::mkfifo(cpath.as_ptr(), 0o600) } != 0 {
            panic!("{SETUP} mkfifo failed: {}", std::io::Error::last_os_error());
        }
        let mut client = self.rig.connect();
        let req: Request = RequestType::SaveState(path.to_string_lossy().to_string()).into();
        client.send_raw(&frame(&req));
        // wait until the hub thread sits in open(2) on the fifo
        let tid = self.rig.hub_tid;
        let t0 = Instant::now();
        let mut blocked = false;
        while t0.elapsed() < Duration::from_secs(3) {
            if let Ok(s) = std::fs::read_to_string(format!("/proc/self/task/{tid}/syscall")) {
                let nr = s.split_whitespace().next().unwrap_or("");
                if nr == libc::SYS_openat.to_string() || nr == libc::SYS_open.to_string() {
                    blocked = true;
                    break;
                }
            }
            std::thread::sleep(Duration::from_millis(1));
        }
        let rpath = path.clone();
        // the reader is only started at release; keep a closure-less handle
        let reader = std::thread::spawn(move || {
            let _ = rpath;
        });
        self.hold = Some(HoldState { reader, client });
        self.hold_path = Some(path);
        if !blocked {
            self.r.tags.push("timing:hold-not-confirmed".into());
            self.timing_bad = true;
        }
        "-".into()
    }

    fn do_release(&mut self, op_idx: usize) -> String {
        if self.fake_hold {
            self.fake_hold = false;
            return "-".into();
        }
        let Some(mut hs) = self.hold.take() else { return "bad-op".into() };
        let _ = hs.reader.join();
        let path = self.hold_path.take().unwrap();
        // open the fifo for reading: the hub's open(2) returns, it writes the state and goes on
        let rd = std::thread::spawn(move || {
            if let Ok(mut f) = std::fs::File::open(&path) {
                let mut v = vec![];
                let _ = f.read_to_end(&mut v);
            }
        });
        let ok = hs.client.recv::<Response>(Duration::from_secs(5)).is_some();
        let _ = rd.join();
        if !ok {
            self.r.oracle.push(("rig-release-failed".into(), "SaveState got no answer".into()));
        }
        self.settle(op_idx)
    }
}

impl Area for Hubs {
    fn name(&self) -> &'static str {
        "hub"
    }
    fn rule(&self) -> String {
        "a real CommandHub thread (worker_timeout 1 s) with 0..3 fake workers and 1..3 scripted clients; now and then the last 1-2 workers have a channel ceiling (4 KiB) that refuses a big mutating request (8 KB id: write_message fails, the worker is alive but cannot be sent the request); each case assigns every (request, worker) a behaviour in {ok, failure, silent, close, duplicate, late, processing-then-ok, failure-after-ok, answer under another worker's id, unknown id}, interleaves the answers of concurrent requests in a random order, optionally delivers several workers' answers in ONE poll batch (hub blocked inside SaveState-to-FIFO), and ends with a time advance past the deadline; verbs: AddCluster (mutating), RemoveCluster of a missing cluster (rejected by main), QueryClustersHashes/Status/QueryMetrics, LoadState (k requests / missing file), ListWorkers, HardStop/SoftStop, request_type None/LaunchWorker/ReturnListenSockets; non-trivial = at least one worker misbehaves (not plain ok) or two requests overlap; distinct = distinct op sequence".into()
    }
    fn cases(&self, thorough: bool) -> u64 {
        if thorough { 3000 } else { 160 }
    }
    fn keep_prefix(&self) -> usize {
        // every re-run of a case costs up to several seconds of real time
        // (worker timeout): cases are generated small instead of being shrunk
        1_000_000
    }
    fn corpus(&self) -> Vec<Vec<String>> {
        corpus_cases()
    }
    fn gen(&self, rng: &mut Rng, thorough: bool) -> Vec<String> {
        gen_case(rng, thorough)
    }
    fn lines_agree(&self, impl_line: &str, model_line: &str) -> bool {
        if impl_line == model_line || impl_line == "inconclusive" {
            return true;
        }
        // the response log is compared only when the failure message has the
        // layout "{worker}: OK, {worker}: {message}" (wording is incidental)
        fn strip(s: &str) -> String {
            let mut out = String::new();
            let mut depth = 0;
            for c in s.chars() {
                match c {
                    '[' => depth += 1,
                    ']' => depth -= 1,
                    _ if depth == 0 => out.push(c),
                    _ => {}
                }
            }
            out
        }
        let bare_f = impl_line.split(' ').any(|tok| {
            let b = tok.as_bytes();
            (0..b.len()).any(|i| b[i] == b'F' && b.get(i + 1) != Some(&b'['))
        });
        bare_f && strip(impl_line) == strip(model_line)
    }
    fn classify_mismatch(&self, ops: &[String], _i: &[String], _m: &[String]) -> String {
        let _ = ops;
        "model-mismatch".into()
    }
    fn run_impl(&self, ops: &[String]) -> ImplRun {
        let mut r = ImplRun::default();
        for attempt in 0..3 {
            r = ImplRun::default();
            // a panic of the HARNESS thread (set-up failure: temp dir, sockets, hub
            // thread start, FIFO; or a harness bug) says nothing about the code
            // under test: retried, then counted as inconclusive
            let res = std::panic::catch_unwind(std::panic::AssertUnwindSafe(|| run_case(ops, &mut r)));
            let why = match res {
                Ok(false) => break,
                Ok(true) => "timing-unreliable".to_string(),
                Err(e) => {
                    let t = panic_text(&*e);
                    if t.starts_with(SETUP) { "setup-failed".to_string() } else { format!("harness-panic:{}", t.chars().take(60).collect::<String>().replace(' ', "_")) }
                }
            };
            if attempt == 2 {
                r.out = ops.iter().map(|_| "inconclusive".to_string()).collect();
                r.oracle.clear();
                r.tags.retain(|t| t.starts_with("timing:"));
                r.tags.push("inconclusive".into());
                r.tags.push(format!("inconclusive:{why}"));
                r.nontrivial = false;
                eprintln!("inconclusive case ({why}): {ops:?} {:?}", r.tags);
            } else {
                std::thread::sleep(Duration::from_millis(50 << attempt));
            }
        }
        r
    }
}

/// returns true when the run's timing was unreliable
fn run_case(ops: &[String], r: &mut ImplRun) -> bool {
    let first: Vec<&str> = ops.first().map(|s| s.split_whitespace().collect()).unwrap_or_default();
    let (nw, t, nsmall) = match first.as_slice() {
        ["new", w, t] => (w.parse::<usize>().unwrap_or(0).min(8), t.parse::<u64>().unwrap_or(T_UNITS), 0usize),
        ["new", w, t, sm] | ["new", w, t, sm, "deny"] => (
            w.parse::<usize>().unwrap_or(0).min(8),
            t.parse::<u64>().unwrap_or(T_UNITS),
            sm.parse::<usize>().unwrap_or(0),
        ),
        _ => {
            r.out = ops.iter().map(|_| "bad-op".to_string()).collect();
            return false;
        }
    };
    if t != T_UNITS {
        r.out = ops.iter().map(|_| "bad-op".to_string()).collect();
        return false;
    }
    let deny = first.len() == 5;
    let rig = Rig::start_cfg(nw, 1, nsmall, deny);
    if deny {
        r.tags.push("uid-not-allowed".into());
    }
    r.out.push("ok".into());
    r.tags.push(format!("workers:{nw}"));
    if nsmall > 0 {
        r.tags.push(format!("small-workers:{nsmall}"));
    }
    let mut run = Run {
        rig,
        clients: BTreeMap::new(),
        closed_workers: vec![],
        small: (0..nw as u64).filter(|w| *w as usize + nsmall >= nw).collect(),
        ids: BTreeMap::new(),
        reqs: vec![],
        hub_gone: false,
        hub_gone_at: None,
        stop_seen: false,
        timing_bad: false,
        r,
        load_seq: 0,
        hold: None,
        hold_path: None,
        fake_hold: false,
        deny,
        crash_expected: false,
        op_names: ops.iter().map(|o| o.split_whitespace().next().unwrap_or("").to_string()).collect(),
    };
    for (i, op) in ops.iter().enumerate().skip(1) {
        let line = run.run_op(i, op);
        run.r.out.push(line);
    }
    if run.hold.is_some() {
        let _ = run.do_release(ops.len());
    }
    let bad = run.timing_bad;
    if !bad {
        oracles(&mut run, ops.len());
    }
    bad
}

/// The property's own oracles, from what the script did and what the clients saw.
fn oracles(run: &mut Run, nops: usize) {
    if run.deny {
        for (w, peer) in run.rig.workers.iter_mut().enumerate() {
            if let Some(p) = peer.as_mut() {
                p.drain();
                if p.take::<WorkerRequest>().is_some() {
                    run.r.oracle.push(("unauthorized-request-scattered".into(), format!("worker {w} was sent a request of a client outside command_allowed_uids")));
                }
            }
        }
    }
    let overlap = run.reqs.len() >= 2
        && run.reqs.windows(2).any(|w| w[0].finals.first().map(|f| f.1 > w[1].at).unwrap_or(true));
    if overlap {
        run.r.nontrivial = true;
        run.r.tags.push("overlapping-requests".into());
    }
    let stop_at = run.reqs.iter().filter(|q| q.verb.is_stop()).filter_map(|q| q.finals.first().map(|f| f.1)).min();
    for (qi, q) in run.reqs.iter().enumerate() {
        if q.dropped {
            continue;
        }
        let nfinals = q.finals.len();
        // per-worker view of what was sent for this request before its first final answer
        let fin_at = q.finals.first().map(|f| f.1).unwrap_or(usize::MAX);
        let before: Vec<_> = q.answers.iter().filter(|a| a.4 <= fin_at).collect();
        let acked = |w: u64| (0..q.verb.subs() as u64).all(|s| {
            let sub = match q.verb { VerbK::Load(_) => s + 1, VerbK::Reload(_) => s, _ => 0 };
            before.iter().any(|a| a.1 == w && a.0 == w && a.2 == sub && a.3)
        });
        // a Failure counts when it is the FIRST terminal answer given for an id
        // (whether a later contradicting answer for the same id is counted or
        // dropped is not something the property decides)
        let failed = before
            .iter()
            .enumerate()
            .any(|(i, a)| !a.3 && !before[..i].iter().any(|b| b.1 == a.1 && b.2 == a.2));
        let all_acked = q.targeted.iter().all(|w| acked(*w));
        let dup = before.iter().enumerate().any(|(i, a)| before[..i].iter().any(|b| b.1 == a.1 && b.2 == a.2))
            || before.iter().any(|a| a.0 != a.1);
        if !all_acked || failed || dup {
            run.r.nontrivial = true;
        }
        // A worker answering under ANOTHER worker's id is not one of the
        // behaviours the property quantifies over (the main process does not
        // check the sender of an id): such requests are compared with the
        // model only, the verdict oracles do not apply to them.
        let impersonated = before.iter().any(|a| a.0 != a.1);
        if impersonated {
            run.r.tags.push("answer-under-another-workers-id".into());
        }
        // ---- exactly one final answer ----
        if nfinals == 0 {
            let expired = q.age > T_UNITS;
            let class = if q.pipelined_first {
                Some("pipelined-request-dropped")
            } else if q.verb.no_answer() {
                Some("no-answer-verb")
            } else if run.crash_expected && q.eof_at.is_some() {
                None // the main process was killed by another client's request
            } else if q.eof_at.is_some() && (stop_at.is_some() || run.stop_seen) {
                if q.verb.is_stop() { Some("stop-without-answer") } else { Some("pending-request-dropped-at-stop") }
            } else if q.verb.gathers() && !q.verb.has_deadline() {
                if all_acked { Some("no-final-answer") } else { Some("no-deadline-request-hangs") }
            } else if q.verb.has_deadline() && !expired && !all_acked {
                None // the case ended before the deadline
            } else {
                Some("no-final-answer")
            };
            if let Some(c) = class {
                run.r.oracle.push((c.into(), format!("request {qi} ({:?}, client {}) got no final answer by the end of the case ({} ops, age {} units)", q.verb, q.client, nops, q.age)));
            }
        }
        // (a second final answer is reported where it is received)
        // ---- verdict ----
        if run.deny {
            if let Some((code, _)) = q.finals.first().copied() {
                if code != 'F' {
                    run.r.oracle.push(("unauthorized-client-not-refused".into(), format!("request {qi} ({:?}) from a uid outside command_allowed_uids was answered {code}", q.verb)));
                }
            }
            continue;
        }
        if let Some((code, at)) = q.finals.first().copied() {
            if code == 'O' && q.verb.gathers() && !impersonated {
                if failed && q.verb.is_mutating() {
                    run.r.oracle.push(("ok-despite-worker-failure".into(), format!("request {qi} ({:?}): Ok at op {at} although a worker answered Failure before", q.verb)));
                } else if !all_acked || failed {
                    let missing: Vec<u64> = q.targeted.iter().copied().filter(|w| !acked(*w)).collect();
                    let class = if q.verb == VerbK::MetricDetail {
                        "metricdetail-ok-without-all-workers"
                    } else if !q.verb.is_mutating() {
                        if q.verb.is_stop() { "stop-ok-without-all-workers" } else { "query-ok-without-all-workers" }
                    } else if missing.iter().any(|w| q.unsendable.contains(w)) {
                        "ok-despite-unsendable-worker"
                    } else if dup {
                        "ok-by-duplicate-answer"
                    } else if missing.iter().any(|w| q.closed_while_pending.contains(w)) {
                        "ok-despite-closed-worker"
                    } else {
                        "ok-despite-silent-worker"
                    };
                    run.r.oracle.push((class.into(), format!("request {qi} ({:?}): Ok at op {at}; workers alive at dispatch {:?}, not acknowledged by {:?}, failure reported: {failed}", q.verb, q.targeted, missing)));
                }
            }
            if code == 'F' && q.verb.gathers() && all_acked && !failed && !dup {
                run.r.oracle.push(("failure-despite-all-ok".into(), format!("request {qi} ({:?}): Failure at op {at} although every targeted worker acknowledged", q.verb)));
            }
            if code == 'O' && matches!(q.verb, VerbK::Bad | VerbK::LoadMissing | VerbK::LoadCorrupt(_) | VerbK::MetricDetailBad) {
                run.r.oracle.push(("ok-for-rejected-request".into(), format!("request {qi} ({:?})", q.verb)));
            }
            // ---- the answer arrived at an op that concerns this request ----
            let cause_ok = at == q.at
                || q.touched_at.contains(&at)
                || run.r.out.get(at).is_some() && {
                    // time advance / release of a batch / hub shutdown
                    let op = run.op_names.get(at).map(|s| s.as_str()).unwrap_or("");
                    op == "adv" || op == "release"
                };
            if !cause_ok {
                run.r.oracle.push(("cross-talk-completion".into(), format!("request {qi} ({:?}, client {}) was completed at op {at}, which neither answers it nor advances time", q.verb, q.client)));
            }
        }
    }
}

fn s(v: &[&str]) -> Vec<String> {
    v.iter().map(|x| x.to_string()).collect()
}

/// fixed witnesses / regression cases (run first). The witnesses of the four
/// repaired defects (F17 silent worker, F17b closed worker, F35 duplicate
/// answer, F21 unanswered requests) stay here: on the repaired code they end
/// as failures / are answered, and their oracle classes would fire again if a
/// repair were reverted.
fn corpus_cases() -> Vec<Vec<String>> {
    vec![
        // all good
        s(&["new 2 10", "req 0 add", "ans 0 0 0 0 ok", "ans 1 1 0 0 ok", "req 1 list"]),
        // F17 (repaired): a silent worker, the deadline passes
        s(&["new 2 10", "req 0 add", "ans 0 0 0 0 ok", "adv 12"]),
        // F17b (repaired): a worker closes its channel
        s(&["new 2 10", "req 0 add", "ans 0 0 0 0 ok", "close 1", "adv 12"]),
        // F35 (repaired): a duplicate answer must not finish the task early
        s(&["new 2 10", "req 0 add", "ans 0 0 0 0 ok", "ans 0 0 0 0 ok", "adv 12"]),
        // F21 (repaired): requests the main process does not implement are answered
        s(&["new 1 10", "req 0 none", "req 1 launch", "req 2 retsock", "adv 12"]),
        // failure is reported; late answer is dropped
        s(&["new 2 10", "req 0 add", "ans 1 1 0 0 fail", "ans 0 0 0 0 proc", "ans 0 0 0 0 ok", "ans 0 0 0 0 ok"]),
        // query verbs are Ok whatever the workers say
        s(&["new 2 10", "req 0 status", "ans 0 0 0 0 fail", "ans 1 1 0 0 ok", "req 1 query", "adv 12"]),
        // two overlapping requests, answers interleaved
        s(&["new 2 10", "req 0 add", "req 1 add", "ans 0 0 1 0 ok", "ans 1 1 0 0 ok", "ans 0 0 0 0 ok", "ans 1 1 1 0 fail"]),
        // load state: no deadline
        s(&["new 2 10", "req 0 load 2", "ans 0 0 0 1 ok", "ans 0 0 0 2 ok", "ans 1 1 0 1 ok", "adv 12", "ans 1 1 0 2 ok"]),
        // hard stop while another request is pending
        s(&["new 2 10", "req 0 add", "req 1 hardstop", "ans 0 0 1 0 ok", "ans 1 1 1 0 ok", "req 2 list"]),
        // regression: hard stop with a silent worker gets exactly one (failure) answer
        s(&["new 2 10", "req 0 hardstop", "ans 0 0 0 0 ok", "adv 12"]),
        // regression: answer under another worker's id, then that worker's own failure
        s(&["new 2 10", "req 0 add", "ans 0 1 0 0 ok", "ans 1 1 0 0 fail", "ans 0 0 0 0 ok", "adv 12"]),
        // regression: load state acknowledged twice by one worker, never by the other
        s(&["new 2 10", "req 0 load 1", "ans 0 0 0 1 ok", "ans 0 0 0 1 ok", "adv 12"]),
        // a worker that is alive but cannot be sent the request (its channel refuses
        // the frame) stays expected: failure at the deadline; it is closed meanwhile
        s(&["new 2 10 1", "req 0 addbig", "ans 0 0 0 0 ok", "req 1 add", "ans 0 0 1 0 ok", "adv 12"]),
        s(&["new 3 10 2", "req 0 add", "req 1 addbig", "ans 0 0 1 0 ok", "ans 0 0 0 0 ok", "ans 1 1 0 0 ok", "ans 2 2 0 0 ok", "adv 12"]),
        // the client hangs up while its request is pending: the verdict goes nowhere, nobody else gets it
        s(&["new 2 10", "req 0 add", "req 1 add", "drop 0", "ans 0 0 0 0 ok", "ans 1 1 0 0 ok", "ans 0 0 1 0 ok", "ans 1 1 1 0 ok"]),
        // two requests in one write: only the last one is dispatched (open: pipelined-request-dropped)
        s(&["new 1 10", "req2 0 list | add", "ans 0 0 0 0 ok"]),
        // LoadState of a corrupt file: entries read so far are scattered, the client is told the failure, the task id is spent
        s(&["new 1 10", "req 0 loadcorrupt 2", "req 1 add", "ans 0 0 1 0 ok", "adv 12"]),
        // … and an answer to one of the ids left in flight by the cancelled task is dropped
        s(&["new 1 10", "req 0 loadcorrupt 2", "ans 0 0 0 1 ok", "ans 0 0 0 2 fail", "req 1 list", "adv 12"]),
        // ReloadConfiguration: 5 messages, one refused by the worker; no deadline
        s(&["new 1 10", "req 0 reload 5", "ans 0 0 0 0 ok", "ans 0 0 0 1 fail", "ans 0 0 0 2 ok", "ans 0 0 0 3 ok", "adv 12", "ans 0 0 0 4 ok"]),
        // F1492 (repaired): ReloadConfiguration of an unloadable path used to kill the main process; now one
        // Failure, the spent task id shifts the next ids, the other client's request completes
        s(&["new 1 10", "req 0 add", "req 1 reloadbad", "req 2 list", "req 3 add", "ans 0 0 0 0 ok", "ans 0 0 2 0 ok"]),
        // SetMetricDetail: Ok "completed with worker errors" (open: metricdetail-ok-without-all-workers); refused when invalid
        s(&["new 2 10", "req 0 metricdetail", "ans 0 0 0 0 fail", "ans 1 1 0 0 ok", "req 1 metricdetailbad", "req 2 maxconn", "ans 0 0 1 0 ok", "ans 1 1 1 0 fail"]),
        // a uid outside command_allowed_uids: everything is refused, nothing scattered, stop verbs do not stop
        s(&["new 2 10 0 deny", "req 0 add", "req 1 hardstop", "req 2 none", "req 3 reloadbad", "req 4 list"]),
        // one poll batch: Ok from worker 0 and Failure from worker 1 together
        s(&["new 2 10", "req 0 add", "hold", "ans 0 0 0 0 ok", "ans 0 0 0 0 ok", "ans 1 1 0 0 fail", "release"]),
    ]
}

fn gen_case(rng: &mut Rng, thorough: bool) -> Vec<String> {
    let _ = thorough;
    let nw = *rng.pick(&[1u64, 2, 2, 2, 3, 3, 0]);
    // now and then the last worker(s) have a channel that refuses big requests
    let nsmall = if nw >= 1 && rng.chance(1, 5) { rng.range(1, nw.min(2)) } else { 0 };
    let mut ops = vec![if nsmall > 0 { format!("new {nw} {T_UNITS} {nsmall}") } else { format!("new {nw} {T_UNITS}") }];
    let small: Vec<u64> = (0..nw).filter(|w| w + nsmall >= nw).collect();
    let mut closed: Vec<u64> = vec![];
    if nw >= 2 && rng.chance(1, 10) {
        let w = rng.below(nw);
        ops.push(format!("close {w}"));
        closed.push(w);
    }
    // a client whose uid is not in command_allowed_uids: every request is refused
    if rng.chance(1, 16) {
        let mut ops = vec![format!("new {nw} {T_UNITS} 0 deny")];
        for c in 0..rng.range(2, 5) {
            let v = *rng.pick(&["add", "addbig", "query", "status", "list", "hardstop", "softstop", "load 1", "reload 5", "reloadbad", "none", "launch", "metricdetail", "count", "bad"]);
            ops.push(format!("req {c} {v}"));
        }
        return ops;
    }
    let nreq = *rng.pick(&[1u64, 1, 2, 2, 3]);
    // pending events of each request: per worker a queue of (answer ops)
    struct Pending {
        client: u64,
        dropped: bool,
        task: u64,
        queues: Vec<Vec<String>>,
        late: Vec<String>,
        age: u64,
        deadline: bool,
    }
    let mut pend: Vec<Pending> = vec![];
    let mut next_task = 0u64;
    let mut stopped = false;
    let mut issued = 0u64;
    let mut steps = 0;
    let mut holding = false;
    let mut hold_left = 0;
    while steps < 40 {
        steps += 1;
        let have_events = pend.iter().any(|p| p.queues.iter().any(|q| !q.is_empty()));
        let can_issue = issued < nreq && !stopped && !holding;
        if !have_events && !can_issue {
            break;
        }
        if can_issue && (!have_events || rng.chance(2, 5)) {
            let c = issued;
            issued += 1;
            let verb = match rng.below(100) {
                0..=44 if nsmall > 0 && rng.chance(1, 2) => "addbig".to_string(),
                0..=36 => "add".to_string(),
                37..=39 => (*rng.pick(&["maxconn", "confmetrics"])).to_string(),
                40..=42 => "metricdetail".into(),
                43 => "metricdetailbad".into(),
                44 => "reloadbad".into(),
                45..=49 => "query".into(),
                50..=52 => (*rng.pick(&["querybyid", "querydomain", "querycerts"])).to_string(),
                53..=60 => "status".into(),
                61..=64 => "metrics".into(),
                65..=69 => format!("load {}", rng.range(1, 2)),
                70..=71 => format!("loadcorrupt {}", rng.below(3)),
                72..=73 => "loadmissing".into(),
                74 => "reload 5".into(),
                75..=78 => "bad".into(),
                79..=81 => "list".into(),
                82..=83 => (*rng.pick(&["count", "hc", "certs"])).to_string(),
                84..=86 => (*rng.pick(&["none", "launch", "retsock"])).to_string(),
                87..=93 => "hardstop".into(),
                _ => "softstop".into(),
            };
            let vk = VerbK::parse(&verb.split_whitespace().collect::<Vec<_>>()).unwrap();
            // now and then the client writes another request just before, in the same write
            if !vk.is_stop() && vk != VerbK::ReloadBad && vk != VerbK::AddBig && rng.chance(1, 14) {
                ops.push(format!("req2 {c} {} | {verb}", *rng.pick(&["list", "count", "bad"])));
            } else {
                ops.push(format!("req {c} {verb}"));
            }
            if vk.is_stop() {
                stopped = true;
            }
            if vk == VerbK::AddBig {
                // the small workers alive now cannot be sent the request: they
                // never answer it, and the main process closes their session
                for w in small.iter().copied().filter(|w| !closed.contains(w)).collect::<Vec<_>>() {
                    closed.push(w);
                    for p in pend.iter_mut() {
                        for q in p.queues.iter_mut() {
                            q.retain(|e| !e.starts_with(&format!("ans {w} ")) && *e != format!("close {w}"));
                        }
                        p.late.retain(|e| !e.starts_with(&format!("ans {w} ")));
                    }
                }
            }
            if matches!(vk, VerbK::LoadCorrupt(_) | VerbK::ReloadBad) {
                next_task += 1; // the cancelled task spent an id
            }
            if vk.gathers() {
                let task = next_task;
                next_task += 1;
                let mut queues = vec![];
                let mut late = vec![];
                for w in (0..nw).filter(|w| !closed.contains(w)) {
                    let mut q = vec![];
                    for sidx in 0..vk.subs() as u64 {
                        let sub = match vk { VerbK::Load(_) => sidx + 1, VerbK::Reload(_) => sidx, _ => 0 };
                        let a = |st: &str| format!("ans {w} {w} {task} {sub} {st}");
                        match rng.below(100) {
                            0..=44 => q.push(a("ok")),
                            45..=56 => q.push(a("fail")),
                            57..=68 => {} // silent
                            69..=74 => q.push(format!("close {w}")),
                            75..=81 => { q.push(a("ok")); q.push(a("ok")); }
                            82..=86 => late.push(a(if rng.chance(1, 2) { "ok" } else { "fail" })),
                            87..=92 => { q.push(a("proc")); q.push(a("ok")); }
                            93..=95 => { q.push(a("ok")); q.push(a("fail")); }
                            96..=97 => {
                                // answers under another worker's id
                                let other = (w + 1) % nw.max(1);
                                q.push(format!("ans {w} {other} {task} {sub} ok"));
                            }
                            _ => q.push(format!("ans {w} {w} {} {sub} ok", task + 7)), // unknown id
                        }
                    }
                    queues.push(q);
                }
                pend.push(Pending { client: c, dropped: false, task, queues, late, age: 0, deadline: vk.has_deadline() });
            }
            continue;
        }
        // deliver one pending event of a random (request, worker) queue
        let mut choices = vec![];
        for (pi, p) in pend.iter().enumerate() {
            for (qi, q) in p.queues.iter().enumerate() {
                // inside one poll batch the order between different workers'
                // sockets is the kernel's: only events that commute go there
                // (no close; no answer under another worker's id, which races
                // with that worker's own answer once answered ids are retired)
                let commutes = |e: &String| {
                    let w: Vec<&str> = e.split_whitespace().collect();
                    w[0] == "ans" && w[1] == w[2]
                };
                if !q.is_empty() && !(holding && !commutes(&q[0])) {
                    choices.push((pi, qi));
                }
            }
        }
        if holding && (choices.is_empty() || hold_left == 0) {
            ops.push("release".into());
            holding = false;
            continue;
        }
        if choices.is_empty() {
            break;
        }
        if !holding && choices.len() >= 2 && rng.chance(1, 6) {
            ops.push("hold".into());
            holding = true;
            hold_left = rng.range(2, 4);
            continue;
        }
        let (pi, qi) = *rng.pick(&choices);
        // now and then the client hangs up while its request is pending
        if !holding && !pend[pi].dropped && rng.chance(1, 20) {
            pend[pi].dropped = true;
            ops.push(format!("drop {}", pend[pi].client));
        }
        let ev = pend[pi].queues[qi].remove(0);
        if let Some(rest) = ev.strip_prefix("close ") {
            let w: u64 = rest.parse().unwrap();
            if closed.contains(&w) {
                continue;
            }
            closed.push(w);
            // a closed worker sends nothing more
            for p in pend.iter_mut() {
                for q in p.queues.iter_mut() {
                    q.retain(|e| !e.starts_with(&format!("ans {w} ")) && *e != format!("close {w}"));
                }
                p.late.retain(|e| !e.starts_with(&format!("ans {w} ")));
            }
        }
        ops.push(ev);
        if holding {
            hold_left -= 1;
        }
        // a short pause now and then, never into the grey zone before the deadline
        if !holding && rng.chance(1, 8) {
            let n = rng.range(1, 3);
            // (at most half of the timeout is slept before the deadline jump: the
            // other half is slack for the real time the other steps take under load)
            if pend.iter().all(|p| !p.deadline || p.age + n <= T_UNITS - 5) {
                ops.push(format!("adv {n}"));
                for p in pend.iter_mut() {
                    p.age += n;
                }
            }
        }
    }
    if holding {
        ops.push("release".into());
    }
    // let every deadline pass, then the late answers arrive
    ops.push(format!("adv {}", T_UNITS + 2));
    let mut any_late = false;
    for p in pend.iter() {
        for e in p.late.iter() {
            let w: u64 = e.split_whitespace().nth(1).unwrap().parse().unwrap();
            if !closed.contains(&w) {
                ops.push(e.clone());
                any_late = true;
            }
        }
        let _ = p.task;
    }
    if any_late && rng.chance(1, 2) {
        ops.push("tick".into());
    }
    ops
}

fn main() {
    std::panic::set_hook(Box::new(|_| {}));
    let args = parse_args();
    let mut dummy = spawn_dummy();
    let code = match std::panic::catch_unwind(std::panic::AssertUnwindSafe(|| real_main(&args))) {
        Ok(c) => inconclusive_rule(&args, c),
        Err(e) => {
            // never leave the check without a result file
            let res = serde_json::json!({"area": "hub", "property": args.prop, "evaluations": 0,
                "failures": [{"kind": "oracle", "class": "harness-inconclusive", "detail": format!("the harness runner panicked: {}", panic_text(&*e)), "case": -1, "ops": [], "impl_out": [], "model_out": []}]});
            if !args.out.is_empty() {
                let _ = std::fs::write(&args.out, serde_json::to_string_pretty(&res).unwrap());
            }
            1
        }
    };
    if let Some(d) = dummy.as_mut() {
        let _ = d.kill();
        let _ = d.wait();
    }
    std::process::exit(code);
}

/// inconclusive cases (set-up failures, unreliable timing) are not failures by
/// themselves; above 5 % of the cases the run says so with its own class
fn inconclusive_rule(args: &Args, code: i32) -> i32 {
    if args.out.is_empty() || args.replay.is_some() {
        return code;
    }
    let Ok(txt) = std::fs::read_to_string(&args.out) else { return code };
    let Ok(mut res) = serde_json::from_str::<serde_json::Value>(&txt) else { return code };
    let n = res["evaluations"].as_u64().unwrap_or(0);
    let inc = res["distribution"]["inconclusive"].as_u64().unwrap_or(0);
    if n > 0 && inc * 20 > n {
        let f = serde_json::json!({"kind": "oracle", "class": "harness-inconclusive", "detail": format!("{inc} of {n} cases were inconclusive (set-up failures / unreliable timing): the machine is too loaded for this run to mean anything"), "case": -1, "ops": [], "impl_out": [], "model_out": []});
        if let Some(a) = res["failures"].as_array_mut() {
            a.push(f);
        }
        let _ = std::fs::write(&args.out, serde_json::to_string_pretty(&res).unwrap());
        println!("FAIL oracle harness-inconclusive {inc} of {n} cases");
        return 1;
    }
    code
}

fn real_main(args: &Args) -> i32 {
    if args.extra.contains_key("probe") {
        probe();
        return 0;
    }
    if let Some(path) = args.extra.get("trace") {
        // debugging aid: one case, implementation and model side by side
        quiet_logs();
        let ops = read_replay_ops(path);
        let run = Hubs.run_impl(&ops);
        let model = if args.driver.is_empty() { vec![] } else { run_model(&args.driver, &(ops.join("\n") + "\n")) };
        for (i, op) in ops.iter().enumerate() {
            println!("{:<28} impl {:<24} model {}", op, run.out.get(i).cloned().unwrap_or_default(), model.get(i).cloned().unwrap_or_default());
        }
        for (c, d) in &run.oracle {
            println!("ORACLE {c}: {d}");
        }
        return 0;
    }
    run_area(&Hubs, args)
}
