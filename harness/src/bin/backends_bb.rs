//! C12 (black-box half): a real sozu worker (rig) with an HTTP listener, one
//! cluster and up to four scripted HTTP/1.1 backends + two addresses that
//! refuse connections. What is under test is the glue the in-process run
//! (`backends`) never reaches: `protocol/mux/router.rs` (asking `BackendMap`
//! for a backend, sticky cookie, retries), the `inc`/`dec` of
//! `active_connections` on connect / close (`try_connect`,
//! `pre_close_client_bookkeeping`), `retry_policy.fail()/succeed()` on connect
//! failure / success, `server.rs` AddBackend / RemoveBackend (address-keyed
//! removal), AddCluster (policy changes) and `health_check.rs` (real probes,
//! `record_check_result`).
//!
//! The op lines are the ones of `backends_driver` plus its composite ops
//! (`req`, `drop`, `wait`): the driver expands one proxied request into model
//! ops (select / inc / succeed|fail / dec, up to CONN_RETRIES attempts). The
//! observation compared with the model is **which address served the request**
//! (or 503). `active_connections` is observed through the least-loaded policy:
//! a count that is off by one changes which backend is chosen next.
//! Model-independent oracles (from the property text): no request reaches an
//! address that is not (or no longer) registered, whose health probes fail
//! while a healthy one is registered, or a backup while a primary is
//! eligible; a cookie naming an eligible backend is honoured; at quiescence
//! the least-loaded choice is the first registered backend (all counts 0).
//!
//! Real time: back-off waits are 1 s (first two failures; a third one makes the
//! rest of the case `nondet` on the model side), `wait` sleeps 1.3 s; a case in
//! which more than 700 ms passed between two `wait`s while a refusing address
//! is registered is abandoned as inconclusive (never judged). Health results
//! are awaited on the scripted backend's own probe counters, never by sleeping
//! blindly.
use std::collections::HashSet;
use std::net::SocketAddr;
use std::sync::atomic::{AtomicBool, AtomicI64, AtomicU64, Ordering};
use std::sync::Arc;
use std::thread;
use std::time::{Duration, Instant};

use sozu_command_lib::proto::command::{
    request::RequestType, AddBackend, HealthCheckConfig, LoadBalancingAlgorithms, LoadBalancingParams, LoadMetric,
    RemoveBackend,
};
use verif_harness::rig::*;
use verif_harness::*;

const T: Duration = Duration::from_secs(4);
const NMOCK: u64 = 4; // addresses 0..4 are scripted backends, 4..6 refuse connections

// ------------------------------------------------------------ scripted backend

struct Mock {
    addr: SocketAddr,
    sick: Arc<AtomicBool>,
    probes_ok: Arc<AtomicU64>,
    probes_bad: Arc<AtomicU64>,
    open: Arc<AtomicI64>,
    stop: Arc<AtomicBool>,
}

impl Mock {
    fn start(no: u64) -> RigResult<Mock> {
        let be = MockBackend::listen()?;
        let m = Mock {
            addr: be.addr,
            sick: Arc::new(AtomicBool::new(false)),
            probes_ok: Arc::new(AtomicU64::new(0)),
            probes_bad: Arc::new(AtomicU64::new(0)),
            open: Arc::new(AtomicI64::new(0)),
            stop: Arc::new(AtomicBool::new(false)),
        };
        let (sick, pok, pbad, open, stop) = (m.sick.clone(), m.probes_ok.clone(), m.probes_bad.clone(), m.open.clone(), m.stop.clone());
        thread::spawn(move || {
            while !stop.load(Ordering::SeqCst) {
                let Ok(mut conn) = be.accept(Duration::from_millis(50)) else { continue };
                let (sick, pok, pbad, open, stop) = (sick.clone(), pok.clone(), pbad.clone(), open.clone(), stop.clone());
                thread::spawn(move || {
                    let mut pos = 0usize;
                    let mut counted = false;
                    loop {
                        // one request head
                        let end = loop {
                            if let Some(i) = find(&conn.received[pos..], b"\r\n\r\n") {
                                break Some(pos + i + 4);
                            }
                            if stop.load(Ordering::SeqCst) {
                                break None;
                            }
                            match conn.read_some(Duration::from_millis(200)) {
                                ReadEnd::Done | ReadEnd::Timeout => {}
                                ReadEnd::Closed | ReadEnd::Reset => break None,
                            }
                        };
                        let Some(end) = end else { break };
                        let head = String::from_utf8_lossy(&conn.received[pos..end]).to_string();
                        pos = end;
                        let probe = head.starts_with("GET /hc ") || head.starts_with("HEAD /hc ");
                        if probe {
                            let bad = sick.load(Ordering::SeqCst);
                            let r: &[u8] = if bad {
                                b"HTTP/1.1 500 Internal Server Error\r\nContent-Length: 0\r\nConnection: close\r\n\r\n"
                            } else {
                                b"HTTP/1.1 200 OK\r\nContent-Length: 0\r\nConnection: close\r\n\r\n"
                            };
                            let _ = conn.write_all(r, T);
                            if bad { pbad.fetch_add(1, Ordering::SeqCst) } else { pok.fetch_add(1, Ordering::SeqCst) };
                            break;
                        }
                        if !counted {
                            counted = true;
                            open.fetch_add(1, Ordering::SeqCst);
                        }
                        let body = format!("m{no}");
                        let r = format!("HTTP/1.1 200 OK\r\nContent-Length: {}\r\n\r\n{}", body.len(), body);
                        if conn.write_all(r.as_bytes(), T).is_err() {
                            break;
                        }
                        if head.to_ascii_lowercase().contains("x-mock-close") {
                            // the backend ends the connection on its own after a complete response
                            thread::sleep(Duration::from_millis(30));
                            break;
                        }
                    }
                    if counted {
                        open.fetch_sub(1, Ordering::SeqCst);
                    }
                });
            }
        });
        Ok(m)
    }
}

impl Drop for Mock {
    fn drop(&mut self) {
        self.stop.store(true, Ordering::SeqCst);
    }
}

// ------------------------------------------------------------------- one case

#[derive(Clone, Debug)]
struct Reg {
    id: u64,
    addr: u64,
    sticky: Option<u64>,
    backup: bool,
}

struct Case {
    w: Worker,
    front: SocketAddr,
    mocks: Vec<Mock>,
    dead: Vec<Reservation>,
    reg: Vec<Reg>,
    removed: HashSet<u64>,
    held: Vec<(RawConn, u64)>,
    /// client connections whose backend side was closed by the backend
    parked: Vec<RawConn>,
    policy: String,
    hc: bool,
    tcp: bool,
    /// probes with a failing answer seen when the address was last declared sick (confirmed sick)
    confirmed_sick: HashSet<u64>,
    epoch: Instant,
    inconclusive: bool,
    oracle: Vec<(String, String)>,
    tags: Vec<String>,
}

fn cluster_cfg(policy: &str, metric: &str, hc: bool) -> sozu_command_lib::proto::command::Cluster {
    let mut c = cluster("c0");
    c.sticky_session = true;
    c.load_balancing = match policy {
        "rr" => LoadBalancingAlgorithms::RoundRobin,
        "ll" => LoadBalancingAlgorithms::LeastLoaded,
        "p2" => LoadBalancingAlgorithms::PowerOfTwo,
        _ => LoadBalancingAlgorithms::Random,
    } as i32;
    c.load_metric = match metric {
        "conn" => Some(LoadMetric::Connections as i32),
        "req" => Some(LoadMetric::Requests as i32),
        _ => None,
    };
    if hc {
        c.health_check = Some(HealthCheckConfig {
            uri: "/hc".into(),
            interval: 1,
            timeout: 2,
            healthy_threshold: 1,
            unhealthy_threshold: 1,
            expected_status: 0,
        });
    }
    c
}

impl Case {
    fn start(hc: bool, tcp: bool) -> RigResult<Case> {
        let mut w = Worker::start(WorkerOpts { front_timeout: Some(30), back_timeout: Some(30), connect_timeout: Some(3), ..Default::default() })?;
        // the same scenarios run behind a TCP listener (tcp.rs has its own connect / close glue)
        let front = if tcp { w.add_tcp_listener()? } else { w.add_http_listener()? };
        w.add_cluster(cluster_cfg("rnd", "-", hc))?;
        if tcp {
            w.add_tcp_frontend(front, "c0")?;
        } else {
            w.add_http_frontend(front, "localhost", "/", "c0")?;
        }
        let mut mocks = vec![];
        for i in 0..NMOCK {
            mocks.push(Mock::start(i)?);
        }
        let dead = vec![dead_addr()?, dead_addr()?];
        Ok(Case {
            w,
            front,
            mocks,
            dead,
            reg: vec![],
            removed: HashSet::new(),
            held: vec![],
            parked: vec![],
            policy: "rnd".into(),
            hc,
            tcp,
            confirmed_sick: HashSet::new(),
            epoch: Instant::now(),
            inconclusive: false,
            oracle: vec![],
            tags: vec![],
        })
    }

    fn sockaddr(&self, a: u64) -> Option<SocketAddr> {
        if a < NMOCK {
            Some(self.mocks[a as usize].addr)
        } else {
            self.dead.get((a - NMOCK) as usize).map(|r| r.addr)
        }
    }

    fn live_ok(&self, a: u64) -> bool {
        a < NMOCK && !self.mocks[a as usize].sick.load(Ordering::SeqCst)
    }

    fn total_open(&self) -> i64 {
        self.mocks.iter().map(|m| m.open.load(Ordering::SeqCst)).sum()
    }

    /// one proxied request; returns the serving address, or Err(status) (0 = no answer)
    fn request(&mut self, cookie: Option<u64>, mode: &str) -> Result<u64, u16> {
        let hold = mode == "hold";
        let before = self.total_open();
        let mut c = match RawConn::connect(self.front) {
            Ok(c) => c,
            Err(_) => {
                self.inconclusive = true;
                return Err(0);
            }
        };
        let ck = cookie.map(|s| format!("Cookie: SOZUBALANCEID=s{s}\r\n")).unwrap_or_default();
        let bc = if mode == "bclose" { "X-Mock-Close: 1\r\n" } else { "" };
        let req = format!("GET / HTTP/1.1\r\nHost: localhost\r\n{ck}{bc}\r\n");
        if c.write_all(req.as_bytes(), T).is_err() {
            return Err(0);
        }
        let msg = match read_http_message(&mut c, T) {
            Ok(m) => m,
            Err(_) => return Err(0),
        };
        let st = msg.status().unwrap_or(0);
        if st != 200 {
            c.close();
            return Err(st);
        }
        let a: u64 = String::from_utf8_lossy(&msg.body).trim_start_matches('m').parse().unwrap_or(99);
        if hold {
            self.held.push((c, a));
        } else if mode == "bclose" {
            // the client stays connected; the backend closes: the count must be released all the same
            self.parked.push(c);
            if !poll_until(T, || self.total_open() <= before) {
                self.tags.push("inconclusive:backend-close-not-observed".into());
                self.inconclusive = true;
            }
            thread::sleep(Duration::from_millis(60));
            self.tags.push("backend-initiated-close".into());
        } else {
            c.close();
            // sozu releases the backend connection (dec_connections, then the socket): wait until
            // the scripted backend has seen it go
            if !poll_until(T, || self.total_open() <= before) {
                self.tags.push("inconclusive:backend-close-not-observed".into());
                self.inconclusive = true;
            }
        }
        Ok(a)
    }

    fn judge(&mut self, served: u64, cookie: Option<u64>) {
        let here: Vec<&Reg> = self.reg.iter().filter(|r| r.addr == served).collect();
        if here.is_empty() {
            let class = if self.removed.contains(&served) { "bb-removed-backend-served" } else { "bb-unregistered-backend-served" };
            self.oracle.push((class.into(), format!("address {served} served a request; registered: {:?}", self.reg)));
            return;
        }
        let elig = |r: &Reg, me: &Case| me.live_ok(r.addr);
        if self.confirmed_sick.contains(&served) && self.reg.iter().any(|r| elig(r, self)) {
            let class = if here.len() > 1 {
                "bb-health-failed-address-served-via-shared-address-variant"
            } else {
                "bb-health-failed-address-served"
            };
            self.oracle.push((class.into(), format!("address {served} fails its health probes and still served a request; registered: {:?}", self.reg)));
        }
        let sticky_hit = cookie.is_some() && here.iter().any(|r| r.sticky == cookie);
        if here.iter().all(|r| r.backup) && !sticky_hit && self.reg.iter().any(|r| !r.backup && elig(r, self)) {
            self.oracle.push(("bb-backup-served-while-primary-eligible".into(), format!("backup address {served} served; registered: {:?}", self.reg)));
        }
        if let Some(s) = cookie {
            let holders: Vec<u64> = self.reg.iter().filter(|r| r.sticky == Some(s) && elig(r, self)).map(|r| r.addr).collect();
            if !holders.is_empty() && !holders.contains(&served) {
                self.oracle.push(("bb-sticky-not-honoured".into(), format!("cookie s{s} names eligible address(es) {holders:?}, served by {served}")));
            }
        }
    }

    fn line(&mut self, op: &str) -> String {
        if self.inconclusive {
            return "inconclusive".into();
        }
        let w: Vec<&str> = op.split_whitespace().collect();
        let n = |i: usize| -> Option<u64> { w.get(i).and_then(|x| x.parse().ok()) };
        let setup = |r: RigResult<()>, me: &mut Case| {
            if r.is_err() {
                me.tags.push("inconclusive:worker-request-failed".into());
                me.inconclusive = true;
            }
        };
        match (w.first().copied().unwrap_or(""), w.len()) {
            ("pol", 4) => {
                self.policy = w[2].to_string();
                let r = self.w.add_cluster(cluster_cfg(w[2], w[3], self.hc));
                setup(r, self);
                self.tags.push(format!("pol:{}", w[2]));
                "-".into()
            }
            ("add", 7) => {
                let (Some(id), Some(a)) = (n(2), n(3)) else { return "bad-op".into() };
                let Some(sa) = self.sockaddr(a) else { return "bad-op".into() };
                let sticky = if w[4] == "-" { None } else { w[4].parse::<u64>().ok() };
                let weight = if w[5] == "-" { None } else { w[5].parse::<i32>().ok() };
                let backup = w[6] == "1";
                let r = self
                    .w
                    .request_ok(RequestType::AddBackend(AddBackend {
                        cluster_id: "c0".into(),
                        backend_id: format!("b{id}"),
                        address: sa.into(),
                        sticky_id: sticky.map(|s| format!("s{s}")),
                        load_balancing_parameters: weight.map(|weight| LoadBalancingParams { weight }),
                        backup: Some(backup),
                    }))
                    .map(|_| ());
                setup(r, self);
                if a < NMOCK && !self.reg.iter().any(|r| r.addr == a) {
                    // a fresh backend object starts healthy: let its probes succeed
                    self.mocks[a as usize].sick.store(false, Ordering::SeqCst);
                    self.confirmed_sick.remove(&a);
                }
                if let Some(x) = self.reg.iter_mut().find(|r| r.id == id && r.addr == a) {
                    x.sticky = sticky;
                    x.backup = backup;
                } else {
                    self.reg.push(Reg { id, addr: a, sticky, backup });
                }
                self.removed.remove(&a);
                if a >= NMOCK {
                    self.tags.push("refusing-address-registered".into());
                }
                "-".into()
            }
            ("rm", 3) => {
                let Some(a) = n(2) else { return "bad-op".into() };
                let Some(sa) = self.sockaddr(a) else { return "bad-op".into() };
                let id = self.reg.iter().find(|r| r.addr == a).map(|r| r.id).unwrap_or(0);
                let r = self
                    .w
                    .request_ok(RequestType::RemoveBackend(RemoveBackend { cluster_id: "c0".into(), backend_id: format!("b{id}"), address: sa.into() }))
                    .map(|_| ());
                setup(r, self);
                self.reg.retain(|r| r.addr != a);
                self.removed.insert(a);
                "-".into()
            }
            ("hc", 5) => {
                let (Some(a), Some(ok)) = (n(2), n(3)) else { return "bad-op".into() };
                if a >= NMOCK || !self.hc {
                    return "-".into();
                }
                let m = &self.mocks[a as usize];
                m.sick.store(ok == 0, Ordering::SeqCst);
                if self.reg.iter().any(|r| r.addr == a) {
                    // wait for the worker to have seen one answer of the new kind
                    let ctr = if ok == 0 { m.probes_bad.clone() } else { m.probes_ok.clone() };
                    let c0 = ctr.load(Ordering::SeqCst);
                    if !poll_until(Duration::from_secs(6), || ctr.load(Ordering::SeqCst) > c0) {
                        self.tags.push("inconclusive:no-health-probe-seen".into());
                        self.inconclusive = true;
                        return "inconclusive".into();
                    }
                    thread::sleep(Duration::from_millis(250));
                    self.epoch = Instant::now();
                }
                if ok == 0 {
                    self.confirmed_sick.insert(a);
                } else {
                    self.confirmed_sick.remove(&a);
                }
                self.tags.push("health-transition".into());
                "-".into()
            }
            ("wait", 1) => {
                thread::sleep(Duration::from_millis(1300));
                self.epoch = Instant::now();
                "-".into()
            }
            ("drop", 2) => {
                let Some(k) = n(1) else { return "bad-op".into() };
                if (k as usize) < self.held.len() {
                    let before = self.total_open();
                    let (c, _) = self.held.remove(k as usize);
                    c.close();
                    if !poll_until(T, || self.total_open() < before) {
                        self.tags.push("inconclusive:backend-close-not-observed".into());
                        self.inconclusive = true;
                    }
                }
                "-".into()
            }
            ("req", 4) => {
                let cookie = if w[2] == "-" { None } else { w[2].parse::<u64>().ok() };
                let res = self.request(cookie, w[3]);
                if self.inconclusive {
                    return "inconclusive".into();
                }
                // the deterministic back-off waits are one second: beyond ~0.7 s of real time the
                // model's "still inside the window" no longer describes the worker
                if self.reg.iter().any(|r| r.addr >= NMOCK) && self.epoch.elapsed() > Duration::from_millis(700) {
                    self.tags.push("inconclusive:slow-machine-backoff-window".into());
                    self.inconclusive = true;
                    return "inconclusive".into();
                }
                match res {
                    Ok(a) => {
                        self.judge(a, cookie);
                        self.tags.push("served".into());
                        format!("some @{a}")
                    }
                    Err(503) => {
                        self.tags.push("answer:503".into());
                        "none".into()
                    }
                    // a TCP listener has no 503: it closes the client connection
                    Err(0) if self.tcp => {
                        self.tags.push("answer:tcp-closed".into());
                        "none".into()
                    }
                    Err(s) => format!("err {s}"),
                }
            }
            _ => "bad-op".into(),
        }
    }

    /// traffic ends: every client connection is closed; with all counts at zero the
    /// least-loaded policy must pick the first registered eligible primary
    fn quiesce(&mut self) {
        if self.inconclusive {
            return;
        }
        while let Some((c, _)) = self.held.pop() {
            c.close();
        }
        while let Some(c) = self.parked.pop() {
            c.close();
        }
        if !poll_until(T, || self.total_open() == 0) {
            self.tags.push("inconclusive:backend-close-not-observed".into());
            return;
        }
        let prim: Vec<u64> = self.reg.iter().filter(|r| !r.backup && self.live_ok(r.addr)).map(|r| r.addr).collect();
        let refusing = self.reg.iter().any(|r| r.addr >= NMOCK);
        if self.policy == "ll" && prim.len() >= 2 && !refusing && self.confirmed_sick.is_empty() {
            if let Ok(a) = self.request(None, "close") {
                if a != prim[0] {
                    let class = if self.tcp { "bb-tcp-count-not-zero-at-quiescence" } else { "bb-count-not-zero-at-quiescence" };
                    self.oracle.push((class.into(), format!("all connections closed, least-loaded chose address {a}, first registered eligible primary is {}: a count did not return to 0", prim[0])));
                }
                self.tags.push("quiescence-probe".into());
            }
        }
    }
}

// ------------------------------------------------------------------ the area

struct Bb;

impl Area for Bb {
    fn name(&self) -> &'static str {
        "backends_bb"
    }
    fn rule(&self) -> String {
        "one real worker per case (HTTP listener, cluster c0 with sticky sessions, 4 scripted HTTP/1.1 backends + 2 refusing addresses, optional health check interval 1 s / thresholds 1): AddCluster policy changes (rr, ll on connections), AddBackend / RemoveBackend / re-add with sticky ids, backup flags, shared addresses, requests on fresh client connections with or without sticky cookie, kept open or closed, closing kept connections, refusing addresses (connect failure, back-off second, retry), health transitions awaited on the backend's probe counters; compared with the model: which address served each request (or 503); non-trivial = at least one request served while a backend was held, failing, removed or unhealthy".into()
    }
    fn cases(&self, thorough: bool) -> u64 {
        if thorough {
            600
        } else {
            90
        }
    }
    fn corpus(&self) -> Vec<Vec<String>> {
        let s = |v: &[&str]| v.iter().map(|x| x.to_string()).collect::<Vec<_>>();
        vec![
            // counts through least-loaded: two kept connections, a third goes to the idle one; closing rebalances
            s(&["new", "pol 0 ll conn", "add 0 0 0 - - 0", "add 0 1 1 - - 0", "add 0 2 2 - - 0", "req 0 - hold", "req 0 - hold", "req 0 - close", "req 0 - hold", "req 0 - close", "drop 0", "req 0 - close", "drop 0", "drop 0", "req 0 - close"]),
            // the backend closes its side after the response, the client stays: the count is released
            s(&["new", "pol 0 ll conn", "add 0 0 0 - - 0", "add 0 1 1 - - 0", "req 0 - bclose", "req 0 - bclose", "req 0 - hold", "req 0 - bclose", "req 0 - close"]),
            // the same behind a TCP listener
            s(&["new", "hc 0 8 1 1", "pol 0 ll conn", "add 0 0 0 - - 0", "add 0 1 1 - - 0", "req 0 - hold", "req 0 - hold", "req 0 - close", "drop 0", "req 0 - close", "rm 0 1", "req 0 - close", "rm 0 0", "req 0 - close"]),
            // TCP listener + refusing address: connect failure starts the back-off (least-loaded would otherwise
            // keep choosing the idle refusing backend), counts are released
            s(&["new", "hc 0 8 1 1", "pol 0 ll conn", "add 0 0 4 - - 0", "add 0 1 1 - - 0", "add 0 2 2 - - 0", "req 0 - hold", "req 0 - hold", "req 0 - close", "req 0 - close", "wait", "req 0 - close", "drop 0", "req 0 - close", "drop 0", "req 0 - close"]),
            // TCP listener, only refusing addresses: the client connection is closed after the retries
            s(&["new", "hc 0 8 1 1", "pol 0 rr -", "add 0 0 4 - - 0", "add 0 1 5 - - 0", "req 0 - close", "req 0 - close"]),
            // refusing address: failure, back-off second, retry on the next, used again after the second
            s(&["new", "pol 0 rr -", "add 0 0 4 - - 0", "add 0 1 1 - - 0", "req 0 - close", "req 0 - close", "req 0 - close", "wait", "req 0 - close", "req 0 - close"]),
            // only refusing addresses: 503 after the retries
            s(&["new", "pol 0 rr -", "add 0 0 4 - - 0", "add 0 1 5 - - 0", "req 0 - close", "req 0 - close"]),
            // removal by address (both variants at the address go), re-add
            s(&["new", "pol 0 rr -", "add 0 0 0 - - 0", "add 0 1 0 - - 0", "add 0 2 1 - - 0", "req 0 - close", "rm 0 0", "req 0 - close", "req 0 - close", "add 0 0 0 - - 0", "req 0 - close", "req 0 - close", "rm 0 1", "rm 0 0", "req 0 - close"]),
            // sticky cookie, backup only when no primary, connection kept on a removed backend
            s(&["new", "pol 0 rr -", "add 0 0 0 0 - 0", "add 0 1 1 1 - 1", "add 0 2 2 2 - 0", "req 0 1 close", "req 0 2 close", "req 0 - close", "req 0 - close", "req 0 0 hold", "rm 0 0", "req 0 0 close", "drop 0", "rm 0 2", "req 0 - close"]),
            // health: probes fail -> no traffic; recover; all unhealthy -> fail-open
            s(&["new", "pol 0 rr -", "add 0 0 0 - - 0", "add 0 1 1 - - 0", "hc 0 0 0 1", "req 0 - close", "req 0 - close", "hc 0 1 0 1", "req 0 - close", "hc 0 0 1 1", "req 0 - close", "req 0 - close"]),
            // WITNESS: two backends at one address; the probes of both fail, only the first is marked
            s(&["new", "pol 0 rr -", "add 0 0 1 - - 0", "add 0 1 1 - - 0", "add 0 2 2 - - 0", "hc 0 1 0 1", "req 0 - close", "req 0 - close", "req 0 - close"]),
        ]
    }
    fn gen(&self, rng: &mut Rng, _thorough: bool) -> Vec<String> {
        let mut ops = vec!["new".to_string()];
        let kind = rng.below(10); // 0..3 counts, 4..6 refusing, 7..8 health, 9 mixed sticky
        let pol = if kind < 4 || rng.chance(1, 2) { "ll conn" } else { "rr -" };
        ops.push(format!("pol 0 {pol}"));
        let mut reg: Vec<(u64, u64)> = vec![];
        let mut held = 0u64;
        let health = kind == 7 || kind == 8;
        let refusing = (4..7).contains(&kind);
        let mut fails = 0;
        let add = |rng: &mut Rng, reg: &mut Vec<(u64, u64)>, ops: &mut Vec<String>, a: u64| {
            let id = reg.len() as u64 % 4;
            let sticky = if rng.chance(1, 2) { id.to_string() } else { "-".into() };
            let backup = rng.chance(1, 5) as u8;
            if !reg.contains(&(id, a)) {
                reg.push((id, a));
            }
            ops.push(format!("add 0 {id} {a} {sticky} - {backup}"));
        };
        let n0 = rng.range(2, 3);
        let mut addrs: Vec<u64> = (0..NMOCK).collect();
        rng.shuffle(&mut addrs);
        for a in addrs.iter().take(n0 as usize) {
            add(rng, &mut reg, &mut ops, *a);
        }
        if refusing {
            let da = NMOCK + rng.below(2);
            add(rng, &mut reg, &mut ops, da);
        }
        if health {
            // marker for the harness: this case runs with a health check configured
            ops.insert(1, "hc 0 9 1 1".into());
        }
        // TCP listeners run the count and the refusing-address scenarios alike (no cookies, no health marker)
        let tcp = kind < 7 && rng.chance(1, 2);
        if tcp {
            ops.insert(1, "hc 0 8 1 1".into());
        }
        let len = rng.range(6, 14);
        let mut waits = 0;
        for _ in 0..len {
            let r = rng.below(100);
            if r < 45 {
                let cookie = if !tcp && rng.chance(1, 4) { rng.below(4).to_string() } else { "-".into() };
                let hold = held < 5 && rng.chance(2, 5);
                if hold {
                    held += 1;
                }
                if refusing {
                    fails += 1;
                }
                let mode = if hold { "hold" } else if !tcp && rng.chance(1, 4) { "bclose" } else { "close" };
                ops.push(format!("req 0 {cookie} {mode}"));
            } else if r < 60 {
                if held > 0 {
                    ops.push(format!("drop {}", rng.below(held)));
                    held -= 1;
                }
            } else if r < 70 {
                if health {
                    let live: Vec<u64> = reg.iter().map(|x| x.1).filter(|a| *a < NMOCK).collect();
                    if !live.is_empty() {
                        ops.push(format!("hc 0 {} {} 1", rng.pick(&live), rng.chance(1, 3) as u8));
                    }
                } else if refusing && waits < 2 && fails > 0 {
                    waits += 1;
                    ops.push("wait".into());
                }
            } else if r < 80 {
                let a = addrs[rng.below(NMOCK) as usize];
                add(rng, &mut reg, &mut ops, a);
            } else if r < 90 {
                if let Some(&(_, a)) = reg.get(rng.below(reg.len().max(1) as u64) as usize) {
                    ops.push(format!("rm 0 {a}"));
                    reg.retain(|x| x.1 != a);
                }
            } else if r < 94 {
                ops.push(format!("pol 0 {}", if rng.chance(1, 2) { "ll conn" } else { "rr -" }));
            } else {
                ops.push("req 0 - close".into());
            }
        }
        ops
    }
    fn run_impl(&self, ops: &[String]) -> ImplRun {
        let mut r = ImplRun::default();
        // markers: `hc 0 8 ..` = TCP listener, any other `hc` line = health check configured
        let tcp = ops.iter().any(|o| o.starts_with("hc 0 8 "));
        let hc = ops.iter().any(|o| o.starts_with("hc ") && !o.starts_with("hc 0 8 "));
        let mut case: Option<Case> = None;
        for op in ops {
            if op.trim() == "new" {
                match Case::start(hc, tcp) {
                    Ok(c) => case = Some(c),
                    Err(_) => {
                        r.tags.push("inconclusive:rig-setup-failed".into());
                        case = None;
                    }
                }
                r.out.push("new".into());
                continue;
            }
            match case.as_mut() {
                Some(c) => r.out.push(c.line(op)),
                None => r.out.push("inconclusive".into()),
            }
        }
        if let Some(mut c) = case {
            c.quiesce();
            if !matches!(c.w.alive(), Health::Alive(_)) {
                c.oracle.push(("worker-dead-or-wedged".into(), "the worker stopped answering".into()));
            }
            r.nontrivial = c.tags.iter().any(|t| t == "served")
                && (c.tags.iter().any(|t| t == "health-transition" || t == "refusing-address-registered") || ops.iter().any(|o| o.contains("hold") || o.starts_with("rm ")));
            r.oracle = std::mem::take(&mut c.oracle);
            let mut seen = HashSet::new();
            r.oracle.retain(|(k, _)| seen.insert(k.clone()));
            r.tags = std::mem::take(&mut c.tags);
            if c.inconclusive {
                r.tags.push("inconclusive-case".into());
            }
            r.tags.sort();
            r.tags.dedup();
            c.w.stop();
        }
        r
    }
    fn classify_mismatch(&self, ops: &[String], _impl_out: &[String], _model_out: &[String]) -> String {
        // behind a TCP listener the least-loaded choice deviates because tcp.rs never releases
        // a connection count (same fingerprint as the quiescence oracle)
        if ops.iter().any(|o| o.starts_with("hc 0 8 ")) && ops.iter().any(|o| o.starts_with("pol 0 ll") || o.starts_with("pol 0 p2")) {
            "bb-tcp-count-not-zero-at-quiescence".into()
        } else {
            "model-mismatch".into()
        }
    }
    fn lines_agree(&self, impl_line: &str, model_line: &str) -> bool {
        if impl_line == "inconclusive" || model_line.starts_with("nondet") || impl_line == "-" || impl_line == model_line {
            return true;
        }
        let mr = model_line.split(" | ").next().unwrap_or("");
        if impl_line == "none" {
            return mr == "none";
        }
        if let Some(a) = impl_line.strip_prefix("some @") {
            let tail = |x: &str| x.rsplit('@').next().unwrap_or("").to_string();
            if let Some(b) = mr.strip_prefix("some ") {
                return tail(b) == a;
            }
            if let Some(set) = mr.strip_prefix("any ") {
                return set.split(',').any(|y| tail(y) == a);
            }
        }
        false
    }
}

fn main() {
    std::panic::set_hook(Box::new(|_| {}));
    silence_worker_panics();
    let args = parse_args();
    let mut rc = run_area(&Bb, &args);
    // the inconclusive escape must stay rare
    if !args.out.is_empty() && args.replay.is_none() {
        if let Ok(txt) = std::fs::read_to_string(&args.out) {
            if let Ok(mut v) = serde_json::from_str::<serde_json::Value>(&txt) {
                let inc = v["distribution"]["inconclusive-case"].as_u64().unwrap_or(0)
                    + v["distribution"]["inconclusive:rig-setup-failed"].as_u64().unwrap_or(0);
                let n = v["evaluations"].as_u64().unwrap_or(0);
                if inc * 10 > n.max(10) {
                    let f = serde_json::json!({"kind": "oracle", "class": "harness-inconclusive",
                        "detail": format!("{inc} inconclusive cases of {n} (machine overloaded or rig set-up failing)"),
                        "case": -1, "ops": [], "impl_out": [], "model_out": []});
                    if let Some(a) = v["failures"].as_array_mut() {
                        a.push(f);
                    }
                    let _ = std::fs::write(&args.out, serde_json::to_string_pretty(&v).unwrap());
                    println!("FAIL oracle harness-inconclusive {inc} of {n}");
                    rc = 1;
                }
            }
        }
    }
    std::process::exit(rc);
}
