//! C02 (black-box half): fault injection on a real sozu worker (rig) — every
//! fully received request gets exactly one well-formed answer.
//!
//! One case = one fresh worker with an HTTP listener, six routes and short
//! timeouts, plus 1..3 requests sent one after the other by a scripted H1
//! client (same connection while sozu keeps it open). Each request names a
//! routing outcome and, for the routed ones, what the scripted H1 backend
//! does with it (refuse / close, reset or stall at a byte-offset class of a
//! fixed response / garbage / close between keep-alive requests).
//! For every request the client waits with a deadline and records what it
//! saw; the canonical observation token is compared with the set of terminal
//! outcomes the Lean lifecycle model (`answers_driver`) admits for that
//! scenario, and model-independent oracles check the property itself.
use std::collections::HashMap;
use std::net::SocketAddr;
use std::sync::atomic::{AtomicBool, AtomicUsize, Ordering};
use std::sync::{Arc, Mutex};
use std::thread::{self, JoinHandle};
use std::time::{Duration, Instant};

use sozu_command_lib::proto::command::{request::RequestType, PathRule, RedirectPolicy, RequestHttpFrontend, RulePosition};
use verif_harness::rig::*;
use verif_harness::*;

const BODY_SMALL: &[u8] = b"abcdefghijklmnopqrstuvwxyz";
const BIG_LEN: usize = 40_000;
const OK_BODY: &[u8] = b"fine";
/// larger than everything the kernel and sozu can buffer between backend and client
const NOREAD_LEN: usize = 12_000_000;
const CRED: &str = "dXNlcjpwdw=="; // user:pw
const CRED_HASH: &str = "user:30c952fab122c3f9759f02a6d95c3758b246b4fee239957b2d4fee46e26170c4";

fn big_body() -> Vec<u8> {
    (0..BIG_LEN).map(|i| b'A' + (i % 23) as u8).collect()
}

// ------------------------------------------------- scheduling-lag monitor --

/// moments at which a 20 ms sleep of the monitor thread took more than 400 ms longer: the
/// machine is so loaded that neither the scripted peers nor sozu's thread run on time, and
/// what a request observed in such a window says nothing about sozu
static LAGS: Mutex<Vec<Instant>> = Mutex::new(Vec::new());

fn start_lag_monitor() {
    thread::spawn(|| loop {
        let t = Instant::now();
        thread::sleep(Duration::from_millis(20));
        if t.elapsed() > Duration::from_millis(420) {
            LAGS.lock().unwrap().push(Instant::now());
        }
    });
}

fn lagged_since(t0: Instant) -> bool {
    LAGS.lock().unwrap().iter().any(|t| *t >= t0)
}

// ------------------------------------------------------------- scenario --

#[derive(Clone, Debug, PartialEq)]
struct Req {
    i: usize,
    route: String,  // flt unknown nobackend deny refuse limit badhost
    client: String, // full stallhead
    shape: String,  // cl chunked uc garbage
    conn: String,   // ka close
    cut: String,    // accept1 acceptall none status headers hdrend body chunkline beforelast full
    end: String,    // close reset stall keep
    big: bool,
}

#[derive(Clone, Debug)]
struct Setup {
    ft: u32,
    bt: u32,
    ct: u32,
    rt: u32,
    /// the client talks to the HTTPS listener (H1 over TLS), routes are path prefixes of `localhost`
    tls: bool,
}

fn kv(line: &str) -> HashMap<String, String> {
    line.split_whitespace()
        .skip(1)
        .filter_map(|w| w.split_once('=').map(|(k, v)| (k.to_string(), v.to_string())))
        .collect()
}

fn parse_setup(line: &str) -> Option<Setup> {
    if !line.starts_with("new ") {
        return None;
    }
    let m = kv(line);
    Some(Setup {
        ft: m.get("ft")?.parse().ok()?,
        bt: m.get("bt")?.parse().ok()?,
        ct: m.get("ct")?.parse().ok()?,
        rt: m.get("rt")?.parse().ok()?,
        tls: m.get("tls").map(|v| v == "1").unwrap_or(false),
    })
}

fn parse_req(line: &str) -> Option<Req> {
    if !line.starts_with("req ") {
        return None;
    }
    let m = kv(line);
    Some(Req {
        i: m.get("i")?.parse().ok()?,
        route: m.get("route")?.clone(),
        client: m.get("client")?.clone(),
        shape: m.get("shape")?.clone(),
        conn: m.get("conn")?.clone(),
        cut: m.get("cut")?.clone(),
        end: m.get("end")?.clone(),
        big: m.get("big").map(|s| s == "1").unwrap_or(false),
    })
}

fn fmt_req(r: &Req) -> String {
    format!(
        "req i={} route={} client={} shape={} conn={} cut={} end={} big={}",
        r.i, r.route, r.client, r.shape, r.conn, r.cut, r.end, r.big as u8
    )
}

/// routed to the scripted backend (`fltk`: same, but the cluster's 502/503/504 templates are
/// keep-alive, so the client connection - and the frontend session - survives a failure)
fn is_flt(r: &Req) -> bool {
    r.route == "flt" || r.route == "fltk"
}

/// the client sends a complete, well-formed request (possibly with credentials, pipelined
/// with the next one, or without reading the answer for a while)
fn complete_req(r: &Req) -> bool {
    !matches!(r.client.as_str(), "stallhead" | "http10" | "junk")
}

fn plain(i: usize, route: &str) -> Req {
    Req {
        i,
        route: route.into(),
        client: "full".into(),
        shape: "cl".into(),
        conn: "ka".into(),
        cut: "full".into(),
        end: "keep".into(),
        big: false,
    }
}

/// the full response the backend would send for this request, and the body
fn full_response(r: &Req, bconn: usize) -> (Vec<u8>, Vec<u8>, usize) {
    let body: Vec<u8> = if r.client == "noread" {
        (0..NOREAD_LEN).map(|i| b'a' + (i % 19) as u8).collect()
    } else if r.big {
        big_body()
    } else {
        BODY_SMALL.to_vec()
    };
    let mut head = Vec::new();
    head.extend_from_slice(format!("HTTP/1.1 200 OK\r\nX-Fault: yes\r\nX-Req: {}\r\nX-Bconn: {bconn}\r\n", r.i).as_bytes());
    if r.conn == "close" {
        head.extend_from_slice(b"Connection: close\r\n");
    }
    let mut wire_body = Vec::new();
    match r.shape.as_str() {
        "cl" | "cl103" | "cl103p" => {
            head.extend_from_slice(format!("Content-Length: {}\r\n", body.len()).as_bytes());
            wire_body.extend_from_slice(&body);
        }
        "chunked" => {
            head.extend_from_slice(b"Transfer-Encoding: chunked\r\n");
            let first = 10.min(body.len());
            wire_body.extend_from_slice(format!("{:x}\r\n", first).as_bytes());
            wire_body.extend_from_slice(&body[..first]);
            wire_body.extend_from_slice(b"\r\n");
            wire_body.extend_from_slice(format!("{:x}\r\n", body.len() - first).as_bytes());
            wire_body.extend_from_slice(&body[first..]);
            wire_body.extend_from_slice(b"\r\n0\r\n\r\n");
        }
        _ => {
            // uc: delimited by the end of the connection
            wire_body.extend_from_slice(&body);
        }
    }
    head.extend_from_slice(b"\r\n");
    if r.shape == "cl103" || r.shape == "cl103p" {
        let mut v = b"HTTP/1.1 103 Early Hints\r\nLink: </style.css>; rel=preload\r\n\r\n".to_vec();
        v.extend_from_slice(&head);
        head = v;
    }
    let hl = head.len();
    head.extend_from_slice(&wire_body);
    (head, body, hl)
}

/// bytes the backend really sends before its end action
fn sent_prefix(r: &Req, bconn: usize) -> Vec<u8> {
    if r.shape == "garbage" {
        return b"\x00\x01SSH-2.0-not-http\r\n\r\n\xff\xfe garbage".to_vec();
    }
    let (full, _body, hl) = full_response(r, bconn);
    let n = match r.cut.as_str() {
        "accept1" | "acceptall" | "none" => 0,
        "status" => 9,          // "HTTP/1.1 "
        "headers" => hl - 7,    // inside the last header line
        "hdrend" => hl,
        "body" => {
            if r.shape == "chunked" {
                // inside the data of the second chunk
                hl + 3 + 10 + 2 + (if r.big { 6 } else { 4 }) + (full.len() - hl) / 3
            } else {
                hl + (full.len() - hl) / 2
            }
        }
        "chunkline" => hl + 1, // inside the first chunk-size line
        "beforelast" => full.len() - 5, // everything but "0\r\n\r\n"
        _ => full.len(),
    };
    full[..n.min(full.len())].to_vec()
}

// ------------------------------------------------------- scripted backend --

struct FaultBackend {
    addr: SocketAddr,
    stop: Arc<AtomicBool>,
    plan: Arc<Mutex<HashMap<usize, Req>>>,
    accept_close: Arc<AtomicUsize>,
    hits: Arc<Mutex<HashMap<usize, usize>>>,
    accepted: Arc<AtomicUsize>,
    /// (request index, serial of the backend connection it was read on), in arrival order
    served: Arc<Mutex<Vec<(usize, usize)>>>,
    /// pause before the late answer of an `end=late` request
    late_ms: Arc<AtomicUsize>,
    handle: Option<JoinHandle<()>>,
}

impl FaultBackend {
    fn start() -> RigResult<FaultBackend> {
        let be = MockBackend::listen()?;
        let addr = be.addr;
        let stop = Arc::new(AtomicBool::new(false));
        let plan: Arc<Mutex<HashMap<usize, Req>>> = Arc::new(Mutex::new(HashMap::new()));
        let accept_close = Arc::new(AtomicUsize::new(0));
        let hits = Arc::new(Mutex::new(HashMap::new()));
        let accepted = Arc::new(AtomicUsize::new(0));
        let served = Arc::new(Mutex::new(vec![]));
        let late_ms = Arc::new(AtomicUsize::new(150));
        let (s2, p2, a2, h2, c2) = (stop.clone(), plan.clone(), accept_close.clone(), hits.clone(), accepted.clone());
        let (sv2, lm2) = (served.clone(), late_ms.clone());
        let handle = thread::spawn(move || {
            let mut conns = vec![];
            while !s2.load(Ordering::SeqCst) {
                match be.accept(Duration::from_millis(20)) {
                    Ok(conn) => {
                        let serial = c2.fetch_add(1, Ordering::SeqCst) + 1;
                        let left = a2.load(Ordering::SeqCst);
                        if left > 0 {
                            if left != usize::MAX {
                                a2.fetch_sub(1, Ordering::SeqCst);
                            }
                            conn.close();
                            continue;
                        }
                        let (s3, p3, h3, sv3, lm3) = (s2.clone(), p2.clone(), h2.clone(), sv2.clone(), lm2.clone());
                        conns.push(thread::spawn(move || serve_conn(conn, serial, s3, p3, h3, sv3, lm3)));
                    }
                    Err(_) => {}
                }
            }
            for c in conns {
                let _ = c.join();
            }
        });
        Ok(FaultBackend { addr, stop, plan, accept_close, hits, accepted, served, late_ms, handle: Some(handle) })
    }
    /// serials of the backend connections request `i` was read on
    fn conns_of(&self, i: usize) -> Vec<usize> {
        self.served.lock().unwrap().iter().filter(|(r, _)| *r == i).map(|(_, c)| *c).collect()
    }
    fn hits(&self, i: usize) -> usize {
        *self.hits.lock().unwrap().get(&i).unwrap_or(&0)
    }
    fn shutdown(&mut self) {
        self.stop.store(true, Ordering::SeqCst);
        if let Some(h) = self.handle.take() {
            let _ = h.join();
        }
    }
}

fn serve_conn(
    mut conn: RawConn,
    serial: usize,
    stop: Arc<AtomicBool>,
    plan: Arc<Mutex<HashMap<usize, Req>>>,
    hits: Arc<Mutex<HashMap<usize, usize>>>,
    served: Arc<Mutex<Vec<(usize, usize)>>>,
    late_ms: Arc<AtomicUsize>,
) {
    let mut off = 0usize;
    loop {
        // next request head
        let head_end = loop {
            if let Some(p) = find(&conn.received[off..], b"\r\n\r\n") {
                break off + p + 4;
            }
            if stop.load(Ordering::SeqCst) {
                return;
            }
            match conn.read_some(Duration::from_millis(25)) {
                ReadEnd::Done | ReadEnd::Timeout => {}
                _ => return,
            }
        };
        let head = String::from_utf8_lossy(&conn.received[off..head_end]).into_owned();
        off = head_end;
        let path = head.split(' ').nth(1).unwrap_or("/").to_string();
        let idx: Option<usize> = path.rsplit('/').next().and_then(|s| s.strip_prefix('r')).and_then(|s| s.parse().ok());
        let req = idx.and_then(|i| plan.lock().unwrap().get(&i).cloned());
        let Some(req) = req else {
            // bystander traffic: a small keep-alive 200
            let r = format!("HTTP/1.1 200 OK\r\nX-Bconn: {serial}\r\nContent-Length: {}\r\n\r\n", OK_BODY.len());
            let mut v = r.into_bytes();
            v.extend_from_slice(OK_BODY);
            if conn.write_all(&v, Duration::from_secs(2)).is_err() {
                return;
            }
            continue;
        };
        *hits.lock().unwrap().entry(req.i).or_insert(0) += 1;
        served.lock().unwrap().push((req.i, serial));
        let bytes = sent_prefix(&req, serial);
        if req.shape == "cl103p" {
            // the interim response in its own segment, the final one a moment later
            let cut = find(&bytes, b"\r\n\r\n").map(|p| p + 4).unwrap_or(0);
            if conn.write_all(&bytes[..cut], Duration::from_secs(5)).is_err() {
                return;
            }
            thread::sleep(Duration::from_millis(120));
            if conn.write_all(&bytes[cut..], Duration::from_secs(5)).is_err() {
                return;
            }
        } else if !bytes.is_empty() && conn.write_all(&bytes, Duration::from_secs(5)).is_err() {
            return;
        }
        match req.end.as_str() {
            "keep" => continue,
            "late" => {
                // keep the socket open and answer this request (too) late, then go on serving
                let until = Instant::now() + Duration::from_millis(late_ms.load(Ordering::SeqCst) as u64);
                while Instant::now() < until {
                    if stop.load(Ordering::SeqCst) {
                        return;
                    }
                    thread::sleep(Duration::from_millis(10));
                }
                let mut ok = plain(req.i, "flt");
                ok.i = req.i;
                let (full, _, _) = full_response(&ok, serial);
                if conn.write_all(&full, Duration::from_secs(2)).is_err() {
                    return;
                }
                continue;
            }
            "close" => {
                conn.close();
                return;
            }
            "reset" => {
                conn.reset();
                return;
            }
            _ => {
                // stall: hold the connection, never send another byte
                while !stop.load(Ordering::SeqCst) {
                    match conn.read_some(Duration::from_millis(25)) {
                        ReadEnd::Closed | ReadEnd::Reset => return,
                        _ => {}
                    }
                }
                return;
            }
        }
    }
}


// ------------------------------------------------------- client connection --

/// H1 client over TCP, or over TLS (HTTPS listener, ALPN http/1.1)
struct TlsClient {
    stream: TlsStream,
    received: Vec<u8>,
    parsed: usize,
    ended: Option<ReadEnd>,
}

enum Client {
    Plain(RawConn),
    Tls(Box<TlsClient>),
}

impl Client {
    fn received(&self) -> &Vec<u8> {
        match self {
            Client::Plain(c) => &c.received,
            Client::Tls(t) => &t.received,
        }
    }
    fn parsed(&self) -> usize {
        match self {
            Client::Plain(c) => c.parsed,
            Client::Tls(t) => t.parsed,
        }
    }
    fn set_parsed(&mut self, n: usize) {
        match self {
            Client::Plain(c) => c.parsed = n,
            Client::Tls(t) => t.parsed = n,
        }
    }
    fn write_all(&mut self, data: &[u8], timeout: Duration) -> Result<(), String> {
        match self {
            Client::Plain(c) => c.write_all(data, timeout).map_err(|e| format!("{e}")),
            Client::Tls(t) => {
                use std::io::Write;
                let _ = t.stream.sock.set_write_timeout(Some(timeout.max(Duration::from_millis(1))));
                t.stream.write_all(data).and_then(|_| t.stream.flush()).map_err(|e| format!("{e}"))
            }
        }
    }
    fn read_some(&mut self, timeout: Duration) -> ReadEnd {
        match self {
            Client::Plain(c) => c.read_some(timeout),
            Client::Tls(t) => {
                use std::io::Read;
                if let Some(e) = t.ended {
                    return e;
                }
                let _ = t.stream.sock.set_read_timeout(Some(timeout.max(Duration::from_millis(1))));
                let mut buf = vec![0u8; 1 << 16];
                match t.stream.read(&mut buf) {
                    Ok(0) => {
                        t.ended = Some(ReadEnd::Closed);
                        ReadEnd::Closed
                    }
                    Ok(n) => {
                        t.received.extend_from_slice(&buf[..n]);
                        ReadEnd::Done
                    }
                    Err(e) => match e.kind() {
                        std::io::ErrorKind::WouldBlock | std::io::ErrorKind::TimedOut | std::io::ErrorKind::Interrupted => ReadEnd::Timeout,
                        // TCP closed without close_notify: an end all the same
                        std::io::ErrorKind::UnexpectedEof => {
                            t.ended = Some(ReadEnd::Closed);
                            ReadEnd::Closed
                        }
                        _ => {
                            t.ended = Some(ReadEnd::Reset);
                            ReadEnd::Reset
                        }
                    },
                }
            }
        }
    }
    fn read_until_closed_or(&mut self, timeout: Duration) -> ReadEnd {
        let until = Instant::now() + timeout;
        loop {
            let left = until.saturating_duration_since(Instant::now());
            if left.is_zero() {
                return ReadEnd::Timeout;
            }
            match self.read_some(left) {
                ReadEnd::Done => {}
                ReadEnd::Timeout => return ReadEnd::Timeout,
                e => return e,
            }
        }
    }
    fn close(self) {
        match self {
            Client::Plain(c) => c.close(),
            Client::Tls(mut t) => {
                t.stream.conn.send_close_notify();
                let _ = t.stream.conn.complete_io(&mut t.stream.sock);
            }
        }
    }
}

fn connect_client(addr: SocketAddr, tls: bool) -> Result<Client, String> {
    if tls {
        let stream = tls_connect(addr, "localhost", &["http/1.1"], Duration::from_secs(2)).map_err(|e| format!("{e}"))?;
        Ok(Client::Tls(Box::new(TlsClient { stream, received: vec![], parsed: 0, ended: None })))
    } else {
        RawConn::connect(addr).map(Client::Plain).map_err(|e| format!("{e}"))
    }
}

// ------------------------------------------------------- client observer --

#[derive(Debug, Clone, Default)]
struct Obs {
    bytes: usize,
    head_complete: bool,
    status: Option<u16>,
    framing: String, // cl:<n> chunked uc none
    body: Vec<u8>,
    complete: bool,
    terminal_chunk: bool,
    conn_close_hdr: bool,
    sozu_id: bool,
    x_req: Option<usize>,
    x_bconn: Option<usize>,
    location: Option<String>,
    www_authenticate: Option<String>,
    x_custom: bool,
    informational: usize,
    end: String, // open closed reset
    extra: usize,
    t_first: Option<Duration>,
    t_done: Duration,
    /// when the check for extra bytes after a complete message ended
    t_linger_end: Duration,
    malformed: Option<String>,
}

/// read one response with a deadline; never blocks past `deadline`
fn observe(conn: &mut Client, t0: Instant, deadline: Duration, linger: Duration) -> Obs {
    let mut base = conn.parsed();
    let mut o = Obs { framing: "none".into(), end: "open".into(), ..Default::default() };
    let until = t0 + deadline;
    let left = |u: Instant| u.saturating_duration_since(Instant::now());
    let mut head_end = None;
    let mut cl: Option<usize> = None;
    let mut chunked = false;
    let mut ended: Option<ReadEnd> = None;
    loop {
        let buf = &conn.received()[base..];
        if o.t_first.is_none() && !buf.is_empty() {
            o.t_first = Some(t0.elapsed());
        }
        if head_end.is_none() {
            if let Some(p) = find(buf, b"\r\n\r\n") {
                head_end = Some(p + 4);
                o.head_complete = true;
                let head = String::from_utf8_lossy(&buf[..p]).into_owned();
                let mut lines = head.split("\r\n");
                let sl = lines.next().unwrap_or("");
                if !sl.starts_with("HTTP/1.1 ") {
                    o.malformed = Some(format!("status line {sl:?}"));
                }
                o.status = sl.split(' ').nth(1).and_then(|s| s.parse().ok());
                for l in lines {
                    if let Some((n, v)) = l.split_once(':') {
                        let (n, v) = (n.trim().to_ascii_lowercase(), v.trim().to_string());
                        match n.as_str() {
                            "content-length" => match v.parse::<usize>() {
                                Ok(x) => {
                                    if cl.is_some() && cl != Some(x) {
                                        o.malformed = Some("two different content-length".into());
                                    }
                                    cl = Some(x)
                                }
                                Err(_) => o.malformed = Some(format!("content-length {v:?}")),
                            },
                            "transfer-encoding" => chunked = v.to_ascii_lowercase().contains("chunked"),
                            "connection" => o.conn_close_hdr |= v.eq_ignore_ascii_case("close"),
                            "sozu-id" => o.sozu_id = true,
                            "x-req" => o.x_req = v.parse().ok(),
                            "location" => o.location = Some(v.clone()),
                            "www-authenticate" => o.www_authenticate = Some(v.clone()),
                            "x-custom" => o.x_custom = true,
                            "x-bconn" => o.x_bconn = v.parse().ok(),
                            _ => {}
                        }
                    } else {
                        o.malformed = Some(format!("field line {l:?}"));
                    }
                }
                if matches!(o.status, Some(100..=199)) {
                    // an interim response: no body, the final response follows on the connection
                    o.informational += 1;
                    base += p + 4;
                    head_end = None;
                    o.head_complete = false;
                    o.status = None;
                    cl = None;
                    chunked = false;
                    continue;
                }
                if chunked && cl.is_some() {
                    o.malformed = Some("both content-length and chunked".into());
                }
                o.framing = if chunked {
                    "chunked".into()
                } else if let Some(n) = cl {
                    format!("cl:{n}")
                } else {
                    "uc".into()
                };
            }
        }
        if let Some(he) = head_end {
            let body = &conn.received()[base + he..];
            if chunked {
                // decode as far as possible
                let (dec, done, used, bad) = dechunk(body);
                o.body = dec;
                if let Some(b) = bad {
                    o.malformed = Some(b);
                }
                if done {
                    o.complete = true;
                    o.terminal_chunk = true;
                    { let v = base + he + used; conn.set_parsed(v); }
                    break;
                }
            } else if let Some(n) = cl {
                o.body = body[..body.len().min(n)].to_vec();
                if body.len() >= n {
                    o.complete = true;
                    { let v = base + he + n; conn.set_parsed(v); }
                    break;
                }
            } else {
                o.body = body.to_vec();
            }
        }
        if let Some(e) = ended {
            o.end = if e == ReadEnd::Closed { "closed".into() } else { "reset".into() };
            if head_end.is_some() && !chunked && cl.is_none() {
                o.complete = true; // delimited by the end of the connection
            }
            { let v = conn.received().len(); conn.set_parsed(v); }
            break;
        }
        let l = left(until);
        if l.is_zero() {
            { let v = conn.received().len(); conn.set_parsed(v); }
            break;
        }
        match conn.read_some(l) {
            ReadEnd::Done => {}
            ReadEnd::Timeout => {}
            e => ended = Some(e),
        }
    }
    o.bytes = conn.received().len() - base;
    o.t_done = t0.elapsed();
    // after a complete message: does the connection stay open, and silent?
    if o.end == "open" && o.complete {
        let before = conn.received().len();
        match conn.read_until_closed_or(linger) {
            ReadEnd::Closed => o.end = "closed".into(),
            ReadEnd::Reset => o.end = "reset".into(),
            _ => {}
        }
        o.t_linger_end = t0.elapsed();
        o.extra = conn.received().len() - before.min(conn.received().len());
        if before > conn.parsed() {
            o.extra += before - conn.parsed();
        }
        { let v = conn.received().len(); conn.set_parsed(v); }
    }
    o
}

/// (decoded, saw the terminal chunk + final CRLF, bytes used, malformed)
fn dechunk(b: &[u8]) -> (Vec<u8>, bool, usize, Option<String>) {
    let mut out = vec![];
    let mut pos = 0;
    loop {
        let Some(le) = find(&b[pos..], b"\r\n") else { return (out, false, pos, None) };
        let line = String::from_utf8_lossy(&b[pos..pos + le]).into_owned();
        let Ok(size) = usize::from_str_radix(line.split(';').next().unwrap_or("").trim(), 16) else {
            return (out, false, pos, Some(format!("chunk size {line:?}")));
        };
        let data = pos + le + 2;
        if size == 0 {
            // the last-chunk line says "the body is complete" (no trailers are ever sent
            // here: anything but CRLF after it counts as extra bytes of another message)
            if b.len() >= data + 2 && &b[data..data + 2] == b"\r\n" {
                return (out, true, data + 2, None);
            }
            return (out, true, data, None);
        }
        if b.len() < data + size + 2 {
            out.extend_from_slice(&b[data.min(b.len())..b.len().min(data + size)]);
            return (out, false, pos, None);
        }
        out.extend_from_slice(&b[data..data + size]);
        if &b[data + size..data + size + 2] != b"\r\n" {
            return (out, false, pos, Some("no CRLF after chunk data".into()));
        }
        pos = data + size + 2;
    }
}

/// canonical token of what the client saw (compared with the model's admissible set)
fn token(o: &Obs, expected_body: &[u8]) -> String {
    let kind = if o.bytes == 0 {
        if o.end == "open" { "hang".to_string() } else { "none".to_string() }
    } else if !o.head_complete {
        if o.end == "open" { "partial-head-open".into() } else { "abort-head".into() }
    } else if o.status != Some(200) {
        if o.complete {
            format!("default:{}", o.status.unwrap_or(0))
        } else {
            format!("default-truncated:{}", o.status.unwrap_or(0))
        }
    } else if o.complete {
        if o.framing == "uc" {
            if o.body == expected_body {
                "relayed".into()
            } else if expected_body.starts_with(&o.body) {
                "relayed-prefix".into() // indistinguishable from complete for the client
            } else {
                "corrupt".into()
            }
        } else if o.body == expected_body {
            "relayed".into()
        } else if expected_body.starts_with(&o.body) {
            "truncated-as-complete".into()
        } else {
            "corrupt".into()
        }
    } else if o.end == "open" {
        "truncated-open".into()
    } else if o.framing.starts_with("cl:") && !expected_body.starts_with(&o.body) {
        // short, and what did arrive is not even a prefix of the backend's body
        "abort-corrupt".into()
    } else {
        "abort".into()
    };
    let end = if o.end == "reset" { "closed" } else { o.end.as_str() };
    format!("{kind}/{end}")
}

// --------------------------------------------------------------- the area --

struct Faults;

/// what the property allows for a scenario, derived from its text only
/// (routing outcome / fault point → cause → status), independent of the model
fn property_allows(r: &Req, first_on_conn: bool, tls: bool) -> Vec<&'static str> {
    let _ = first_on_conn;
    if tls && r.route == "badhost" {
        // not a name of the certificate either
        return vec!["default:400", "default:421"];
    }
    if r.client == "stallhead" {
        return vec!["default:408"];
    }
    if r.client == "http10" || r.client == "junk" {
        return vec!["default:400"];
    }
    match r.route.as_str() {
        "sni421" => return vec!["default:421"],
        "refuse4" => return vec!["default:503"],
        "redir301" => return vec!["default:301"],
        "redir302" => return vec!["default:302"],
        "redir308" => return vec!["default:308"],
        "unauth" => return vec!["default:401"],
        "auth" => return if r.client == "cred" { vec!["relayed"] } else { vec!["default:401"] },
        // denial comes before the per-IP limit; with valid credentials the limit applies
        "limauth" => return if r.client == "cred" { vec!["default:429"] } else { vec!["default:401"] },
        "unknown" => return vec!["default:404"],
        "deny" => return vec!["default:401"],
        "nobackend" | "refuse" => return vec!["default:503"],
        "limit" => return vec!["default:429"],
        "badhost" => return vec!["default:400"],
        _ => {}
    }
    if r.shape == "garbage" {
        return vec!["default:502"];
    }
    if r.client == "noread" {
        // the client does not read: the timers end the exchange, the body can never be complete
        return vec!["abort"];
    }
    match r.cut.as_str() {
        // connection closed at accept: closed early (502) or no usable backend (503);
        // with a single such close a transparent retry may also succeed
        "accept1" => vec!["default:502", "default:503", "relayed"],
        "acceptall" => vec!["default:502", "default:503"],
        "none" | "status" | "headers" => match r.end.as_str() {
            "stall" | "late" => vec!["default:504"],
            _ => vec!["default:502"],
        },
        "full" => {
            if r.shape == "uc" && r.end != "close" && r.end != "reset" {
                // never delimited: the only honest end is an abort (which a client
                // of a close-delimited body cannot tell from completion)
                vec!["relayed", "abort"]
            } else {
                vec!["relayed"]
            }
        }
        // the backend stopped inside its response: an abort once the client was given
        // part of it, a clean 502/504 while it was given nothing; never "complete"
        _ => {
            let mut v = vec!["abort"];
            v.push(if r.end == "stall" { "default:504" } else { "default:502" });
            if r.shape == "uc" {
                v.push("relayed-prefix");
            }
            v
        }
    }
}

/// fingerprints of the defects this check found in the unchanged code (reported as
/// proposed known findings); anything else that violates the property keeps a generic class
fn known_defect(r: &Req, kind: &str, o: &Obs) -> Option<&'static str> {
    let cut_partial = matches!(r.cut.as_str(), "hdrend" | "body" | "chunkline" | "beforelast");
    let ended = r.end == "close" || r.end == "reset";
    if is_flt(r) && complete_req(r) && r.shape == "cl103" && kind == "default:504" {
        return Some("final-response-coalesced-with-1xx-lost");
    }
    if !is_flt(r) || !complete_req(r) || !ended {
        return None;
    }
    if r.shape == "cl103" && kind == "default:504" {
        return Some("final-response-coalesced-with-1xx-lost");
    }
    if r.shape == "cl" && r.conn == "close" && cut_partial
        && matches!(kind, "corrupt" | "abort-corrupt" | "truncated-as-complete" | "truncated-open")
    {
        return Some("eof-completes-short-length-body-then-408");
    }
    if r.shape == "uc" && r.conn == "close" && kind == "corrupt" {
        return Some("close-delimited-body-kept-open-then-408");
    }
    if r.conn == "ka" && (cut_partial || (r.shape == "uc" && r.cut == "full")) && kind == "none" {
        return Some("unflushed-response-dropped-silent-close");
    }
    // same defect, several buffers: the part still unwritten is dropped, and the client of a
    // close-delimited body takes the close for its end
    if r.conn == "ka" && r.shape == "uc" && r.cut == "full" && r.big && kind == "relayed-prefix" {
        return Some("unflushed-response-dropped-silent-close");
    }
    if r.shape == "chunked" && r.conn == "close" && cut_partial && kind == "abort"
        && o.malformed.as_deref().map(|m| m.starts_with("chunk size") || m.starts_with("no CRLF after chunk data")).unwrap_or(false)
    {
        return Some("default-answer-written-into-started-response");
    }
    None
}

fn time_bound(r: &Req, s: &Setup, first_on_conn: bool) -> Duration {
    let slack = Duration::from_millis(2500);
    let sec = |n: u32| Duration::from_secs(n as u64);
    if r.client == "stallhead" {
        return sec(if first_on_conn { s.rt.max(s.ft) } else { s.ft }) + slack;
    }
    if r.client == "noread" {
        return sec(s.ft + s.bt) * 2 + slack;
    }
    if !is_flt(r) {
        return slack;
    }
    if (r.end == "stall" || r.end == "late") && r.cut != "full" && r.shape != "garbage" {
        return sec(s.bt) + sec(s.ft) + slack;
    }
    if r.end == "stall" && r.shape == "uc" {
        return sec(s.bt) + sec(s.ft) + slack;
    }
    // response started then cut: the abort may only show when the front timer fires
    if !matches!(r.cut.as_str(), "accept1" | "acceptall" | "none" | "status" | "headers" | "full") {
        return sec(s.ft) + sec(s.bt) + slack;
    }
    slack
}

fn reuses_stalled_now(stalled: bool, r: &Req) -> bool {
    stalled && is_flt(r) && complete_req(r)
}

struct World {
    w: Worker,
    front: SocketAddr,
    /// HTTPS listener (certificate for `localhost`), same clusters routed by path prefix
    fronts: SocketAddr,
    _dead4: Vec<Reservation>,
    flt: FaultBackend,
    ok: FaultBackend,
    _dead: Reservation,
}

fn build_world(s: &Setup) -> RigResult<World> {
    // self-test of the inconclusive path: `C02_FORCE_SETUP_FAIL=1 faults …`
    if std::env::var("C02_FORCE_SETUP_FAIL").is_ok() {
        return Err(RigError::Setup("forced by C02_FORCE_SETUP_FAIL".into()));
    }
    let mut w = Worker::start(WorkerOpts {
        front_timeout: Some(s.ft),
        back_timeout: Some(s.bt),
        connect_timeout: Some(s.ct),
        request_timeout: Some(s.rt),
        ..WorkerOpts::default()
    })?;
    let front = w.add_http_listener()?;
    // (both listeners exist before any cluster is added)
    let fronts = w.add_https_listener()?;
    w.add_certificate(fronts, asset("local-certificate.pem")?, asset("local-key.pem")?, vec![])?;
    let flt = FaultBackend::start()?;
    let ok = FaultBackend::start()?;
    let dead = dead_addr()?;
    w.add_http_route(front, "flt.test", "/", "flt", flt.addr, false)?;
    // same scripted backend behind a cluster whose 502/503/504 answers are keep-alive: the
    // client connection (and with it the frontend session and its backend connections)
    // survives a failed exchange
    let mut fk = cluster("fltk");
    for (code, reason) in [("502", "Bad Gateway"), ("503", "Service Unavailable"), ("504", "Gateway Timeout")] {
        fk.answers.insert(
            code.to_string(),
            format!("HTTP/1.1 {code} {reason}\r\nContent-Length: 7\r\nSozu-Id: %REQUEST_ID\r\n\r\ncustom!"),
        );
    }
    w.add_cluster(fk)?;
    w.add_http_frontend(front, "fltk.test", "/", "fltk")?;
    w.add_backend("fltk", "fltk-0", flt.addr)?;
    w.add_http_route(front, "ok.test", "/", "okc", ok.addr, false)?;
    w.add_http_route(front, "ref.test", "/", "refc", dead.addr, false)?;
    // cluster without any backend
    w.add_cluster(cluster("nob"))?;
    w.add_http_frontend(front, "nob.test", "/", "nob")?;
    // frontend without a cluster: denied
    w.request_ok(RequestType::AddHttpFrontend(RequestHttpFrontend {
        cluster_id: None,
        address: front.into(),
        hostname: "deny.test".into(),
        path: PathRule::prefix("/".to_string()),
        position: RulePosition::Tree.into(),
        ..Default::default()
    }))?;
    // per-(cluster, ip) limit of one frontend connection
    let mut lim = cluster("lim");
    lim.max_connections_per_ip = Some(1);
    w.add_cluster(lim)?;
    w.add_http_frontend(front, "lim.test", "/", "lim")?;
    w.add_backend("lim", "lim-0", ok.addr)?;
    // ---- routing decisions that never reach a backend: redirects, denial, basic auth ----
    let fe = |host: &str, cluster: Option<&str>| RequestHttpFrontend {
        cluster_id: cluster.map(|c| c.to_string()),
        address: front.into(),
        hostname: host.into(),
        path: PathRule::prefix("/".to_string()),
        position: RulePosition::Tree.into(),
        ..Default::default()
    };
    // legacy cluster-level https redirect on an HTTP listener -> 301
    let mut red = cluster("red");
    red.https_redirect = true;
    w.add_cluster(red)?;
    w.add_http_frontend(front, "red.test", "/", "red")?;
    w.add_backend("red", "red-0", ok.addr)?;
    // frontend policy Found, no cluster at all, own template -> 302
    let mut f302 = fe("found.test", None);
    f302.redirect = Some(RedirectPolicy::Found as i32);
    f302.redirect_template = Some(
        "HTTP/1.1 302 Found\r\nLocation: %REDIRECT_LOCATION\r\nX-Custom: yes\r\nConnection: close\r\nSozu-Id: %REQUEST_ID\r\n\r\n".to_string(),
    );
    w.request_ok(RequestType::AddHttpFrontend(f302))?;
    // frontend policy PermanentRedirect wins over required_auth -> 308
    w.add_cluster(cluster("perm"))?;
    w.add_backend("perm", "perm-0", ok.addr)?;
    let mut f308 = fe("perm.test", Some("perm"));
    f308.redirect = Some(RedirectPolicy::PermanentRedirect as i32);
    f308.required_auth = Some(true);
    w.request_ok(RequestType::AddHttpFrontend(f308))?;
    // frontend policy Unauthorized although a cluster with a backend exists -> 401
    w.add_cluster(cluster("una"))?;
    w.add_backend("una", "una-0", ok.addr)?;
    let mut fun = fe("una.test", Some("una"));
    fun.redirect = Some(RedirectPolicy::Unauthorized as i32);
    w.request_ok(RequestType::AddHttpFrontend(fun))?;
    // basic auth
    let mut auth = cluster("auth");
    auth.authorized_hashes = vec![CRED_HASH.to_string()];
    auth.www_authenticate = Some("Basic realm=\"c02\"".to_string());
    w.add_cluster(auth)?;
    w.add_backend("auth", "auth-0", ok.addr)?;
    let mut fau = fe("auth.test", Some("auth"));
    fau.required_auth = Some(true);
    w.request_ok(RequestType::AddHttpFrontend(fau))?;
    // basic auth + per-IP limit of one: denial comes before the limit
    let mut la = cluster("limauth");
    la.authorized_hashes = vec![CRED_HASH.to_string()];
    la.max_connections_per_ip = Some(1);
    w.add_cluster(la)?;
    w.add_backend("limauth", "limauth-0", ok.addr)?;
    let mut fla = fe("limauth.test", Some("limauth"));
    fla.required_auth = Some(true);
    w.request_ok(RequestType::AddHttpFrontend(fla))?;
    // four refusing backends: the per-request retry budget (CONN_RETRIES) ends the attempts
    let mut dead4 = vec![];
    w.add_cluster(cluster("ref4"))?;
    w.add_http_frontend(front, "ref4.test", "/", "ref4")?;
    for k in 0..4 {
        let d = dead_addr()?;
        w.add_backend("ref4", &format!("ref4-{k}"), d.addr)?;
        dead4.push(d);
    }
    // ---- HTTPS listener: certificate `localhost`, the clusters as path prefixes ----
    for (prefix, cl) in [("/flt/", "flt"), ("/fltk/", "fltk"), ("/nob/", "nob"), ("/ref/", "refc"), ("/ok/", "okc")] {
        w.add_https_frontend(fronts, "localhost", prefix, cl)?;
    }
    let mut fd = RequestHttpFrontend {
        cluster_id: None,
        address: fronts.into(),
        hostname: "localhost".into(),
        path: PathRule::prefix("/deny/".to_string()),
        position: RulePosition::Tree.into(),
        ..Default::default()
    };
    fd.redirect = None;
    w.request_ok(RequestType::AddHttpsFrontend(fd))?;
    Ok(World { w, front, fronts, _dead4: dead4, flt, ok, _dead: dead })
}

fn host_of(route: &str) -> &'static str {
    match route {
        "flt" => "flt.test",
        "fltk" => "fltk.test",
        "unknown" => "nowhere.test",
        "nobackend" => "nob.test",
        "deny" => "deny.test",
        "refuse" => "ref.test",
        "refuse4" => "ref4.test",
        "limit" => "lim.test",
        "redir301" => "red.test",
        "redir302" => "found.test",
        "redir308" => "perm.test",
        "unauth" => "una.test",
        "auth" => "auth.test",
        "limauth" => "limauth.test",
        _ => "bad host%zz",
    }
}

/// the bytes of request `r`: plain listener = routed by Host; HTTPS listener = Host `localhost`
/// (the only name of the certificate), routed by the first path segment
fn request_bytes(r: &Req, tls: bool) -> Vec<u8> {
    match r.client.as_str() {
        "http10" => return format!("GET /r{} HTTP/1.0\r\n\r\n", r.i).into_bytes(),
        "junk" => return b"\x01\x02 not a request line\r\n\r\n".to_vec(),
        _ => {}
    }
    let (host, path) = if tls {
        let seg = match r.route.as_str() {
            "flt" => "flt",
            "fltk" => "fltk",
            "nobackend" => "nob",
            "refuse" => "ref",
            "deny" => "deny",
            _ => "nowhere",
        };
        let host = match r.route.as_str() {
            "sni421" => "other.test",
            "badhost" => "bad host%zz",
            _ => "localhost",
        };
        (host, format!("/{seg}/r{}", r.i))
    } else {
        (host_of(&r.route), format!("/r{}", r.i))
    };
    let auth = match r.client.as_str() {
        "cred" => format!("Authorization: Basic {CRED}\r\n"),
        "badcred" => "Authorization: Basic dXNlcjpub3Bl\r\n".to_string(),
        _ => String::new(),
    };
    format!("GET {path} HTTP/1.1\r\nHost: {host}\r\n{auth}X-Case: c02\r\n\r\n").into_bytes()
}

/// Ok(Some(t)): served; Ok(None): inconclusive (sozu answered 504: the bystander's own
/// scripted backend was not scheduled within the back timeout); Err: not served
fn bystander_once(front: SocketAddr) -> Result<Option<Duration>, String> {
    let t0 = Instant::now();
    let mut c = connect_client(front, false).map_err(|e| format!("connect: {e}"))?;
    c.write_all(b"GET /by HTTP/1.1\r\nHost: ok.test\r\n\r\n", Duration::from_secs(1))
        .map_err(|e| format!("write: {e}"))?;
    let o = observe(&mut c, t0, Duration::from_millis(3000), Duration::ZERO);
    if o.status == Some(200) && o.complete && o.body == OK_BODY {
        Ok(Some(t0.elapsed()))
    } else if o.status == Some(504) {
        Ok(None)
    } else {
        Err(format!("status {:?} complete {} after {:?}", o.status, o.complete, t0.elapsed()))
    }
}

fn bystander(front: SocketAddr) -> Result<Option<Duration>, String> {
    match bystander_once(front) {
        Ok(Some(t)) => Ok(Some(t)),
        _ => bystander_once(front),
    }
}

impl Faults {
    fn gen_req(&self, rng: &mut Rng, i: usize, thorough: bool) -> Req {
        let r = rng.below(100);
        if r < 22 {
            let route = *rng.pick(&["unknown", "nobackend", "deny", "refuse", "limit", "badhost", "redir301", "redir302",
                "redir308", "unauth", "auth", "limauth", "refuse4"]);
            let mut q = plain(i, route);
            if matches!(route, "auth" | "limauth" | "redir308") {
                q.client = rng.pick(&["full", "cred", "badcred"]).to_string();
            }
            return q;
        }
        if r < 27 {
            let mut q = plain(i, "flt");
            q.client = rng.pick(&["stallhead", "stallhead", "http10", "junk"]).to_string();
            return q;
        }
        let mut q = plain(i, "flt");
        q.shape = rng.pick(&["cl", "cl", "chunked", "chunked", "uc", "garbage"]).to_string();
        q.conn = rng.pick(&["ka", "close"]).to_string();
        if q.shape == "uc" && rng.chance(2, 3) {
            q.conn = "close".into();
        }
        let cuts: &[&str] = match q.shape.as_str() {
            "chunked" => &["accept1", "acceptall", "none", "status", "headers", "hdrend", "body", "chunkline", "beforelast", "full", "full"],
            "garbage" => &["full"],
            _ => &["accept1", "acceptall", "none", "status", "headers", "hdrend", "body", "body", "full", "full"],
        };
        q.cut = rng.pick(cuts).to_string();
        q.end = rng.pick(&["close", "close", "reset", "stall"]).to_string();
        if q.cut == "full" && q.shape != "uc" && q.shape != "garbage" && rng.chance(1, 2) {
            q.end = if q.conn == "ka" { "keep".into() } else { "close".into() };
        }
        if q.cut.starts_with("accept") {
            q.end = "close".into();
        }
        q.big = matches!(q.shape.as_str(), "cl" | "chunked" | "uc")
            && matches!(q.cut.as_str(), "body" | "full" | "beforelast")
            && rng.chance(if thorough { 1 } else { 1 }, 4);
        q
    }
}

fn ops_of(s: &Setup, reqs: &[Req]) -> Vec<String> {
    let mut v = vec![format!("new ft={} bt={} ct={} rt={} tls={}", s.ft, s.bt, s.ct, s.rt, s.tls as u8)];
    v.extend(reqs.iter().map(fmt_req));
    v
}

impl Area for Faults {
    fn name(&self) -> &'static str {
        "faults"
    }
    fn rule(&self) -> String {
        "black-box: fresh worker per case (HTTP listener, H1 client, H1 scripted backends, front/back/connect/request timeouts 1-2 s), 1-3 sequential requests per case; per request a routing outcome (unknown host, cluster without backend, clusterless frontend, refused backend, per-IP limit, malformed Host) or a backend fault = response shape (content-length / chunked / close-delimited / garbage; keep-alive or Connection: close; 26 B or 40 kB body) x cut class (close at accept once/always, before any byte, in status line, in headers, right after headers, mid-body, in chunk-size line, before last chunk, complete) x end action (close, reset, stall, keep-alive) or a client that never finishes its request head; non-trivial = at least one request meets a fault or a proxy-generated answer; distinct = distinct scenario text".into()
    }
    fn cases(&self, thorough: bool) -> u64 {
        if thorough {
            2400
        } else {
            230
        }
    }
    fn keep_prefix(&self) -> usize {
        1_000_000 // cases cost seconds: no shrinking (they are 1-3 requests anyway)
    }
    fn corpus(&self) -> Vec<Vec<String>> {
        let s = Setup { ft: 1, bt: 1, ct: 1, rt: 1, tls: false };
        let f = |shape: &str, conn: &str, cut: &str, end: &str| {
            let mut q = plain(0, "flt");
            q.shape = shape.into();
            q.conn = conn.into();
            q.cut = cut.into();
            q.end = end.into();
            q
        };
        let mut v = vec![];
        // every routing outcome
        for route in ["unknown", "nobackend", "deny", "refuse", "limit", "badhost"] {
            v.push(ops_of(&s, &[plain(0, route), plain(1, "flt")]));
        }
        // every cut class x end action for the length-delimited and chunked shapes
        for shape in ["cl", "chunked"] {
            for conn in ["ka", "close"] {
                for cut in ["none", "status", "headers", "hdrend", "body", "full"] {
                    for end in ["close", "reset", "stall"] {
                        v.push(ops_of(&s, &[f(shape, conn, cut, end), plain(1, "flt")]));
                    }
                }
            }
        }
        for conn in ["ka", "close"] {
            for cut in ["chunkline", "beforelast"] {
                v.push(ops_of(&s, &[f("chunked", conn, cut, "close"), plain(1, "flt")]));
            }
            for cut in ["hdrend", "body", "full"] {
                for end in ["close", "stall"] {
                    v.push(ops_of(&s, &[f("uc", conn, cut, end)]));
                }
            }
        }
        v.push(ops_of(&s, &[f("garbage", "ka", "full", "close"), plain(1, "flt")]));
        v.push(ops_of(&s, &[f("cl", "ka", "accept1", "close")]));
        v.push(ops_of(&s, &[f("cl", "ka", "acceptall", "close")]));
        // backend closes between keep-alive requests
        v.push(ops_of(&s, &[f("cl", "ka", "full", "close"), plain(1, "flt"), plain(2, "flt")]));
        v.push(ops_of(&s, &[f("cl", "ka", "full", "keep"), f("cl", "ka", "full", "reset"), plain(2, "flt")]));
        // a failed exchange on a session that survives it, then a follow-up to the same cluster:
        // the backend keeps its socket open and answers the failed request late
        let fk = |shape: &str, cut: &str, end: &str| {
            let mut q = f(shape, "ka", cut, end);
            q.route = "fltk".into();
            q
        };
        for first in [fk("garbage", "full", "late"), fk("cl", "none", "late"), fk("cl", "none", "stall"),
                      fk("cl", "status", "close"), fk("cl", "headers", "reset"), fk("garbage", "full", "stall")] {
            let sk = Setup { ft: 3, bt: 1, ct: 1, rt: 3, tls: false };
            v.push(ops_of(&sk, &[first.clone(), plain(1, "fltk"), plain(2, "fltk")]));
            v.push(ops_of(&sk, &[plain(0, "fltk"), { let mut q = first.clone(); q.i = 1; q }, plain(2, "fltk")]));
        }
        // routing decisions in front of any backend: redirects, denial, credentials, limits
        for route in ["redir301", "redir302", "redir308", "unauth", "refuse4", "auth", "limauth"] {
            v.push(ops_of(&s, &[plain(0, route), plain(1, "flt")]));
        }
        for (route, client) in [("auth", "cred"), ("auth", "badcred"), ("limauth", "cred"), ("limauth", "badcred"), ("redir308", "cred")] {
            let mut q = plain(0, route);
            q.client = client.into();
            v.push(ops_of(&s, &[q, plain(1, "flt")]));
        }
        // an interim 103 before the final response: still exactly one final answer, intact
        v.push(ops_of(&s, &[f("cl103", "ka", "full", "keep"), plain(1, "flt")]));
        v.push(ops_of(&s, &[f("cl103p", "ka", "full", "keep"), plain(1, "flt")]));
        v.push(ops_of(&s, &[f("cl103p", "close", "full", "close"), plain(1, "flt")]));
        // requests that do not parse / lack what a request needs
        for client in ["http10", "junk"] {
            let mut q = plain(0, "flt");
            q.client = client.into();
            v.push(ops_of(&s, &[q.clone(), plain(1, "flt")]));
            let mut q1 = q.clone();
            q1.i = 1;
            v.push(ops_of(&s, &[plain(0, "flt"), q1]));
        }
        // two requests in one write (the second is parsed from sozu's buffer when the first is done)
        {
            let mut p0 = plain(0, "flt");
            p0.client = "pipe".into();
            v.push(ops_of(&s, &[p0.clone(), plain(1, "flt"), plain(2, "flt")]));
            let mut p1 = p0.clone();
            p1.shape = "chunked".into();
            let mut second = f("cl", "ka", "none", "close");
            second.i = 1;
            v.push(ops_of(&s, &[p1.clone(), second, plain(2, "flt")]));
            let mut second = plain(1, "unknown");
            second.i = 1;
            v.push(ops_of(&s, &[p1, second]));
        }
        // the client does not read a response larger than every buffer on the way: whichever
        // timer fires first ends it; and a backend stalled mid-response with the front timer first
        for (ft, bt) in [(1, 3), (3, 1)] {
            let sk = Setup { ft, bt, ct: 1, rt: 3, tls: false };
            let mut q = plain(0, "flt");
            q.client = "noread".into();
            v.push(ops_of(&sk, &[q]));
        }
        for (shape, cut) in [("cl", "body"), ("chunked", "body"), ("cl", "hdrend"), ("uc", "body")] {
            v.push(ops_of(&Setup { ft: 1, bt: 3, ct: 1, rt: 1, tls: false }, &[f(shape, "ka", cut, "stall"), plain(1, "flt")]));
        }
        // ---- the same over the HTTPS listener (H1 over TLS) ----
        {
            let st = Setup { ft: 1, bt: 1, ct: 1, rt: 1, tls: true };
            for route in ["unknown", "nobackend", "deny", "refuse", "sni421", "badhost"] {
                v.push(ops_of(&st, &[plain(0, route), plain(1, "flt")]));
            }
            for (shape, conn, cut, end) in [
                ("cl", "ka", "none", "close"), ("cl", "ka", "headers", "stall"), ("cl", "ka", "body", "close"),
                ("cl", "close", "body", "close"), ("chunked", "ka", "body", "reset"), ("chunked", "close", "hdrend", "close"),
                ("uc", "close", "full", "close"), ("cl", "ka", "body", "stall"), ("garbage", "ka", "full", "close"),
                ("cl", "ka", "full", "close"), ("chunked", "ka", "full", "keep"),
            ] {
                v.push(ops_of(&st, &[f(shape, conn, cut, end), plain(1, "flt"), plain(2, "flt")]));
            }
            let mut big = f("cl", "ka", "full", "keep");
            big.big = true;
            v.push(ops_of(&st, &[big, plain(1, "flt")]));
            let mut sh = plain(0, "flt");
            sh.client = "stallhead".into();
            v.push(ops_of(&st, &[sh]));
            let stk = Setup { ft: 3, bt: 1, ct: 1, rt: 3, tls: true };
            v.push(ops_of(&stk, &[fk("garbage", "full", "late"), plain(1, "fltk"), plain(2, "fltk")]));
            v.push(ops_of(&stk, &[fk("cl", "none", "late"), plain(1, "fltk")]));
        }
        // client never finishes its request head (first request, then after a keep-alive one)
        let mut st = plain(0, "flt");
        st.client = "stallhead".into();
        v.push(ops_of(&s, &[st.clone()]));
        let mut st1 = st.clone();
        st1.i = 1;
        v.push(ops_of(&s, &[plain(0, "flt"), st1]));
        // different timers
        v.push(ops_of(&Setup { ft: 2, bt: 1, ct: 1, rt: 1, tls: false }, &[f("cl", "ka", "none", "stall")]));
        v.push(ops_of(&Setup { ft: 1, bt: 2, ct: 1, rt: 2, tls: false }, &[f("cl", "ka", "none", "stall")]));
        // big bodies
        let mut b = f("cl", "close", "body", "close");
        b.big = true;
        v.push(ops_of(&s, &[b.clone()]));
        b.conn = "ka".into();
        v.push(ops_of(&s, &[b.clone()]));
        b.cut = "full".into();
        b.end = "keep".into();
        v.push(ops_of(&s, &[b, plain(1, "flt")]));
        v
    }
    fn gen(&self, rng: &mut Rng, thorough: bool) -> Vec<String> {
        if rng.chance(12, 100) {
            // H1 over TLS: the routes the HTTPS listener knows
            let st = Setup { ft: 1, bt: 1, ct: 1, rt: 1, tls: true };
            let n = rng.range(1, 3) as usize;
            let mut reqs: Vec<Req> = vec![];
            for i in 0..n {
                let mut q = self.gen_req(rng, i, thorough);
                if !matches!(q.route.as_str(), "flt" | "unknown" | "nobackend" | "deny" | "refuse" | "badhost") {
                    q = plain(i, "sni421");
                }
                if !matches!(q.client.as_str(), "full" | "stallhead") {
                    q.client = "full".into();
                }
                let last = q.cut.starts_with("accept");
                reqs.push(q);
                if last {
                    break;
                }
            }
            return ops_of(&st, &reqs);
        }
        if rng.chance(12, 100) {
            // failure on a surviving session, then follow-ups to the same cluster
            let sk = Setup { ft: 3, bt: 1, ct: 1, rt: 3, tls: false };
            let mut first = plain(0, "fltk");
            match rng.below(6) {
                0 | 1 => {
                    first.shape = "garbage".into();
                    first.end = rng.pick(&["late", "late", "stall", "close"]).to_string();
                }
                2 | 3 => {
                    first.cut = rng.pick(&["none", "status", "headers"]).to_string();
                    first.end = rng.pick(&["late", "stall"]).to_string();
                    if first.end == "late" {
                        first.cut = "none".into();
                    }
                }
                _ => {
                    first.cut = rng.pick(&["none", "status", "headers"]).to_string();
                    first.end = rng.pick(&["close", "reset"]).to_string();
                    first.shape = rng.pick(&["cl", "chunked"]).to_string();
                }
            }
            let mut reqs = vec![];
            if rng.chance(1, 2) {
                reqs.push(plain(0, "fltk"));
            }
            first.i = reqs.len();
            reqs.push(first);
            for _ in 0..rng.range(1, 2) {
                reqs.push(plain(reqs.len(), "fltk"));
            }
            return ops_of(&sk, &reqs);
        }
        let s = Setup {
            ft: *rng.pick(&[1, 1, 1, 2]),
            bt: *rng.pick(&[1, 1, 1, 2]),
            ct: 1,
            rt: *rng.pick(&[1, 1, 2]),
            tls: false,
        };
        let n = rng.range(1, 3) as usize;
        let mut reqs: Vec<Req> = vec![];
        for i in 0..n {
            let q = self.gen_req(rng, i, thorough);
            // connections closed at accept feed the backend's failure counter (circuit
            // breaker, property C12): what later requests of the same worker get is then a
            // matter of back-off timing, so such a request ends its case
            let last = q.cut.starts_with("accept");
            reqs.push(q);
            if last {
                break;
            }
        }
        ops_of(&s, &reqs)
    }
    fn lines_agree(&self, impl_line: &str, model_line: &str) -> bool {
        // impl: `obs <token>`; model: `adm <tok>,<tok>,...`
        if let (Some(o), Some(a)) = (impl_line.strip_prefix("obs "), model_line.strip_prefix("adm ")) {
            let tok = o.split_whitespace().next().unwrap_or("");
            if tok == "inconclusive" {
                return true;
            }
            return a.split_whitespace().next().unwrap_or("").split(',').any(|t| t == tok);
        }
        impl_line == model_line
    }
    fn classify_mismatch(&self, ops: &[String], impl_out: &[String], model_out: &[String]) -> String {
        for (i, (a, b)) in impl_out.iter().zip(model_out.iter()).enumerate() {
            if !self.lines_agree(a, b) {
                if let Some(r) = ops.get(i).and_then(|l| parse_req(l)) {
                    return format!("model-mismatch:{}:{}:{}:{}:{}", r.route, r.shape, r.conn, r.cut, r.end);
                }
            }
        }
        "model-mismatch".into()
    }
    fn run_impl(&self, ops: &[String]) -> ImplRun {
        let mut run = ImplRun::default();
        let Some(setup) = ops.first().and_then(|l| parse_setup(l)) else {
            run.out = ops.iter().map(|_| "bad-op".to_string()).collect();
            return run;
        };
        // (ephemeral ports can run out for a moment when several rig users share the machine)
        let mut attempt = 0;
        let mut world = loop {
            match build_world(&setup) {
                Ok(w) => break w,
                Err(e) if attempt < 5 => {
                    attempt += 1;
                    run.tags.push("rig-setup-retried".into());
                    let _ = e;
                    thread::sleep(Duration::from_millis(if std::env::var("C02_FORCE_SETUP_FAIL").is_ok() { 1 } else { 1500 }));
                }
                Err(e) => {
                    // nothing of this case ever reached sozu: it says nothing about the
                    // property (counted; the run fails when more than 5 % of the cases end so)
                    let _ = e;
                    run.tags.push("inconclusive:rig-setup-failed".into());
                    run.out.push("ok".into());
                    for line in &ops[1..] {
                        run.out.push(if parse_req(line).is_some() { "obs inconclusive".into() } else { "bad-op".into() });
                    }
                    return run;
                }
            }
        };
        run.out.push("ok".into());
        let front = world.front;
        let mut conn: Option<Client> = None;
        // a request already on the wire (pipelined with the previous one)
        let mut presented: Option<usize> = None;
        let mut holders: Vec<Client> = vec![];
        // the session's keep-alive backend connection belongs to a peer that stopped reading
        let mut stalled_backend = false;
        // backend connections (serials) that carried an exchange which did not end well
        let mut failed_conns: Vec<(usize, String)> = vec![];
        for line in &ops[1..] {
            let Some(r) = parse_req(line) else {
                run.out.push("bad-op".into());
                continue;
            };
            run.tags.push(format!("route:{}", r.route));
            if is_flt(&r) && complete_req(&r) {
                run.tags.push(format!("fault:{}:{}:{}:{}", r.shape, r.conn, r.cut, r.end));
                if r.big {
                    run.tags.push("big-body".into());
                }
            }
            if !complete_req(&r) {
                run.tags.push(format!("client:{}", r.client));
            }
            if !(is_flt(&r) && complete_req(&r) && r.cut == "full" && r.shape != "garbage") {
                run.nontrivial = true;
            }
            // arm the backend
            world.flt.plan.lock().unwrap().insert(r.i, r.clone());
            world.flt.late_ms.store(
                // well after the back timer even when sozu's thread runs late (the lag monitor voids
                // requests that met a scheduling gap of more than 0.4 s)
                if r.shape == "garbage" { 150 } else { setup.bt as usize * 1000 + 500 },
                Ordering::SeqCst,
            );
            world.flt.accept_close.store(
                match r.cut.as_str() {
                    "accept1" => 1,
                    "acceptall" => usize::MAX,
                    _ => 0,
                },
                Ordering::SeqCst,
            );
            let front_for_case = if setup.tls { world.fronts } else { front };
            if r.route == "limit" || (r.route == "limauth" && r.client == "cred") {
                let hold_req = if r.route == "limit" {
                    "GET /hold HTTP/1.1\r\nHost: lim.test\r\n\r\n".to_string()
                } else {
                    format!("GET /hold HTTP/1.1\r\nHost: limauth.test\r\nAuthorization: Basic {CRED}\r\n\r\n")
                };
                // (a holder left idle is closed by sozu's front timer: take a fresh one)
                holders.clear();
                // another frontend connection of this IP already holds the cluster's only slot
                // (part of the set-up of this request: if it cannot be had, the request says nothing)
                let mut held = false;
                for _ in 0..3 {
                    if let Ok(mut h) = connect_client(front, false) {
                        let _ = h.write_all(hold_req.as_bytes(), Duration::from_secs(1));
                        let ho = observe(&mut h, Instant::now(), Duration::from_secs(3), Duration::ZERO);
                        if ho.status == Some(200) {
                            holders.push(h);
                            held = true;
                            break;
                        }
                    }
                    thread::sleep(Duration::from_millis(300));
                }
                if !held {
                    run.tags.push("inconclusive:limit-holder-setup-failed".into());
                    run.out.push("obs inconclusive".into());
                    continue;
                }
            }
            let first_on_conn = conn.is_none();
            if conn.is_none() {
                stalled_backend = false;
                failed_conns.clear();
                presented = None;
                match connect_client(front_for_case, setup.tls) {
                    Ok(c) => conn = Some(c),
                    Err(e) => {
                        // the request never went on the wire; a worker that really stopped
                        // accepting is still reported by the `worker-not-alive` check below
                        let _ = e;
                        run.tags.push("inconclusive:front-connect-failed".into());
                        run.out.push("obs inconclusive".into());
                        continue;
                    }
                }
            }
            let c = conn.as_mut().unwrap();
            let mut reqbytes = request_bytes(&r, setup.tls);
            if r.client == "stallhead" {
                let n = reqbytes.len() - 9;
                reqbytes.truncate(n);
            }
            let already_sent = presented == Some(r.i);
            presented = None;
            if r.client == "pipe" {
                // the next request travels in the same write
                if let Some(next) = ops.iter().skip(1).filter_map(|l| parse_req(l)).find(|q| q.i == r.i + 1) {
                    world.flt.plan.lock().unwrap().insert(next.i, next.clone());
                    reqbytes.extend_from_slice(&request_bytes(&next, setup.tls));
                    presented = Some(next.i);
                }
            }
            let t0 = Instant::now();
            let wrote = if already_sent { Ok(()) } else { c.write_all(&reqbytes, Duration::from_secs(1)) };
            if r.client == "noread" {
                // do not read until both timers had their chance
                thread::sleep(Duration::from_millis((setup.ft + setup.bt) as u64 * 1000 + 700));
            }
            let bound = if stalled_backend && is_flt(&r) && complete_req(&r) {
                Duration::from_secs((setup.bt + setup.ft) as u64) + Duration::from_millis(2500)
            } else {
                time_bound(&r, &setup, first_on_conn)
            };
            // a well-behaved request on another connection while this one is in trouble
            let by = if r.end == "stall" || !complete_req(&r) || r.client == "noread" {
                thread::sleep(Duration::from_millis(50));
                Some(bystander(front))
            } else {
                None
            };
            let o = if wrote.is_err() {
                Obs { end: "closed".into(), framing: "none".into(), ..Default::default() }
            } else {
                observe(c, t0, bound + Duration::from_millis(1000), Duration::from_millis(150))
            };
            let (_full, body, _hl) = full_response(&r, 0);
            let expected_body: &[u8] = if is_flt(&r) { &body } else { OK_BODY };
            let tok = token(&o, expected_body);
            let kind = tok.split('/').next().unwrap_or("").to_string();
            // on an overloaded machine the scripted backend may not get to read the request
            // before sozu's back timer fires: sozu's 504 is then right and says nothing about
            // the scenario (counted; more than a handful per run is itself reported)
            let backend_acts = is_flt(&r) && complete_req(&r) && !r.cut.starts_with("accept");
            if backend_acts && !reuses_stalled_now(stalled_backend, &r) && failed_conns.is_empty() && kind == "default:504" && world.flt.hits(r.i) == 0 {
                run.tags.push("inconclusive:backend-not-scheduled".into());
                run.out.push("obs inconclusive".into());
                if let Some(c) = conn.take() {
                    c.close();
                }
                continue;
            }
            let by = by.unwrap_or_else(|| bystander(front));
            if lagged_since(t0) {
                run.tags.push("inconclusive:machine-overloaded".into());
                run.out.push("obs inconclusive".into());
                if let Some(c) = conn.take() {
                    c.close();
                }
                // whatever state the session is in, the next request starts afresh
                world.flt.accept_close.store(0, Ordering::SeqCst);
                continue;
            }
            run.tags.push(format!("outcome:{kind}"));
            run.out.push(format!(
                "obs {tok} framing={} got={} hits={} bconns={:?} xreq={:?} t={}ms",
                o.framing,
                o.body.len(),
                world.flt.hits(r.i),
                world.flt.conns_of(r.i),
                o.x_req,
                o.t_done.as_millis()
            ));
            // ------------------------------------------------ property oracles --
            let what = format!("{} -> {tok} (framing {}, {} body bytes, end {}, {:?})", fmt_req(&r), o.framing, o.body.len(), o.end, o.t_done);
            let reuses_stalled = stalled_backend && is_flt(&r) && complete_req(&r);
            let allowed = if reuses_stalled { vec!["default:504"] } else { property_allows(&r, first_on_conn, setup.tls) };
            let known = known_defect(&r, &kind, &o);
            let mut found: Vec<(String, String)> = vec![];
            if !allowed.iter().any(|a| *a == kind) {
                let class = match kind.as_str() {
                    "hang" | "truncated-open" | "partial-head-open" => format!("unanswered-past-timeouts:{}:{}:{}", r.shape, r.cut, r.end),
                    "truncated-as-complete" | "corrupt" | "abort-corrupt" => format!("truncated-presented-complete:{}:{}:{}", r.shape, r.conn, r.cut),
                    "none" | "abort-head" => format!("closed-without-answer:{}:{}:{}", r.route, r.cut, r.end),
                    k if k.starts_with("default:") => format!("status-mismatch:{}:{}:{}:{}", r.route, r.cut, r.end, k),
                    k => format!("unexpected-outcome:{}:{}:{}:{}", r.shape, r.cut, r.end, k),
                };
                found.push((class, format!("allowed {allowed:?}; {what}")));
            }
            if let Some(m) = &o.malformed {
                found.push(("malformed-answer".into(), format!("{m}; {what}")));
            }
            // (if this thread was descheduled for about a front timeout between the end of the
            // answer and the end of the look-out for extra bytes, sozu's 408 for the idle
            // connection is legitimate)
            let idle_timeout_hit = o.t_linger_end.saturating_sub(o.t_done) + Duration::from_millis(300) >= Duration::from_secs(setup.ft.min(setup.rt) as u64);
            if o.extra > 0 && idle_timeout_hit {
                run.tags.push("inconclusive:harness-descheduled-idle-408".into());
            } else if o.extra > 0 {
                found.push(("more-than-one-answer".into(), format!("{} extra bytes after the complete answer; {what}", o.extra)));
            }
            // a proxy-generated answer: HTTP/1.1 status line, Sozu-Id, and either a length or
            // `Connection: close` + the connection really closed after the body
            if kind.starts_with("default:")
                && !(o.sozu_id && (o.framing.starts_with("cl:") || (o.framing == "uc" && o.conn_close_hdr && o.end != "open")))
            {
                found.push(("default-answer-not-well-formed".into(), what.clone()));
            }
            // a length-delimited body that stopped short must never be followed by a
            // clean keep-alive continuation
            let short_cl = o.head_complete && o.status == Some(200) && o.framing.starts_with("cl:") && !o.complete;
            if short_cl && o.end == "open" {
                found.push((format!("short-body-connection-kept-open:{}:{}", r.conn, r.end), what.clone()));
            }
            if o.t_done > bound && kind != "hang" && kind != "truncated-open" {
                found.push((format!("late-answer:{}:{}:{}", r.route, r.cut, r.end), format!("bound {bound:?}; {what}")));
            }
            if kind == "default:504" && o.t_done + Duration::from_millis(300) < Duration::from_secs(setup.bt.min(setup.ft) as u64) {
                found.push(("timeout-answer-too-early".into(), what.clone()));
            }
            // ---- the generated answer says what its cause needs ----
            let loc_want = match r.route.as_str() {
                "redir301" => Some(format!("https://red.test/r{}", r.i)),
                "redir302" => Some(format!("http://found.test/r{}", r.i)),
                "redir308" => Some(format!("http://perm.test/r{}", r.i)),
                _ => None,
            };
            if let Some(want) = loc_want {
                if kind.starts_with("default:3") && o.location.as_deref() != Some(want.as_str()) {
                    found.push(("redirect-location-wrong".into(), format!("Location {:?}, wanted {want:?}; {what}", o.location)));
                }
                if r.route == "redir302" && kind == "default:302" && !o.x_custom {
                    found.push(("frontend-redirect-template-ignored".into(), what.clone()));
                }
            }
            if r.route == "auth" && kind == "default:401" && o.www_authenticate.as_deref() != Some("Basic realm=\"c02\"") {
                found.push(("www-authenticate-missing".into(), format!("{:?}; {what}", o.www_authenticate)));
            }
            // ---- a failure of one request must not leak into the next one ----
            // (the scripted backend numbers its connections and tags every answer with the
            // request it answers and the connection it is sent on)
            let mut stale_after: Option<String> = None;
            if is_flt(&r) && complete_req(&r) {
                let mine = world.flt.conns_of(r.i);
                if let Some((c, why)) = failed_conns.iter().find(|(c, _)| mine.contains(c)) {
                    stale_after = Some(why.clone());
                    found.push((
                        "stale-backend-connection-reused".into(),
                        format!("backend connection #{c} had carried a failed exchange ({why}) and was handed to this request; {what}"),
                    ));
                } else if !failed_conns.is_empty() && mine.is_empty() && kind == "default:504" && !r.cut.starts_with("accept") {
                    // the request was never read by the backend although the session has no
                    // reason to wait: it was written to a connection whose peer still sits in
                    // the failed exchange
                    let (c, why) = failed_conns.last().cloned().unwrap();
                    stale_after = Some(why.clone());
                    found.push((
                        "stale-backend-connection-reused".into(),
                        format!("no backend connection ever delivered this request; the session's connection #{c} had carried a failed exchange ({why}); {what}"),
                    ));
                }
                if o.status == Some(200) {
                    if let Some(x) = o.x_req {
                        if x != r.i {
                            found.push((
                                "previous-answer-delivered-to-next-request".into(),
                                format!("the answer is the backend's answer to request {x} (backend connection {:?}); {what}", o.x_bconn),
                            ));
                        }
                    }
                }
                if kind != "relayed" || stale_after.is_some() {
                    let why = stale_after.clone().unwrap_or_else(|| kind.clone());
                    failed_conns.extend(mine.into_iter().map(|c| (c, why.clone())));
                }
            }
            // found in the unchanged code: a request pipelined with the previous one is answered 408
            let known = if already_sent && kind == "default:408" && complete_req(&r) {
                Some("pipelined-request-answered-408")
            } else {
                known
            };
            let leak = stale_after.is_some() || (already_sent && kind == "default:408");
            // known defect of the unchanged code: after a back-timer 504 the connection is parked
            let known = if stale_after.as_deref() == Some("default:504") {
                Some("timed-out-backend-connection-parked-and-reused")
            } else {
                known
            };
            for (class, detail) in found {
                // the consequences of a known defect are reported under its fingerprint
                let consequence = (r.shape == "cl103" && class.starts_with("status-mismatch"))
                    || (leak && (class == "stale-backend-connection-reused"
                    || class == "previous-answer-delivered-to-next-request"
                    || class.starts_with("status-mismatch")))
                    || class.starts_with("truncated-presented-complete")
                    || class.starts_with("closed-without-answer")
                    || class == "more-than-one-answer"
                    || class == "malformed-answer"
                    || class.starts_with("short-body-connection-kept-open")
                    || class.starts_with("late-answer")
                    || class.starts_with("unexpected-outcome");
                match known {
                    Some(k) if consequence => run.oracle.push((k.to_string(), detail)),
                    _ => run.oracle.push((class, detail)),
                }
            }
            if let Some(k) = known {
                run.tags.push(format!("known-defect:{k}"));
            }
            match by {
                Ok(Some(_)) => {}
                Ok(None) => run.tags.push("inconclusive:bystander-backend-not-scheduled".into()),
                Err(e) => run.oracle.push((format!("bystander-not-served:{}:{}", r.cut, r.end), format!("{e}; during {}", fmt_req(&r)))),
            }
            if kind == "relayed" && o.end == "open" && is_flt(&r) {
                stalled_backend = r.end == "stall" && r.conn == "ka";
            }
            // the next request needs a usable connection
            if o.end != "open" || !o.complete || o.extra > 0 || o.conn_close_hdr && o.status != Some(200) {
                if let Some(c) = conn.take() {
                    c.close();
                }
            }
            world.flt.accept_close.store(0, Ordering::SeqCst);
        }
        match world.w.alive() {
            Health::Alive(_) => {}
            h => run.oracle.push(("worker-not-alive".into(), format!("{h:?} after {}", ops.join(" ; ")))),
        }
        drop(conn);
        drop(holders);
        world.flt.shutdown();
        world.ok.shutdown();
        let _ = world.flt.accepted.load(Ordering::SeqCst);
        world.w.stop();
        run
    }
}

fn main() {
    silence_worker_panics();
    start_lag_monitor();
    let args = parse_args();
    if args.extra.contains_key("probe") {
        // print what the real worker does for the corpus (no model)
        let a = Faults;
        let cases = a.corpus();
        let n: usize = args.extra.get("probe").and_then(|s| s.parse().ok()).unwrap_or(cases.len());
        let results: Vec<(Vec<String>, ImplRun)> = thread::scope(|s| {
            let hs: Vec<_> = cases
                .chunks(cases.len().div_ceil(16).max(1))
                .map(|cs| s.spawn(move || cs.iter().map(|c| (c.clone(), Faults.run_impl(c))).collect::<Vec<_>>()))
                .collect();
            hs.into_iter().flat_map(|h| h.join().unwrap()).collect()
        });
        for (ops, r) in results.iter().take(n) {
            for (i, o) in ops.iter().enumerate() {
                println!("{o}\n    => {}", r.out.get(i).cloned().unwrap_or_default());
            }
            for (c, d) in &r.oracle {
                println!("    ORACLE {c}: {d}");
            }
        }
        return;
    }
    // a replay file of the in-process half (`answers`) is not ours to judge
    if let Some(path) = &args.replay {
        if read_replay_ops(path).iter().any(|l| l.starts_with("esdp ") || l.starts_with("resp ") || l.starts_with("tmpl ")) {
            if !args.out.is_empty() {
                let _ = std::fs::write(&args.out, r#"{"area":"faults","evaluations":0,"failures":[],"note":"replay belongs to the answers run"}"#);
            }
            std::process::exit(0);
        }
    }
    let mut rc = run_area(&Faults, &args);
    // guard of the `inconclusive` escape: it must stay rare
    if !args.out.is_empty() && args.replay.is_none() {
        if let Ok(txt) = std::fs::read_to_string(&args.out) {
            if let Ok(mut v) = serde_json::from_str::<serde_json::Value>(&txt) {
                let inc: u64 = v["distribution"]
                    .as_object()
                    .map(|m| m.iter().filter(|(k, _)| k.starts_with("inconclusive:")).filter_map(|(_, n)| n.as_u64()).sum())
                    .unwrap_or(0);
                let n = v["evaluations"].as_u64().unwrap_or(0);
                if inc * 20 > n.max(20) {
                    let f = serde_json::json!({"kind": "oracle", "class": "harness-inconclusive",
                        "detail": format!("{inc} inconclusive requests in {n} cases (machine overloaded: scripted peers or sozu not scheduled on time)"),
                        "case": -1, "ops": [], "impl_out": [], "model_out": []});
                    if let Some(a) = v["failures"].as_array_mut() {
                        a.push(f);
                    }
                    let _ = std::fs::write(&args.out, serde_json::to_string_pretty(&v).unwrap());
                    println!("FAIL oracle harness-inconclusive {inc} of {n}");
                    rc = 1;
                }
            }
        }
    }
    std::process::exit(rc);
}
