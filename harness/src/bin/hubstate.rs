//! C05 / C06 / C07 on the MAIN PROCESS: a real `CommandHub` (the rig of
//! `hubrig.rs`) with 0–2 fake workers that acknowledge what they are sent. The
//! `ConfigState` logic itself is tied to its Lean model by `bin/state.rs`;
//! this harness exercises the code of `bin/src/command/requests.rs` that USES
//! it: `worker_request` (apply to the main state, then scatter), `save_state`
//! (file format), `load_state` (the read loop, what is scattered to the
//! workers), the query verbs, and what is left in the main state when a
//! command is answered with a failure.
//!
//! There is no Lean driver here: the reference is an in-process `ConfigState`
//! fed the same commands (same code as the hub's own state, verified
//! elsewhere) and the property oracles below.
#[path = "../hubrig.rs"]
mod hubrig;
#[path = "../state_codec.rs"]
mod codec;

use std::collections::{BTreeMap, BTreeSet};
use std::io::Write;
use std::sync::OnceLock;
use std::time::{Duration, Instant};

use codec::*;
use hubrig::*;
use serde_json::{json, Value};
use sozu_command_lib::proto::command::{
    request::RequestType, response_content::ContentType, FrontendFilters, ListListeners, QueryCertificatesFilters,
    QueryClustersHashes, QueryHealthChecks, Request, Response, ResponseStatus, WorkerRequest,
};
use sozu_command_lib::state::ConfigState;
use verif_harness::*;

static PEMS: OnceLock<Pems> = OnceLock::new();
fn pems() -> &'static Pems {
    PEMS.get_or_init(|| load_pems(&std::env::var("VERIF_REPO").unwrap_or_else(|_| "/repo".into())))
}

// ------------------------------------------------------------ generator ----
// (copied from bin/state.rs, which owns it: command lines in the State codec's syntax)

struct Gen;

const KN: &str = "-,-,-,-,-,-,-,-,-,-,-,-,-,-,-,-,-,-";

struct Shadow {
    addrs: Vec<u64>,
    listeners: [BTreeSet<u64>; 4],
    clusters: BTreeSet<u64>,
    backends: BTreeSet<(u64, u64, u64)>,
    certs: BTreeSet<(u64, u64)>,
    fronts: Vec<String>,
    tfs: BTreeSet<(bool, u64, u64, u64)>,
}

fn knob_min(i: usize) -> u64 {
    if i == 6 || i == 15 || i == 16 { 0 } else if i == 8 { 2 } else { 1 }
}

fn g_opt(rng: &mut Rng, p: u64, f: impl FnOnce(&mut Rng) -> String) -> String {
    if rng.chance(p, 100) { f(rng) } else { "-".into() }
}
fn g_addr(rng: &mut Rng, sh: &Shadow) -> u64 {
    let a = *rng.pick(&sh.addrs);
    if rng.chance(1, 12) { a + 16 } else { a }
}
fn g_answers(rng: &mut Rng) -> String {
    if rng.chance(3, 4) {
        return "-".into();
    }
    (0..12).map(|_| if rng.chance(1, 4) { rng.below(3).to_string() } else { "-".into() }).collect::<Vec<_>>().join(",")
}
fn g_knobs(rng: &mut Rng, dens: u64, bad_at: Option<usize>) -> String {
    (0..NKNOBS)
        .map(|i| {
            if bad_at == Some(i) {
                (knob_min(i) - 1).to_string()
            } else if rng.chance(dens, 100) {
                (knob_min(i) + rng.below(3) * 7).to_string()
            } else {
                "-".into()
            }
        })
        .collect::<Vec<_>>()
        .join(",")
}
const GOOD_SID: [&str; 3] = ["Sozu-Id", "x", "X-Req.1~"];
const BAD_SID: [&str; 5] = ["", "a:b", "a b", "h\u{e9}", "a\r\n"];
fn sidw(s: &str) -> String {
    format!("x{}", verif_hex(s.as_bytes()))
}

fn g_httpl(rng: &mut Rng, sh: &Shadow, https: bool) -> String {
    let a = g_addr(rng, sh);
    let alpn = if https && rng.chance(1, 3) { ["0", "1", "0,1", "1,0"][rng.below(4) as usize].to_string() } else { "-".into() };
    format!(
        "{} {} {} {} {} {} {} {} {} {} {} {} {} {} {} {} {}",
        if https { "addhttpsl" } else { "addhttpl" },
        a,
        g_opt(rng, 20, |r| r.below(20).to_string()),
        rng.below(2),
        rng.below(3),
        *rng.pick(&[60u64, 5, 0]),
        *rng.pick(&[30u64, 7]),
        *rng.pick(&[3u64, 4, 1]),
        *rng.pick(&[10u64, 12, 2]),
        rng.below(2),
        g_answers(rng),
        alpn,
        if https { g_opt(rng, 20, |r| r.below(2).to_string()) } else { "-".into() },
        if https { g_opt(rng, 20, |r| r.below(2).to_string()) } else { "-".into() },
        if rng.chance(1, 3) { g_knobs(rng, 20, None) } else { KN.to_string() },
        g_opt(rng, 15, |r| sidw(*r.pick(&GOOD_SID[..]))),
        rng.below(4)
    )
}

/// listener patch; `bad`: 0 none, 1 knob below minimum, 2 alpn unknown (https), 3 sozu_id_header invalid
fn g_patch(rng: &mut Rng, a: u64, https: bool, bad: u64) -> String {
    let dens = *rng.pick(&[0u64, 30, 60, 100]);
    let bad_knob = if bad == 1 {
        let cands: Vec<usize> = (0..NKNOBS).filter(|i| knob_min(*i) > 0).collect();
        Some(*rng.pick(&cands))
    } else {
        None
    };
    let mut w = vec![
        (if https { "updhttpsl" } else { "updhttpl" }).to_string(),
        a.to_string(),
        g_opt(rng, dens / 2, |r| r.below(20).to_string()),
        g_opt(rng, dens, |r| r.below(2).to_string()),
        g_opt(rng, dens, |r| r.below(3).to_string()),
        g_opt(rng, dens, |r| r.pick(&[5u64, 61, 0]).to_string()),
        g_opt(rng, dens, |r| r.pick(&[31u64, 8]).to_string()),
        g_opt(rng, dens, |r| r.pick(&[4u64, 9]).to_string()),
        g_opt(rng, dens, |r| r.pick(&[11u64, 2]).to_string()),
        if rng.chance(dens, 200) { (0..12).map(|_| if rng.chance(1, 3) { rng.below(3).to_string() } else { "-".into() }).collect::<Vec<_>>().join(",") } else { "-".into() },
    ];
    if https {
        w.push(if bad == 2 {
            ["5", "0,5", "5,1", "1,0,7"][rng.below(4) as usize].to_string()
        } else if rng.chance(dens, 150) {
            ["e", "0", "1", "0,1"][rng.below(4) as usize].to_string()
        } else {
            "-".into()
        });
        w.push(g_opt(rng, dens, |r| r.below(2).to_string()));
        w.push(g_opt(rng, dens, |r| r.below(2).to_string()));
    }
    w.push(g_knobs(rng, dens / 2, bad_knob));
    w.push(if bad == 3 { sidw(*rng.pick(&BAD_SID[..])) } else { g_opt(rng, dens / 2, |r| sidw(*r.pick(&GOOD_SID[..]))) });
    w.push(if rng.chance(1, 5) { (1 + rng.below(3)).to_string() } else { "0".into() });
    w.join(" ")
}

fn g_front(rng: &mut Rng, sh: &Shadow) -> String {
    format!(
        "{} {} {} {} {} {} {} {} {}",
        g_opt(rng, 80, |r| r.below(4).to_string()),
        g_addr(rng, sh),
        rng.below(4),
        if rng.chance(1, 25) { 7 } else { rng.below(3) },
        rng.below(5),
        g_opt(rng, 45, |r| r.below(6).to_string()),
        if rng.chance(1, 25) { 9 } else { rng.below(3) },
        rng.below(4),
        rng.below(4)
    )
}

fn g_cert(rng: &mut Rng) -> String {
    let pem = if rng.chance(1, 6) { 10 + rng.below(3) } else if rng.chance(1, 8) { 13 } else { rng.below(10) };
    let names = if rng.chance(1, 3) { dotted(&(0..1 + rng.below(2)).map(|_| rng.below(3)).collect::<Vec<_>>()) } else { "-".into() };
    let rest = rng.below(4);
    let p = pems();
    let c = p.cert(pem, &parse_dotted(&names).unwrap(), rest);
    p.cert_words(&c).join(" ")
}

impl Gen {
    /// one command line; `invalid_bias` in percent
    fn g_cmd(&self, rng: &mut Rng, sh: &mut Shadow, bias: u64) -> String {
        let bad = rng.chance(bias, 100);
        let k = rng.below(100);
        let pick_l = |rng: &mut Rng, sh: &Shadow, t: usize| -> Option<u64> {
            let v: Vec<u64> = sh.listeners[t].iter().cloned().collect();
            if v.is_empty() { None } else { Some(*rng.pick(&v)) }
        };
        if k < 8 {
            let id = rng.below(5);
            let h = if bad { format!("i{}", rng.below(4)) } else { g_opt(rng, 30, |r| format!("v{}", r.below(3))) };
            if !bad { sh.clusters.insert(id); }
            format!("addcluster {id} {h} {}", rng.below(5))
        } else if k < 11 {
            let id = rng.below(5);
            sh.clusters.remove(&id);
            format!("rmcluster {id}")
        } else if k < 15 {
            format!("sethc {} {}", rng.below(5), if bad { format!("i{}", rng.below(4)) } else { format!("v{}", rng.below(3)) })
        } else if k < 17 {
            format!("rmhc {}", rng.below(5))
        } else if k < 23 {
            let https = rng.chance(1, 2);
            let l = g_httpl(rng, sh, https);
            let a: u64 = l.split(' ').nth(1).unwrap().parse().unwrap();
            sh.listeners[https as usize].insert(a % 16);
            l
        } else if k < 26 {
            let a = g_addr(rng, sh);
            sh.listeners[2].insert(a % 16);
            format!("addtcpl {a} {} {} {} {} {} {}", g_opt(rng, 20, |r| r.below(20).to_string()), rng.below(2),
                    *rng.pick(&[60u64, 5]), *rng.pick(&[30u64, 7]), *rng.pick(&[3u64, 1]), rng.below(2))
        } else if k < 29 {
            let a = g_addr(rng, sh);
            sh.listeners[3].insert(a % 16);
            format!("addudpl {a} {} {} {} {} {} {}", g_opt(rng, 20, |r| r.below(20).to_string()), *rng.pick(&[30u64, 5]),
                    *rng.pick(&[30u64, 9]), *rng.pick(&[1500u64, 512, 9000]), rng.below(3), rng.below(2))
        } else if k < 33 {
            let t = if bad { 9 } else { rng.below(4) };
            let a = g_addr(rng, sh);
            if t < 4 { sh.listeners[t as usize].remove(&(a % 16)); }
            format!("rmlistener {t} {a}")
        } else if k < 38 {
            let t = if bad && rng.chance(1, 2) { 9 } else { rng.below(4) };
            format!("{} {t} {}", if rng.chance(2, 3) { "activate" } else { "deactivate" }, g_addr(rng, sh))
        } else if k < 46 {
            let https = rng.chance(1, 2);
            let f = g_front(rng, sh);
            sh.fronts.push(format!("{} {f}", https as u8));
            format!("{} {f}", if https { "addhttpsf" } else { "addhttpf" })
        } else if k < 50 {
            if !sh.fronts.is_empty() && rng.chance(4, 5) {
                let i = rng.below(sh.fronts.len() as u64) as usize;
                let f = sh.fronts.remove(i);
                let (h, f) = f.split_once(' ').unwrap();
                format!("{} {f}", if h == "1" { "rmhttpsf" } else { "rmhttpf" })
            } else {
                format!("{} {}", if rng.chance(1, 2) { "rmhttpsf" } else { "rmhttpf" }, g_front(rng, sh))
            }
        } else if k < 57 {
            let a = g_addr(rng, sh);
            let c = g_cert(rng);
            let w: Vec<&str> = c.split(' ').collect();
            if w[3] != "x" && w[4] != "!" {
                sh.certs.insert((a % 16, w[3].parse().unwrap()));
            }
            format!("addcert {a} {c}")
        } else if k < 60 {
            let v: Vec<(u64, u64)> = sh.certs.iter().cloned().collect();
            if bad { format!("rmcert {} x", g_addr(rng, sh)) }
            else if !v.is_empty() && rng.chance(3, 4) { let (a, f) = *rng.pick(&v); sh.certs.remove(&(a, f)); format!("rmcert {a} {f}") }
            else { format!("rmcert {} {}", g_addr(rng, sh), *rng.pick(&[0u64, 2, 900])) }
        } else if k < 65 {
            let v: Vec<(u64, u64)> = sh.certs.iter().cloned().collect();
            let (a, old) = if !v.is_empty() && rng.chance(4, 5) { *rng.pick(&v) } else { (g_addr(rng, sh), *rng.pick(&[0u64, 1, 900])) };
            let oldw = if bad && rng.chance(1, 3) { "x".to_string() } else { old.to_string() };
            let c = if bad { let p = pems(); p.cert_words(&p.cert(11 + rng.below(2), &[], 0)).join(" ") } else { g_cert(rng) };
            format!("replcert {a} {oldw} {c}")
        } else if k < 70 {
            let udp = rng.chance(1, 3);
            let (c, a, t) = (rng.below(4), g_addr(rng, sh), rng.below(4));
            sh.tfs.insert((udp, c, a % 16, t));
            format!("{} {c} {a} {t}", if udp { "addudpf" } else { "addtcpf" })
        } else if k < 73 {
            let v: Vec<_> = sh.tfs.iter().cloned().collect();
            if !v.is_empty() && rng.chance(3, 4) {
                let (u, c, a, t) = *rng.pick(&v);
                sh.tfs.retain(|x| !(x.0 == u && x.1 == c && x.2 == a));
                format!("{} {c} {a} {t}", if u { "rmudpf" } else { "rmtcpf" })
            } else {
                format!("{} {} {} 0", if rng.chance(1, 2) { "rmudpf" } else { "rmtcpf" }, rng.below(3), g_addr(rng, sh))
            }
        } else if k < 81 {
            let (c, b, a) = (rng.below(4), rng.below(4), g_addr(rng, sh));
            sh.backends.insert((c, b, a % 16));
            format!(
                "addbackend {c} {b} {a} {} {} {}",
                g_opt(rng, 30, |r| r.below(3).to_string()),
                if rng.chance(1, 3) { format!("w{}", *rng.pick(&[0i64, 5, 100, -3])) } else { "-".into() },
                g_opt(rng, 30, |r| r.below(2).to_string())
            )
        } else if k < 85 {
            let v: Vec<_> = sh.backends.iter().cloned().collect();
            if !v.is_empty() && rng.chance(3, 4) {
                let x = *rng.pick(&v);
                sh.backends.remove(&x);
                format!("rmbackend {} {} {}", x.0, x.1, x.2)
            } else {
                format!("rmbackend {} {} {}", rng.below(4), rng.below(4), g_addr(rng, sh))
            }
        } else if k < 93 {
            let https = rng.chance(3, 5);
            let a = match pick_l(rng, sh, https as usize) {
                Some(a) if rng.chance(9, 10) => a + if rng.chance(1, 12) { 16 } else { 0 },
                _ => g_addr(rng, sh),
            };
            let kind = if bad { if https { 1 + rng.below(3) } else { *rng.pick(&[1u64, 3]) } } else { 0 };
            g_patch(rng, a, https, kind)
        } else if k < 96 {
            let a = match pick_l(rng, sh, 2) { Some(a) if rng.chance(4, 5) => a, _ => g_addr(rng, sh) };
            format!("updtcpl {a} {} {} {} {} {}", g_opt(rng, 30, |r| r.below(20).to_string()), g_opt(rng, 40, |r| r.below(2).to_string()),
                    g_opt(rng, 40, |r| r.pick(&[61u64, 6, 0]).to_string()), g_opt(rng, 40, |r| r.pick(&[31u64, 8]).to_string()),
                    g_opt(rng, 40, |r| r.pick(&[4u64, 2]).to_string()))
        } else if k < 98 {
            let a = match pick_l(rng, sh, 3) { Some(a) if rng.chance(4, 5) => a, _ => g_addr(rng, sh) };
            format!("updudpl {a} {} {} {} {} {}", g_opt(rng, 30, |r| r.below(20).to_string()), g_opt(rng, 40, |r| r.pick(&[31u64, 6]).to_string()),
                    g_opt(rng, 40, |r| r.pick(&[32u64, 7]).to_string()), g_opt(rng, 40, |r| r.pick(&[9000u64, 576]).to_string()),
                    g_opt(rng, 40, |r| r.below(5).to_string()))
        } else if k < 99 {
            format!("other {}", rng.below(2))
        } else {
            "empty".into()
        }
    }

    fn new_shadow(rng: &mut Rng) -> Shadow {
        let mut addrs: Vec<u64> = (0..16).collect();
        rng.shuffle(&mut addrs);
        addrs.truncate(3 + rng.below(2) as usize);
        Shadow { addrs, listeners: Default::default(), clusters: Default::default(), backends: Default::default(),
                 certs: Default::default(), fronts: vec![], tfs: Default::default() }
    }

    /// a small adversarial mutation of the current state (C06)
    fn g_mutation(&self, rng: &mut Rng, sh: &mut Shadow) -> Vec<String> {
        // a frontend that differs only in tags / cluster / policies (same route key)
        if !sh.fronts.is_empty() && rng.chance(1, 4) {
            let i = rng.below(sh.fronts.len() as u64) as usize;
            let old = sh.fronts[i].clone();
            let (h, f) = old.split_once(' ').unwrap();
            let mut w: Vec<String> = f.split(' ').map(|x| x.to_string()).collect();
            match rng.below(3) {
                0 => w[7] = ((w[7].parse::<u64>().unwrap_or(0) + 1) % 3).to_string(),
                1 => w[8] = ((w[8].parse::<u64>().unwrap_or(0) + 1) % 3).to_string(),
                _ => w[0] = if w[0] == "-" { "1".into() } else { "-".into() },
            }
            let newf = w.join(" ");
            sh.fronts[i] = format!("{h} {newf}");
            let (rm, add) = if h == "1" { ("rmhttpsf", "addhttpsf") } else { ("rmhttpf", "addhttpf") };
            return vec![format!("{rm} {f}"), format!("{add} {newf}")];
        }
        vec![self.g_mutation1(rng, sh)]
    }

    fn g_mutation1(&self, rng: &mut Rng, sh: &mut Shadow) -> String {
        let bs: Vec<_> = sh.backends.iter().cloned().collect();
        let k = rng.below(10);
        if k < 3 && !bs.is_empty() {
            // same backend id at another address / changed parameters
            let (c, b, a) = *rng.pick(&bs);
            let a2 = if rng.chance(2, 3) { *rng.pick(&sh.addrs) } else { a };
            sh.backends.insert((c, b, a2));
            return format!("addbackend {c} {b} {a2} - {} -", if rng.chance(1, 2) { "w9" } else { "-" });
        }
        if k < 5 {
            let v: Vec<_> = sh.tfs.iter().cloned().collect();
            if !v.is_empty() {
                let (u, c, a, t) = *rng.pick(&v);
                let t2 = (t + 1) % 3;
                sh.tfs.insert((u, c, a, t2));
                return format!("{} {c} {a} {t2}", if u { "addudpf" } else { "addtcpf" });
            }
        }
        if k < 7 {
            for t in 0..4usize {
                let v: Vec<u64> = sh.listeners[t].iter().cloned().collect();
                if !v.is_empty() && rng.chance(1, 2) {
                    let a = *rng.pick(&v);
                    return match rng.below(3) {
                        0 => format!("activate {t} {a}"),
                        1 => format!("deactivate {t} {a}"),
                        _ => match t {
                            0 => g_patch(rng, a, false, 0),
                            1 => g_patch(rng, a, true, 0),
                            2 => format!("updtcpl {a} - - 99 - -"),
                            _ => format!("updudpl {a} - 99 - - -"),
                        },
                    };
                }
            }
        }
        self.g_cmd(rng, sh, 5)
    }
}

// ------------------------------------------------------------------- area --

// ------------------------------------------------------------- the hub ----

/// canonical JSON: arrays sorted by their text (list order inside an answer is
/// map-iteration / insertion order, not configuration)
fn canon(v: &Value) -> Value {
    match v {
        Value::Array(a) => {
            let mut items: Vec<Value> = a.iter().map(canon).collect();
            items.sort_by_key(|x| x.to_string());
            Value::Array(items)
        }
        Value::Object(o) => Value::Object(o.iter().map(|(k, x)| (k.clone(), canon(x))).collect()),
        x => x.clone(),
    }
}
fn cj<T: serde::Serialize>(x: &T) -> String {
    canon(&serde_json::to_value(x).unwrap_or(Value::Null)).to_string()
}

/// cluster ids the generator can name
fn all_cluster_ids() -> Vec<String> {
    (0..6).map(cid).collect::<BTreeSet<_>>().into_iter().collect()
}

/// What the main process shows of its configuration: every query verb's
/// answer (the "main" part) and the saved state file, canonicalised.
type View = BTreeMap<String, String>;

/// `ConfigState::generate_requests` through its public wrapper
fn gen_reqs(s: &ConfigState) -> Vec<Request> {
    s.produce_initial_state().requests.into_iter().map(|wr| wr.content).collect()
}

fn view_of_state(s: &ConfigState) -> View {
    let mut v = View::new();
    v.insert("hashes".into(), cj(&s.hash_state()));
    for id in all_cluster_ids() {
        v.insert(format!("cluster:{id}"), cj(&s.cluster_state(&id).into_iter().collect::<Vec<_>>()));
    }
    v.insert("frontends".into(), cj(&s.list_frontends(FrontendFilters::default())));
    v.insert("listeners".into(), cj(&s.list_listeners()));
    // the answer is keyed by fingerprint only: when one fingerprint is loaded at two
    // addresses with different contents, which one is shown depends on HashMap
    // iteration order — the contents are compared through the saved state instead
    v.insert("certificates".into(), cj(&s.get_certificates(QueryCertificatesFilters::default()).keys().collect::<Vec<_>>()));
    v.insert("healthchecks".into(), cj(&s.list_health_checks(None)));
    let mut reqs: Vec<String> = gen_reqs(s).iter().map(cj).collect();
    reqs.sort();
    v.insert("saved".into(), reqs.join("\n"));
    v
}

fn view_diff(a: &View, b: &View) -> String {
    let mut out = vec![];
    for (k, va) in a {
        let vb = b.get(k).cloned().unwrap_or_default();
        if *va != vb {
            let (la, lb): (BTreeSet<&str>, BTreeSet<&str>) = (va.split('\n').collect(), vb.split('\n').collect());
            let only_a: Vec<&&str> = la.difference(&lb).take(2).collect();
            let only_b: Vec<&&str> = lb.difference(&la).take(2).collect();
            let cut = |s: &&&str| s.chars().take(160).collect::<String>();
            out.push(format!("{k}: left-only {:?} right-only {:?}", only_a.iter().map(cut).collect::<Vec<_>>(), only_b.iter().map(cut).collect::<Vec<_>>()));
        }
    }
    out.truncate(3);
    out.join("; ")
}

struct Hub {
    rig: Rig,
    client: Peer,
    nworkers: usize,
    /// requests each worker received since `received` was last cleared
    received: Vec<Vec<Request>>,
    saves: usize,
}

impl Hub {
    fn start(nworkers: usize) -> Hub {
        let rig = Rig::start(nworkers, 5);
        let client = rig.connect();
        Hub { rig, client, nworkers, received: vec![vec![]; nworkers], saves: 0 }
    }

    /// send one client request and serve the workers until the final answer:
    /// every worker acknowledges what it is sent, except `fail_worker`, which
    /// answers Failure to everything of this command
    fn command(&mut self, req: &Request, fail_worker: Option<usize>) -> Result<Response, String> {
        if !self.client.send_raw(&frame(req)) {
            return Err("cannot write to the command socket".into());
        }
        let t0 = Instant::now();
        loop {
            let mut idle = true;
            for w in 0..self.nworkers {
                let Some(peer) = self.rig.workers[w].as_mut() else { continue };
                peer.drain();
                let mut answers = vec![];
                while let Some(wr) = peer.take::<WorkerRequest>() {
                    idle = false;
                    let st = if fail_worker == Some(w) { ResponseStatus::Failure } else { ResponseStatus::Ok };
                    answers.extend(frame(&wresp(&wr.id, st, if fail_worker == Some(w) { "refused by the worker" } else { "" })));
                    self.received[w].push(wr.content);
                }
                if !answers.is_empty() {
                    peer.send_raw(&answers);
                }
            }
            self.client.drain();
            while let Some(resp) = self.client.take::<Response>() {
                if resp.status != ResponseStatus::Processing as i32 {
                    return Ok(resp);
                }
                idle = false;
            }
            if self.client.eof {
                return Err("the main process closed the client session".into());
            }
            if t0.elapsed() > Duration::from_secs(12) {
                return Err("no final answer within 12 s".into());
            }
            if self.rig.hub_finished() {
                return Err("the main process stopped".into());
            }
            if idle {
                std::thread::sleep(Duration::from_micros(150));
            }
        }
    }

    fn content(&mut self, rt: RequestType) -> Result<Option<ContentType>, String> {
        let resp = self.command(&rt.into(), None)?;
        if resp.status != ResponseStatus::Ok as i32 {
            return Err(format!("query answered {}: {}", status_code(resp.status), resp.message));
        }
        Ok(resp.content.and_then(|c| c.content_type))
    }

    /// the "main" entry of a scattered query
    fn main_part(&mut self, rt: RequestType) -> Result<Option<ContentType>, String> {
        match self.content(rt)? {
            Some(ContentType::WorkerResponses(mut wr)) => Ok(wr.map.remove("main").and_then(|c| c.content_type)),
            other => Err(format!("unexpected answer to a scattered query: {other:?}")),
        }
    }

    fn save(&mut self) -> Result<Vec<Request>, String> {
        self.saves += 1;
        let path = self.rig._dir.path().join(format!("saved{}", self.saves));
        let resp = self.command(&RequestType::SaveState(path.to_string_lossy().to_string()).into(), None)?;
        if resp.status != ResponseStatus::Ok as i32 {
            return Err(format!("SaveState answered failure: {}", resp.message));
        }
        read_state_file(&path)
    }

    fn state_path(&self, n: usize) -> std::path::PathBuf {
        self.rig._dir.path().join(format!("saved{n}"))
    }

    fn view(&mut self) -> Result<View, String> {
        let mut v = View::new();
        match self.main_part(RequestType::QueryClustersHashes(QueryClustersHashes {}))? {
            Some(ContentType::ClusterHashes(h)) => v.insert("hashes".into(), cj(&h.map)),
            other => return Err(format!("QueryClustersHashes: {other:?}")),
        };
        for id in all_cluster_ids() {
            match self.main_part(RequestType::QueryClusterById(id.clone()))? {
                Some(ContentType::Clusters(c)) => v.insert(format!("cluster:{id}"), cj(&c.vec)),
                other => return Err(format!("QueryClusterById: {other:?}")),
            };
        }
        match self.content(RequestType::ListFrontends(FrontendFilters::default()))? {
            Some(ContentType::FrontendList(f)) => v.insert("frontends".into(), cj(&f)),
            other => return Err(format!("ListFrontends: {other:?}")),
        };
        match self.content(RequestType::ListListeners(ListListeners {}))? {
            Some(ContentType::ListenersList(l)) => v.insert("listeners".into(), cj(&l)),
            other => return Err(format!("ListListeners: {other:?}")),
        };
        match self.content(RequestType::QueryCertificatesFromTheState(QueryCertificatesFilters::default()))? {
            Some(ContentType::CertificatesWithFingerprints(c)) => v.insert("certificates".into(), cj(&c.certs.keys().collect::<Vec<_>>())),
            other => return Err(format!("QueryCertificatesFromTheState: {other:?}")),
        };
        match self.content(RequestType::QueryHealthChecks(QueryHealthChecks { cluster_id: None }))? {
            Some(ContentType::HealthChecksList(h)) => v.insert("healthchecks".into(), cj(&h)),
            other => return Err(format!("QueryHealthChecks: {other:?}")),
        };
        let mut reqs: Vec<String> = self.save()?.iter().map(cj).collect();
        reqs.sort();
        v.insert("saved".into(), reqs.join("\n"));
        Ok(v)
    }
}

/// the saved-state format: one JSON `WorkerRequest` per entry, `\n\0` after each
fn read_state_file(path: &std::path::Path) -> Result<Vec<Request>, String> {
    let data = std::fs::read(path).map_err(|e| format!("cannot read {}: {e}", path.display()))?;
    let text = String::from_utf8(data).map_err(|e| e.to_string())?;
    let mut out = vec![];
    for part in text.split("\n\0") {
        if part.is_empty() {
            continue;
        }
        let wr: WorkerRequest = serde_json::from_str(part).map_err(|e| format!("state file entry does not parse: {e}"))?;
        out.push(wr.content);
    }
    Ok(out)
}

fn write_state_file(path: &std::path::Path, reqs: &[Request]) {
    let mut f = std::fs::File::create(path).unwrap_or_else(|e| panic!("{SETUP} cannot create the state file: {e}"));
    for (i, r) in reqs.iter().enumerate() {
        let wr = WorkerRequest::new(format!("SAVE-{i}"), r.clone());
        f.write_all(serde_json::to_string(&wr).unwrap().as_bytes()).unwrap();
        f.write_all(b"\n\0").unwrap();
    }
}

fn normalize(s: &ConfigState) -> ConfigState {
    let mut c = s.clone();
    c.request_counts.clear();
    c.backends.retain(|_, v| !v.is_empty());
    c.tcp_fronts.retain(|_, v| !v.is_empty());
    c.udp_fronts.retain(|_, v| !v.is_empty());
    c.certificates.retain(|_, v| !v.is_empty());
    for v in c.tcp_fronts.values_mut() { v.sort(); }
    for v in c.udp_fronts.values_mut() { v.sort(); }
    c
}
fn same_state(a: &ConfigState, b: &ConfigState) -> bool {
    normalize(a) == normalize(b)
}

// ---------------------------------------------------------------- cases ----

#[derive(Default)]
struct Outcome {
    out: Vec<String>,
    oracle: Vec<(String, String)>,
    tags: Vec<String>,
    nontrivial: bool,
    inconclusive: bool,
}
impl Outcome {
    fn fail(&mut self, class: &str, detail: String) {
        if !self.oracle.iter().any(|(c, _)| c == class) {
            self.oracle.push((class.into(), detail));
        }
    }
}

/// a command line: optional `!w<k> ` prefix = worker k answers Failure
fn parse_line(line: &str) -> Option<(Option<usize>, Request)> {
    let mut words: Vec<&str> = line.split_whitespace().collect();
    let mut fail = None;
    if let Some(first) = words.first() {
        if let Some(k) = first.strip_prefix("!w") {
            fail = Some(k.parse().ok()?);
            words.remove(0);
        }
    }
    parse_cmd(pems(), &words).map(|r| (fail, r))
}

/// apply command lines to a hub; `code`: the state as the code keeps it (every
/// command the main state accepted), `prop`: the state the property expects
/// (only commands answered Ok)
fn apply(o: &mut Outcome, hub: &mut Hub, lines: &[String], code: &mut ConfigState, prop: &mut ConfigState, check_each_failure: bool) -> Result<(), String> {
    for line in lines {
        let Some((fail, req)) = parse_line(line) else {
            o.out.push(format!("{line} => bad-op"));
            continue;
        };
        let fail = fail.filter(|k| *k < hub.nworkers);
        let resp = hub.command(&req, fail)?;
        let ok = resp.status == ResponseStatus::Ok as i32;
        let main_rejected = resp.message.starts_with("could not dispatch");
        let ref_res = code.clone().dispatch(&req);
        o.tags.push(format!("cmd:{}", line.split_whitespace().find(|w| !w.starts_with("!w")).unwrap_or("")));
        o.out.push(format!("{line} => {}{}", status_code(resp.status), if main_rejected { " (main)" } else { "" }));
        // the main process accepts exactly what a ConfigState accepts
        if ref_res.is_ok() == main_rejected {
            o.fail("main-accepts-differently-from-configstate", format!("`{line}`: main process {} but ConfigState::dispatch {:?}", if main_rejected { "rejected it" } else { "accepted it" }, ref_res.err().map(|e| e.to_string())));
        }
        if !main_rejected {
            let _ = code.dispatch(&req);
        }
        if ok {
            let _ = prop.dispatch(&req);
            if fail.is_some() {
                o.fail("ok-despite-worker-failure", format!("`{line}` answered Ok although worker {fail:?} answered Failure"));
            }
        } else {
            o.tags.push(if main_rejected { "rejected-by-main".into() } else { "rejected-by-worker".into() });
            if !main_rejected && fail.is_none() {
                o.fail("failure-without-cause", format!("`{line}`: {}", resp.message));
            }
            if check_each_failure {
                o.nontrivial = true;
                // C07: an answered error leaves the main process's view as it was
                let seen = hub.view()?;
                let want = view_of_state(prop);
                if seen != want {
                    let as_coded = view_of_state(code);
                    if seen == as_coded {
                        let class = if main_rejected { "main-rejected-command-left-trace" } else { "rejected-command-left-trace-in-main-state" };
                        o.fail(class, format!("`{line}` was answered Failure ({}) but the main process's view and saved state changed: {}", resp.message.chars().take(80).collect::<String>(), view_diff(&seen, &want)));
                        // keep following the code so that a different trace is reported too
                        *prop = code.clone();
                    } else {
                        o.fail("main-state-differs-from-accepted-commands", format!("after `{line}`: {}", view_diff(&seen, &as_coded)));
                        return Ok(());
                    }
                }
            }
        }
    }
    Ok(())
}

fn split_sections(ops: &[String]) -> (BTreeMap<String, String>, Vec<Vec<String>>) {
    let mut params = BTreeMap::new();
    let mut sections: Vec<Vec<String>> = vec![vec![]];
    for l in ops {
        if let Some(rest) = l.strip_prefix("set ") {
            let mut it = rest.split_whitespace();
            if let (Some(k), Some(v)) = (it.next(), it.next()) {
                params.insert(k.to_string(), v.to_string());
            }
        } else if l.starts_with("---") {
            sections.push(vec![]);
        } else {
            sections.last_mut().unwrap().push(l.clone());
        }
    }
    (params, sections)
}

fn replay(start: &ConfigState, reqs: &[Request]) -> (ConfigState, Vec<String>) {
    let mut s = start.clone();
    let mut rejected = vec![];
    for r in reqs {
        if let Err(e) = s.dispatch(r) {
            rejected.push(format!("{} ({e})", cmd_words(pems(), r).join(" ")));
        }
    }
    (s, rejected)
}

fn multiset(reqs: &[Request]) -> Vec<String> {
    let mut v: Vec<String> = reqs.iter().map(cj).collect();
    v.sort();
    v
}

/// C05: commands -> SaveState -> fresh main process -> LoadState
fn case_c05(o: &mut Outcome, params: &BTreeMap<String, String>, sections: &[Vec<String>]) -> Result<(), String> {
    let w1: usize = params.get("workers").and_then(|x| x.parse().ok()).unwrap_or(1);
    let w2: usize = params.get("workers2").and_then(|x| x.parse().ok()).unwrap_or(1);
    let mut h1 = Hub::start(w1);
    let (mut code, mut prop) = (ConfigState::new(), ConfigState::new());
    apply(o, &mut h1, &sections[0], &mut code, &mut prop, false)?;
    let view1 = h1.view()?;
    let want = view_of_state(&code);
    if view1 != want {
        o.fail("main-state-differs-from-accepted-commands", view_diff(&view1, &want));
    }
    let file = h1.state_path(h1.saves);
    let file_reqs = read_state_file(&file)?;
    o.nontrivial = file_reqs.len() >= 3;
    o.tags.push(format!("file-entries:{}", (file_reqs.len() / 5) * 5));
    let fsize = std::fs::metadata(&file).map(|m| m.len()).unwrap_or(0);
    o.tags.push(format!("file-size:{}", if fsize > 200_000 { "over-one-read-buffer" } else { "under-one-read-buffer" }));
    // what the file holds must rebuild the configuration on an empty instance
    let (replayed, rejected) = replay(&ConfigState::new(), &file_reqs);
    if !rejected.is_empty() {
        o.fail("loadstate-command-rejected", format!("{} of {} saved commands are rejected on replay, first: {}", rejected.len(), file_reqs.len(), rejected[0]));
    }
    if !same_state(&replayed, &code) {
        o.fail("statefile-replay-differs", format!("replaying the saved file in process differs: {}", view_diff(&view_of_state(&replayed), &want)));
    }
    // a fresh main process loads the file
    let mut h2 = Hub::start(w2);
    let resp = h2.command(&RequestType::LoadState(file.to_string_lossy().to_string()).into(), None)?;
    o.out.push(format!("loadstate => {}", status_code(resp.status)));
    if resp.status != ResponseStatus::Ok as i32 {
        o.fail("loadstate-failed", resp.message.clone());
    }
    for w in 0..w2 {
        let got = h2.received[w].clone();
        if got.len() != file_reqs.len() {
            o.fail("loadstate-command-rejected", format!("worker {w} was sent {} of the {} saved commands", got.len(), file_reqs.len()));
        }
        let (ws, rej) = replay(&ConfigState::new(), &got);
        if !rej.is_empty() {
            o.fail("loadstate-command-rejected", format!("worker {w} would reject: {}", rej[0]));
        }
        if !same_state(&ws, &code) {
            o.fail("statefile-replay-differs", format!("what worker {w} was sent during LoadState rebuilds another configuration: {}", view_diff(&view_of_state(&ws), &want)));
        }
        if multiset(&got) != multiset(&gen_reqs(&code)) {
            o.fail("loadstate-worker-stream-differs", format!("worker {w}: the commands scattered during LoadState are not ConfigState::generate_requests of the saved configuration"));
        }
    }
    let mut view2 = h2.view()?;
    let mut view1 = view1;
    // the per-cluster hash also covers whether an EMPTY backend / tcp-front list
    // is present for the cluster (left behind by a removal, absent after a
    // replay): reported on its own
    let (hash1, hash2) = (view1.remove("hashes"), view2.remove("hashes"));
    if view2 != view1 {
        o.fail("statefile-replay-differs", format!("main process after LoadState vs the one that saved: {}", view_diff(&view2, &view1)));
    } else if hash1 != hash2 {
        o.fail("cluster-hash-depends-on-history", format!("same configuration through every other query verb and the saved file, but QueryClustersHashes differs between the main process that saved and the one that loaded: {:?} vs {:?}", hash1, hash2));
    }
    Ok(())
}

/// C06: a main process holding A loads the state file of B
fn case_c06(o: &mut Outcome, params: &BTreeMap<String, String>, sections: &[Vec<String>]) -> Result<(), String> {
    let w: usize = params.get("workers").and_then(|x| x.parse().ok()).unwrap_or(1);
    let empty = vec![];
    let (a_lines, b_lines) = (&sections[0], sections.get(1).unwrap_or(&empty));
    let mut hub = Hub::start(w);
    let (mut a, mut a_prop) = (ConfigState::new(), ConfigState::new());
    apply(o, &mut hub, a_lines, &mut a, &mut a_prop, false)?;
    // B, built in process from its own command list
    let mut b = ConfigState::new();
    for l in b_lines {
        if let Some((_, r)) = parse_line(l) {
            let _ = b.dispatch(&r);
        }
    }
    let file = hub.rig._dir.path().join("target-state");
    let b_reqs = gen_reqs(&b);
    write_state_file(&file, &b_reqs);
    for x in hub.received.iter_mut() {
        x.clear();
    }
    let resp = hub.command(&RequestType::LoadState(file.to_string_lossy().to_string()).into(), None)?;
    o.out.push(format!("loadstate => {}", status_code(resp.status)));
    // as coded: every entry of the file is dispatched on the main state, the accepted ones are scattered
    let mut merged = a.clone();
    let mut accepted = vec![];
    for r in &b_reqs {
        if merged.dispatch(r).is_ok() {
            accepted.push(r.clone());
        }
    }
    let streams: Vec<Vec<Request>> = hub.received.clone();
    let a_subset_of_b = same_state(&merged, &b);
    o.tags.push(if a_subset_of_b { "A-within-B".into() } else { "A-not-within-B".into() });
    o.nontrivial = !b_reqs.is_empty() && !same_state(&a, &b);
    let seen = hub.view()?;
    let target = view_of_state(&b);
    if seen != target {
        if seen == view_of_state(&merged) {
            o.fail("loadstate-misses-target", format!("main process held A, loaded B's file, holds neither: {} (LoadState only adds: nothing of A is removed or replaced)", view_diff(&seen, &target)));
        } else {
            o.fail("loadstate-differs-from-replay", format!("main process after LoadState: {}", view_diff(&seen, &view_of_state(&merged))));
        }
    }
    for wk in 0..w {
        let got = streams[wk].clone();
        if multiset(&got) != multiset(&accepted) {
            o.fail("loadstate-worker-stream-differs", format!("worker {wk} was sent {} commands, the main state accepted {}", got.len(), accepted.len()));
        }
        // the worker held A (it acknowledged every command of A)
        let (ws, rej) = replay(&a, &got);
        if !rej.is_empty() {
            o.fail("loadstate-stream-rejected-by-worker", format!("a worker holding A rejects: {}", rej[0]));
        }
        if !same_state(&ws, &b) {
            if same_state(&ws, &merged) {
                o.fail("loadstate-misses-target", format!("a worker holding A that applies what LoadState scattered does not hold B: {}", view_diff(&view_of_state(&ws), &target)));
            } else {
                o.fail("loadstate-worker-stream-differs", format!("worker {wk}: {}", view_diff(&view_of_state(&ws), &view_of_state(&merged))));
            }
        }
    }
    Ok(())
}

/// C07: commands refused by the main state or by a worker leave no trace
fn case_c07(o: &mut Outcome, params: &BTreeMap<String, String>, sections: &[Vec<String>]) -> Result<(), String> {
    let w: usize = params.get("workers").and_then(|x| x.parse().ok()).unwrap_or(1);
    let mut hub = Hub::start(w);
    let (mut code, mut prop) = (ConfigState::new(), ConfigState::new());
    apply(o, &mut hub, &sections[0], &mut code, &mut prop, true)?;
    let seen = hub.view()?;
    let want = view_of_state(&prop);
    if seen != want {
        if seen == view_of_state(&code) {
            o.fail("rejected-command-left-trace-in-main-state", view_diff(&seen, &want));
        } else {
            o.fail("main-state-differs-from-accepted-commands", view_diff(&seen, &view_of_state(&code)));
        }
    }
    Ok(())
}

fn run_case(ops: &[String]) -> Outcome {
    let mut o = Outcome::default();
    let (params, sections) = split_sections(ops);
    let family = params.get("family").cloned().unwrap_or_default();
    let r = match family.as_str() {
        "C05" => case_c05(&mut o, &params, &sections),
        "C06" => case_c06(&mut o, &params, &sections),
        "C07" => case_c07(&mut o, &params, &sections),
        _ => Err("no `set family C05|C06|C07` line".into()),
    };
    if let Err(e) = r {
        // the machine ran out of descriptors / memory / processes under the main
        // process's feet: an environment failure like a failed set-up, not a verdict
        if ["os error 24", "os error 23", "os error 12", "os error 11", "Too many open files"].iter().any(|m| e.contains(m)) {
            panic!("{SETUP} resource exhaustion during the case: {e}");
        }
        // anything else that goes wrong after the scenario started is a failure
        o.fail("rig-error", e);
    }
    o
}

// ------------------------------------------------------------ generation ----

fn usable(line: &str) -> bool {
    !(line.starts_with("other") || line.starts_with("empty"))
}

fn gen_case(family: &str, rng: &mut Rng, thorough: bool) -> Vec<String> {
    let g = Gen;
    let mut sh = Gen::new_shadow(rng);
    let w = *rng.pick(&[0u64, 1, 1, 2]);
    let mut ops = vec![format!("set family {family}"), format!("set workers {w}")];
    let n = rng.range(8, if thorough { 60 } else { 36 });
    match family {
        "C05" => {
            ops.push(format!("set workers2 {}", rng.below(3)));
            // now and then a state whose file is larger than load_state's 200 000-byte
            // read buffer (many certificates), so that entries straddle the chunks
            if rng.chance(1, 8) {
                ops[1] = format!("set workers {}", rng.below(2));
                for _ in 0..rng.range(50, 80) {
                    ops.push(format!("addcert {} {}", rng.below(32), g_cert(rng)));
                }
            }
            for _ in 0..n {
                let l = g.g_cmd(rng, &mut sh, 8);
                if usable(&l) {
                    ops.push(l);
                }
            }
        }
        "C06" => {
            let mut a = vec![];
            for _ in 0..n {
                let l = g.g_cmd(rng, &mut sh, 5);
                if usable(&l) {
                    a.push(l);
                }
            }
            // B: A plus a few changes (additions only now and then, so that the target is reachable by adding)
            let mut b = if rng.chance(1, 6) { vec![] } else { a.clone() };
            let additive = rng.chance(1, 3);
            for _ in 0..rng.range(0, 6) {
                let ls = if additive { vec![g.g_cmd(rng, &mut sh, 0)] } else { g.g_mutation(rng, &mut sh) };
                for l in ls {
                    if usable(&l) && !(additive && (l.starts_with("rm") || l.starts_with("upd") || l.starts_with("repl") || l.starts_with("deact"))) {
                        b.push(l);
                    }
                }
            }
            ops.extend(a);
            ops.push("--- B".into());
            ops.extend(b);
        }
        _ => {
            for _ in 0..n {
                let l = g.g_cmd(rng, &mut sh, 25);
                if !usable(&l) {
                    continue;
                }
                // now and then a worker refuses the command
                if w > 0 && rng.chance(1, 7) {
                    ops.push(format!("!w{} {l}", rng.below(w)));
                } else {
                    ops.push(l);
                }
            }
        }
    }
    ops
}

fn corpus(family: &str) -> Vec<Vec<String>> {
    let s = |v: &[&str]| v.iter().map(|x| x.to_string()).collect::<Vec<_>>();
    match family {
        "C05" => vec![s(&["set family C05", "set workers 1", "set workers2 2", "addcluster 1 - 0", "addbackend 1 0 3 - - -", "addtcpl 2 - 0 60 30 3 0", "addtcpf 1 2 0", "activate 2 2"])],
        "C06" => vec![
            // B = A + a backend: reachable by adding
            s(&["set family C06", "set workers 1", "addcluster 1 - 0", "--- B", "addcluster 1 - 0", "addbackend 1 0 3 - - -"]),
            // B lacks A's cluster: LoadState does not remove it
            s(&["set family C06", "set workers 1", "addcluster 1 - 0", "addcluster 2 - 0", "--- B", "addcluster 1 - 0"]),
        ],
        _ => vec![
            // F22: the worker refuses, the main state keeps the cluster
            s(&["set family C07", "set workers 1", "addcluster 1 - 0", "!w0 addcluster 2 - 0", "addbackend 1 0 3 - - -"]),
            // refused by the main state
            s(&["set family C07", "set workers 1", "rmcluster 3", "addcluster 1 - 0", "rmbackend 1 0 3"]),
        ],
    }
}

// ---------------------------------------------------------------- runner ----

fn main() {
    std::panic::set_hook(Box::new(|_| {}));
    let args = parse_args();
    let mut dummy = spawn_dummy();
    let code = match std::panic::catch_unwind(std::panic::AssertUnwindSafe(|| real_main(&args))) {
        Ok(c) => c,
        Err(e) => {
            // never leave the check without a result file
            let res = json!({"area": "hubstate", "property": args.prop, "evaluations": 0,
                "failures": [{"kind": "oracle", "class": "harness-inconclusive", "detail": format!("the harness runner panicked: {}", panic_text(&*e)), "case": -1, "ops": [], "impl_out": [], "model_out": []}]});
            if !args.out.is_empty() {
                let _ = std::fs::write(&args.out, serde_json::to_string_pretty(&res).unwrap());
            }
            1
        }
    };
    if let Some(d) = dummy.as_mut() {
        let _ = d.kill();
        let _ = d.wait();
    }
    std::process::exit(code);
}

/// One case. A panic of the harness thread — a set-up failure (temp dir,
/// sockets, hub thread start: marked `SETUP:`) or a harness bug — says nothing
/// about the code under test: the case is retried, then counted as
/// inconclusive. (A panic of the main process under test happens in the hub
/// thread and surfaces as "the main process stopped", a real failure.)
fn judge(ops: &[String]) -> Outcome {
    quiet_logs();
    let mut why = String::new();
    for attempt in 0..3 {
        match std::panic::catch_unwind(std::panic::AssertUnwindSafe(|| run_case(ops))) {
            Ok(o) => return o,
            Err(e) => {
                let t = panic_text(&*e);
                why = if t.starts_with(SETUP) { "setup-failed".into() } else { format!("harness-panic:{}", t.chars().take(60).collect::<String>().replace(' ', "_")) };
                std::thread::sleep(Duration::from_millis(50 << attempt));
            }
        }
    }
    let mut o = Outcome::default();
    o.tags.push("inconclusive".into());
    o.tags.push(format!("inconclusive:{why}"));
    o.inconclusive = true;
    eprintln!("inconclusive case ({why}): {ops:?}");
    o
}

fn real_main(args: &Args) -> i32 {
    let t0 = Instant::now();
    let family = args.extra.get("family").cloned().unwrap_or_else(|| args.prop.clone());
    if let Some(path) = args.extra.get("trace") {
        let o = judge(&read_replay_ops(path));
        for l in &o.out {
            println!("{l}");
        }
        for (c, d) in &o.oracle {
            println!("ORACLE {c}: {d}");
        }
        return 0;
    }
    if let Some(path) = &args.replay {
        let ops = read_replay_ops(path);
        // `./check --replay` hands the file to every run of the property: a case of
        // the in-process State harness (no `set family` line) is not ours
        let o = if ops.iter().any(|l| l.starts_with("set family ")) { judge(&ops) } else { Outcome::default() };
        let fails: Vec<Value> = o.oracle.iter().map(|(c, d)| json!({"kind": "oracle", "class": c, "detail": d, "case": -1, "ops": ops, "impl_out": o.out, "model_out": []})).collect();
        for (c, d) in &o.oracle {
            println!("FAIL oracle {c} {d}");
        }
        let res = json!({"area": "hubstate", "property": args.prop, "replay": path, "evaluations": 1, "failures": fails});
        if !args.out.is_empty() {
            let _ = std::fs::write(&args.out, serde_json::to_string_pretty(&res).unwrap());
        }
        return if o.oracle.is_empty() { 0 } else { 1 };
    }
    let thorough = args.thorough();
    let n = args.cases.unwrap_or(if thorough { 1200 } else { 120 });
    let mut cases = corpus(&family);
    let ncorpus = cases.len() as i64;
    for i in 0..n {
        let mut rng = Rng::for_case(args.seed ^ 0x4855_4253, i);
        cases.push(gen_case(&family, &mut rng, thorough));
    }
    let nthreads = std::thread::available_parallelism().map(|x| x.get()).unwrap_or(4).min(12);
    let chunk = cases.len().div_ceil(nthreads).max(1);
    let mut outcomes: Vec<Outcome> = vec![];
    std::thread::scope(|s| {
        let hs: Vec<_> = cases.chunks(chunk).map(|cs| s.spawn(move || cs.iter().map(|ops| judge(ops)).collect::<Vec<_>>())).collect();
        for h in hs {
            outcomes.extend(h.join().expect("case thread"));
        }
    });
    let mut dist: BTreeMap<String, u64> = BTreeMap::new();
    let mut failures: Vec<Value> = vec![];
    let mut per_class: BTreeMap<String, u64> = BTreeMap::new();
    let mut samples = vec![];
    let mut distinct = std::collections::HashSet::new();
    let mut clean = 0u64;
    let mut inconclusive = 0u64;
    for (idx, (ops, o)) in cases.iter().zip(outcomes.iter()).enumerate() {
        for t in &o.tags {
            *dist.entry(t.clone()).or_insert(0) += 1;
        }
        if o.nontrivial {
            distinct.insert(ops.clone());
        }
        if samples.len() < 2 && o.nontrivial {
            samples.push(json!({"case": idx as i64 - ncorpus, "ops": ops, "impl_out": o.out}));
        }
        if o.inconclusive {
            inconclusive += 1;
            continue;
        }
        if o.oracle.is_empty() {
            clean += 1;
        }
        for (c, d) in &o.oracle {
            let k = per_class.entry(c.clone()).or_insert(0);
            *k += 1;
            if *k <= 3 {
                failures.push(json!({"kind": "oracle", "class": c, "detail": d, "case": idx as i64 - ncorpus, "ops": ops, "impl_out": o.out, "model_out": []}));
            } else {
                *dist.entry(format!("more-failures:oracle:{c}")).or_insert(0) += 1;
            }
        }
    }
    // inconclusive cases are not failures by themselves; above 5 % the run says so
    if inconclusive * 20 > cases.len() as u64 {
        failures.push(json!({"kind": "oracle", "class": "harness-inconclusive", "detail": format!("{inconclusive} of {} cases were inconclusive (set-up failures): the machine is too loaded for this run to mean anything", cases.len()), "case": -1, "ops": [], "impl_out": [], "model_out": []}));
    }
    let res = json!({
        "area": "hubstate", "property": args.prop, "tier": args.tier, "seed": args.seed,
        "evaluations": cases.len(), "distinct_nontrivial": distinct.len(),
        "rule": format!("family {family}: command sequences of the State generator (every mutating verb, valid and invalid arguments) sent through the command socket of a real CommandHub with 0-2 acknowledging fake workers; C05: SaveState, fresh main process, LoadState, both main processes compared through every query verb and the saved file, worker streams replayed; C06: a main process holding A loads the file of B (A plus changes / unrelated); C07: 25% invalid commands and worker refusals, the main process's view compared after every answered error; reference = in-process ConfigState fed the same commands; non-trivial = the saved file has >= 3 entries (C05), A != B (C06), at least one command answered with an error (C07)"),
        "samples": samples, "traces_validated_against_impl": clean, "disagreements_checked": cases.len(),
        "distribution": dist, "failures": failures, "wall_s": t0.elapsed().as_secs_f64(),
    });
    if !args.out.is_empty() {
        let _ = std::fs::write(&args.out, serde_json::to_string_pretty(&res).unwrap());
    }
    println!("hubstate[{family}]: {} cases, {} without oracle failure, {} distinct non-trivial, classes {:?}", cases.len(), clean, distinct.len(), per_class);
    for f in &failures {
        println!("FAIL oracle {} case={} {}", f["class"].as_str().unwrap_or(""), f["case"], f["detail"].as_str().unwrap_or("").chars().take(300).collect::<String>());
    }
    if failures.is_empty() { 0 } else { 1 }
}
