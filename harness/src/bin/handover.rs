//! C10 (hand-over and soft stop on real workers): an old worker with 1..N
//! listeners and requests in flight returns its listen sockets
//! (`ReturnListenSockets` -> `ScmSocket::receive_listeners` on the main side of
//! the scm pair), a new worker is started with those `Listeners`, the old one
//! is soft-stopped. Oracles on what clients, backends and the command channel
//! see; the observed soft-stop event sequence is replayed on the Lean model
//! (`scm_driver`, ops `ho-*`).
use std::collections::{BTreeMap, BTreeSet};
use std::net::{SocketAddr, TcpStream};
use std::os::unix::io::{IntoRawFd, RawFd};
use std::panic::{catch_unwind, AssertUnwindSafe};
use std::sync::atomic::{AtomicBool, AtomicUsize, Ordering};
use std::sync::{Arc, Mutex, OnceLock};
use std::thread::{self, JoinHandle};
use std::time::{Duration, Instant};

use sozu_command_lib::channel::Channel;
use sozu_command_lib::config::{ConfigBuilder, FileConfig, ListenerBuilder};
use sozu_command_lib::proto::command::{
    request::RequestType, ActivateListener, AddBackend, AddCertificate, CertificateAndKey, HardStop, ListenerType, LoadBalancingParams, PathRule,
    Request, RequestHttpFrontend, RequestTcpFrontend, ResponseStatus, ReturnListenSockets, RulePosition,
    DeactivateListener, ServerConfig, SoftStop, WorkerRequest, WorkerResponse,
};
use sozu_command_lib::scm_socket::{Listeners, ScmSocket};
use sozu_command_lib::state::ConfigState;
use sozu_lib::server::Server;
use verif_harness::rig::{asset, tls_connect, TlsStream, cluster, quiet_logs_silently, read_http_message, silence_worker_panics, MockBackend, RawConn, ReadEnd};
use verif_harness::*;

static DRIVER: OnceLock<String> = OnceLock::new();
const T: Duration = Duration::from_secs(2);

// ------------------------------------------------------------ addresses ----

struct Reserved {
    addr: SocketAddr,
    fd: RawFd,
}
impl Drop for Reserved {
    fn drop(&mut self) {
        unsafe {
            libc::close(self.fd);
        }
    }
}

/// bind 127.0.0.1:0 / [::1]:0 with SO_REUSEPORT and keep the (never listening)
/// socket, so nobody else gets the port while sozu binds the same address
fn reserve(v6: bool, udp: bool) -> Result<Reserved, String> {
    let ty = if udp { libc::SOCK_DGRAM } else { libc::SOCK_STREAM };
    let fam = if v6 { libc::AF_INET6 } else { libc::AF_INET };
    let fd = unsafe { libc::socket(fam, ty | libc::SOCK_CLOEXEC, 0) };
    if fd < 0 {
        return Err("socket()".into());
    }
    let one: i32 = 1;
    unsafe {
        libc::setsockopt(fd, libc::SOL_SOCKET, libc::SO_REUSEPORT, &one as *const i32 as *const libc::c_void, 4);
    }
    let std_addr: SocketAddr = if v6 { "[::1]:0".parse().unwrap() } else { "127.0.0.1:0".parse().unwrap() };
    let sock = socket2_bind(fd, &std_addr);
    match sock {
        Ok(addr) => Ok(Reserved { addr, fd }),
        Err(e) => {
            unsafe { libc::close(fd) };
            Err(e)
        }
    }
}

fn socket2_bind(fd: RawFd, a: &SocketAddr) -> Result<SocketAddr, String> {
    unsafe {
        let mut st: libc::sockaddr_storage = std::mem::zeroed();
        let len = match a {
            SocketAddr::V4(v4) => {
                let sin = &mut st as *mut _ as *mut libc::sockaddr_in;
                (*sin).sin_family = libc::AF_INET as u16;
                (*sin).sin_port = v4.port().to_be();
                (*sin).sin_addr.s_addr = u32::from_ne_bytes(v4.ip().octets());
                std::mem::size_of::<libc::sockaddr_in>()
            }
            SocketAddr::V6(v6) => {
                let sin = &mut st as *mut _ as *mut libc::sockaddr_in6;
                (*sin).sin6_family = libc::AF_INET6 as u16;
                (*sin).sin6_port = v6.port().to_be();
                (*sin).sin6_addr.s6_addr = v6.ip().octets();
                std::mem::size_of::<libc::sockaddr_in6>()
            }
        };
        if libc::bind(fd, &st as *const _ as *const libc::sockaddr, len as u32) != 0 {
            return Err(format!("bind: {}", std::io::Error::last_os_error()));
        }
    }
    sockname(fd).ok_or_else(|| "getsockname".to_string())
}

fn sockname(fd: RawFd) -> Option<SocketAddr> {
    unsafe {
        let mut st: libc::sockaddr_storage = std::mem::zeroed();
        let mut l = std::mem::size_of::<libc::sockaddr_storage>() as libc::socklen_t;
        if libc::getsockname(fd, &mut st as *mut _ as *mut libc::sockaddr, &mut l) != 0 {
            return None;
        }
        match st.ss_family as i32 {
            libc::AF_INET => {
                let sin = &*(&st as *const _ as *const libc::sockaddr_in);
                Some(SocketAddr::new(std::net::Ipv4Addr::from(sin.sin_addr.s_addr.to_ne_bytes()).into(), u16::from_be(sin.sin_port)))
            }
            libc::AF_INET6 => {
                let sin = &*(&st as *const _ as *const libc::sockaddr_in6);
                Some(SocketAddr::new(std::net::Ipv6Addr::from(sin.sin6_addr.s6_addr).into(), u16::from_be(sin.sin6_port)))
            }
            _ => None,
        }
    }
}

// --------------------------------------------------------------- worker ----

/// A real worker in a thread (same calls as `rig::Worker::start` and
/// `e2e/src/sozu/worker.rs`), keeping the main side of the scm pair and a
/// mirror of the state it was given.
struct HW {
    channel: Option<Channel<WorkerRequest, WorkerResponse>>,
    scm_main: ScmSocket,
    scm_worker_fd: RawFd,
    thread: Option<JoinHandle<()>>,
    exit: Arc<Mutex<Option<Option<String>>>>,
    next_id: u64,
    prefix: &'static str,
    state: ConfigState,
    /// every response read, in order
    log: Vec<WorkerResponse>,
    /// when each of them was read
    log_at: Vec<Instant>,
}

fn server_config() -> ServerConfig {
    let config = ConfigBuilder::new(FileConfig::default(), "").into_config().expect("default config");
    ServerConfig::from(&config)
}

impl HW {
    fn start(prefix: &'static str, listeners: &Listeners, initial: &ConfigState) -> Result<HW, String> {
        quiet_logs_silently();
        let sc = server_config();
        let (cmd_main, cmd_worker): (Channel<WorkerRequest, WorkerResponse>, Channel<WorkerResponse, WorkerRequest>) =
            Channel::generate(sc.command_buffer_size, sc.max_command_buffer_size).map_err(|e| format!("channel: {e}"))?;
        let (a, b) = std::os::unix::net::UnixStream::pair().map_err(|e| e.to_string())?;
        let scm_main = ScmSocket::new(a.into_raw_fd()).map_err(|e| e.to_string())?;
        let scm_worker_fd = b.into_raw_fd();
        let scm_worker = ScmSocket::new(scm_worker_fd).map_err(|e| e.to_string())?;
        scm_main.send_listeners(listeners).map_err(|e| format!("send_listeners to the new worker: {e}"))?;
        let exit = Arc::new(Mutex::new(None));
        let exit_t = exit.clone();
        let initial_state = initial.produce_initial_state();
        let (tx, rx) = std::sync::mpsc::channel::<Result<(), String>>();
        let thread = thread::Builder::new()
            .name(format!("rig-worker-ho-{prefix}"))
            .stack_size(8 << 20)
            .spawn(move || {
                match std::env::var("HO_LOG") {
                    // debugging aid: HO_LOG=/tmp/x.log writes the worker's debug log there
                    Ok(path) => {
                        let _ = sozu_command_lib::logging::setup_logging(&format!("file://{path}.{prefix}"), false, None, None, None, "debug", prefix);
                    }
                    Err(_) => quiet_logs_silently(),
                }
                let res = catch_unwind(AssertUnwindSafe(|| match Server::try_new_from_config(cmd_worker, scm_worker, sc, initial_state, false) {
                    Ok(mut server) => {
                        let _ = tx.send(Ok(()));
                        server.run();
                        None
                    }
                    Err(e) => {
                        let _ = tx.send(Err(format!("{e}")));
                        Some(format!("{e}"))
                    }
                }));
                let st = match res {
                    Ok(r) => r,
                    Err(p) => Some(p.downcast_ref::<String>().cloned().or_else(|| p.downcast_ref::<&str>().map(|s| s.to_string())).unwrap_or_else(|| "panic".into())),
                };
                *exit_t.lock().unwrap_or_else(|e| e.into_inner()) = Some(st);
            })
            .map_err(|e| e.to_string())?;
        let hw = HW { channel: Some(cmd_main), scm_main, scm_worker_fd, thread: Some(thread), exit, next_id: 0, prefix, state: initial.clone(), log: vec![], log_at: vec![] };
        match rx.recv_timeout(Duration::from_secs(10)) {
            Ok(Ok(())) => Ok(hw),
            Ok(Err(e)) => Err(format!("worker start: {e}")),
            Err(_) => Err("worker did not come up".into()),
        }
    }
    fn send(&mut self, rt: RequestType) -> Result<String, String> {
        self.next_id += 1;
        let id = format!("{}-{}", self.prefix, self.next_id);
        let content = Request { request_type: Some(rt) };
        let _ = self.state.dispatch(&content);
        self.channel.as_mut().ok_or("channel closed")?.write_message(&WorkerRequest { id: id.clone(), content }).map_err(|e| format!("write: {e}"))?;
        Ok(id)
    }
    fn recv(&mut self, timeout: Duration) -> Option<WorkerResponse> {
        let ch = self.channel.as_mut()?;
        match ch.read_message_blocking_timeout(Some(timeout.max(Duration::from_millis(1)))) {
            Ok(r) => {
                self.log.push(r.clone());
                self.log_at.push(Instant::now());
                Some(r)
            }
            Err(_) => None,
        }
    }
    /// final (non-PROCESSING) answer to `id`
    fn wait_final(&mut self, id: &str, timeout: Duration) -> Result<WorkerResponse, String> {
        if let Some(r) = self.log.iter().find(|r| r.id == id && r.status != ResponseStatus::Processing as i32) {
            return Ok(r.clone());
        }
        let until = Instant::now() + timeout;
        while Instant::now() < until {
            if let Some(r) = self.recv(until.saturating_duration_since(Instant::now())) {
                if r.id == id && r.status != ResponseStatus::Processing as i32 {
                    return Ok(r);
                }
            } else if self.exited().is_some() {
                break;
            }
        }
        Err(format!("no final answer to {id}"))
    }
    fn ok(&mut self, rt: RequestType) -> Result<(), String> {
        let id = self.send(rt)?;
        let r = self.wait_final(&id, T)?;
        if r.status == ResponseStatus::Ok as i32 {
            Ok(())
        } else {
            Err(format!("{id} failed: {}", r.message))
        }
    }
    fn finals(&self, id: &str) -> usize {
        self.log.iter().filter(|r| r.id == id && r.status != ResponseStatus::Processing as i32).count()
    }
    fn exited(&self) -> Option<Option<String>> {
        self.exit.lock().unwrap_or_else(|e| e.into_inner()).clone()
    }
    fn join_within(&mut self, timeout: Duration) -> bool {
        let until = Instant::now() + timeout;
        loop {
            match &self.thread {
                None => return true,
                Some(t) if t.is_finished() => {
                    let _ = self.thread.take().unwrap().join();
                    return true;
                }
                _ => {}
            }
            if Instant::now() >= until {
                return false;
            }
            thread::sleep(Duration::from_millis(1));
        }
    }
    fn hard_stop(&mut self) {
        if self.exited().is_none() {
            let _ = self.send(RequestType::HardStop(HardStop {}));
        }
        let mut joined = self.join_within(Duration::from_secs(2));
        self.channel = None;
        if !joined {
            joined = self.join_within(Duration::from_secs(1));
        }
        unsafe {
            libc::close(self.scm_main.fd);
            if joined {
                libc::close(self.scm_worker_fd);
            }
        }
        if !joined {
            self.thread = None;
        }
    }
}


// ------------------------------------------------------- minimal H2 client ----

const H2_BODY: usize = 70_000;

fn h2_body(i: usize) -> Vec<u8> {
    (0..H2_BODY).map(|k| b'a' + ((k / 3 + k * 5 + i) % 26) as u8).collect()
}

struct H2Client {
    tls: TlsStream,
    buf: Vec<u8>,
    data: Vec<u8>,
    end_stream: bool,
    rst: Option<u32>,
    goaway: usize,
    pings: usize,
    closed: bool,
}

fn h2_frame(ty: u8, flags: u8, stream: u32, payload: &[u8]) -> Vec<u8> {
    let mut f = vec![(payload.len() >> 16) as u8, (payload.len() >> 8) as u8, payload.len() as u8, ty, flags];
    f.extend_from_slice(&stream.to_be_bytes());
    f.extend_from_slice(payload);
    f
}

impl H2Client {
    /// TLS + preface + SETTINGS + one GET on stream 1 (default 65535-byte windows)
    fn get(addr: SocketAddr, host: &str, path: &str) -> Result<H2Client, String> {
        use std::io::Write;
        let mut tls = tls_connect(addr, host, &["h2"], Duration::from_secs(2)).map_err(|e| format!("tls: {e}"))?;
        let mut out = b"PRI * HTTP/2.0\r\n\r\nSM\r\n\r\n".to_vec();
        out.extend(h2_frame(4, 0, 0, &[]));
        let mut hb = vec![0x82u8, 0x87, 0x04, path.len() as u8];
        hb.extend_from_slice(path.as_bytes());
        hb.extend_from_slice(&[0x01, host.len() as u8]);
        hb.extend_from_slice(host.as_bytes());
        if std::env::var("HO_H2_VARIANT").map(|v| v == "connwin").unwrap_or(false) {
            out.extend(h2_frame(8, 0, 0, &(1u32 << 20).to_be_bytes()));
        }
        out.extend(h2_frame(1, 0x5, 1, &hb));
        tls.write_all(&out).map_err(|e| format!("h2 write: {e}"))?;
        tls.flush().map_err(|e| format!("h2 flush: {e}"))?;
        Ok(H2Client { tls, buf: vec![], data: vec![], end_stream: false, rst: None, goaway: 0, pings: 0, closed: false })
    }
    fn send(&mut self, bytes: &[u8]) -> Result<(), String> {
        use std::io::Write;
        self.tls.write_all(bytes).and_then(|_| self.tls.flush()).map_err(|e| format!("h2 write: {e}"))
    }
    /// read frames until `done(self)` or the deadline
    fn pump(&mut self, wait: Duration, done: impl Fn(&H2Client) -> bool) {
        use std::io::Read;
        let until = Instant::now() + wait;
        let _ = self.tls.sock.set_read_timeout(Some(Duration::from_millis(50)));
        let mut tmp = [0u8; 16384];
        while !done(self) && !self.closed && Instant::now() < until {
            match self.tls.read(&mut tmp) {
                Ok(0) => self.closed = true,
                Ok(n) => self.buf.extend_from_slice(&tmp[..n]),
                Err(e) if matches!(e.kind(), std::io::ErrorKind::WouldBlock | std::io::ErrorKind::TimedOut) => {}
                Err(_) => self.closed = true,
            }
            while self.buf.len() >= 9 {
                let len = ((self.buf[0] as usize) << 16) | ((self.buf[1] as usize) << 8) | self.buf[2] as usize;
                if self.buf.len() < 9 + len {
                    break;
                }
                let (ty, flags) = (self.buf[3], self.buf[4]);
                let sid = u32::from_be_bytes([self.buf[5] & 0x7f, self.buf[6], self.buf[7], self.buf[8]]);
                let payload: Vec<u8> = self.buf[9..9 + len].to_vec();
                self.buf.drain(..9 + len);
                match ty {
                    0 if sid == 1 => {
                        self.data.extend_from_slice(&payload);
                        if flags & 1 != 0 {
                            self.end_stream = true;
                        }
                    }
                    1 if sid == 1 && flags & 1 != 0 => self.end_stream = true,
                    3 if sid == 1 => self.rst = Some(u32::from_be_bytes([payload[0], payload[1], payload[2], payload[3]])),
                    4 if flags & 1 == 0 => {
                        let ack = h2_frame(4, 1, 0, &[]);
                        let _ = self.send(&ack);
                    }
                    6 if flags & 1 == 0 => {
                        let ack = h2_frame(6, 1, 0, &payload);
                        let _ = self.send(&ack);
                        self.pings += 1;
                    }
                    7 => self.goaway += 1,
                    _ => {}
                }
            }
        }
    }
}

// ------------------------------------------------------------- scenario ----

#[derive(Clone, Debug, Default)]
struct Scenario {
    counts: [usize; 4], // http, https, tcp, udp
    v6: u64,            // percent
    clients: Vec<String>,
    /// how many in-flight requests are completed between the hand-over and the SoftStop
    early: usize,
    handover: bool,
    hammer: bool,
    /// listeners handed back one by one with DeactivateListener{to_scm} before the hand-over / stop
    deact: usize,
}

fn parse_scenario(op: &str) -> Option<Scenario> {
    let mut s = Scenario::default();
    for w in op.split_whitespace().skip(1) {
        let (k, v) = w.split_once('=')?;
        match k {
            "L" => {
                let p: Vec<usize> = v.split(',').filter_map(|x| x.parse().ok()).collect();
                if p.len() != 4 {
                    return None;
                }
                s.counts = [p[0], p[1], p[2], p[3]];
            }
            "v6" => s.v6 = v.parse().ok()?,
            "clients" => s.clients = if v == "-" { vec![] } else { v.split('+').map(|x| x.to_string()).collect() },
            "early" => s.early = v.parse().ok()?,
            "mode" => s.handover = v == "handover",
            "hammer" => s.hammer = v == "1",
            "deact" => s.deact = v.parse().ok()?,
            _ => return None,
        }
    }
    Some(s)
}

const PROTOS: [&str; 4] = ["http", "https", "tcp", "udp"];
const BODY: usize = 3000;

/// size of the response of the `buftail` phase: far more than sozu's buffer and
/// the kernel buffers of a client that does not read
const BIG: usize = 8 << 20;

fn big_body(i: usize) -> Vec<u8> {
    (0..BIG).map(|k| b'A' + ((k / 7 + k * 3 + i) % 26) as u8).collect()
}

fn body_of(i: usize) -> Vec<u8> {
    (0..BODY).map(|k| b'a' + ((k * 7 + i * 13) % 26) as u8).collect()
}

/// one scripted client with its own cluster and backend
struct Client {
    phase: String,
    conn: Option<RawConn>,
    back: Option<RawConn>,
    backend: MockBackend,
    idx: usize,
    done: bool,
    tcp: bool,
    /// backend thread still pushing a large response
    writer: Option<JoinHandle<()>>,
    h2: Option<H2Client>,
    /// the h2 connection was already closed by sozu when the SoftStop was about to be sent
    dead_before_stop: bool,
    /// `h2park`: (listener knob h2_graceful_shutdown_deadline_seconds, None = unset; delay in ms
    /// after the SoftStop at which the backend answers)
    park: Option<(Option<u32>, u64)>,
    stop_at: Option<Instant>,
}

impl Client {
    /// has a request (or stream) under way
    fn inflight(&self) -> bool {
        self.park.is_some() || matches!(self.phase.as_str(), "head" | "sent" | "midbody" | "tcpmid" | "buftail" | "h2tail" | "h2stoptail")
    }
    /// ... that the worker waits for before acknowledging a SoftStop: an HTTP
    /// request whose head was received in full (`Mux::shutting_down` only
    /// looks at linked streams; `TcpSession::shutting_down` is always true)
    fn holds_stop(&self) -> bool {
        !self.dead_before_stop && (self.park.is_some() || matches!(self.phase.as_str(), "sent" | "midbody" | "buftail" | "h2tail" | "h2stoptail"))
    }
}

struct Run {
    r: ImplRun,
    /// when the harness started to complete each request that holds the stop
    finish_started: Vec<Instant>,
    /// when the final answer to the SoftStop was read
    acked_at: Option<Instant>,
}
impl Run {
    fn fail(&mut self, class: &str, detail: String) {
        self.r.oracle.push((class.to_string(), detail));
    }
}

/// a client whose kernel receive buffer is tiny (set before connect, so the
/// advertised window is small from the start): a slow reader
fn connect_rcvbuf(addr: SocketAddr, rcvbuf: i32) -> Result<RawConn, String> {
    use std::os::unix::io::FromRawFd;
    let fam = if addr.is_ipv4() { libc::AF_INET } else { libc::AF_INET6 };
    let fd = unsafe { libc::socket(fam, libc::SOCK_STREAM | libc::SOCK_CLOEXEC, 0) };
    if fd < 0 {
        return Err("socket()".into());
    }
    let stream = unsafe { TcpStream::from_raw_fd(fd) };
    unsafe {
        libc::setsockopt(fd, libc::SOL_SOCKET, libc::SO_RCVBUF, &rcvbuf as *const i32 as *const libc::c_void, 4);
        let mut st: libc::sockaddr_storage = std::mem::zeroed();
        let len = match addr {
            SocketAddr::V4(v4) => {
                let sin = &mut st as *mut _ as *mut libc::sockaddr_in;
                (*sin).sin_family = libc::AF_INET as u16;
                (*sin).sin_port = v4.port().to_be();
                (*sin).sin_addr.s_addr = u32::from_ne_bytes(v4.ip().octets());
                std::mem::size_of::<libc::sockaddr_in>()
            }
            SocketAddr::V6(v6) => {
                let sin = &mut st as *mut _ as *mut libc::sockaddr_in6;
                (*sin).sin6_family = libc::AF_INET6 as u16;
                (*sin).sin6_port = v6.port().to_be();
                (*sin).sin6_addr.s6_addr = v6.ip().octets();
                std::mem::size_of::<libc::sockaddr_in6>()
            }
        };
        if libc::connect(fd, &st as *const _ as *const libc::sockaddr, len as u32) != 0 {
            return Err(format!("connect {addr}: {}", std::io::Error::last_os_error()));
        }
    }
    Ok(RawConn::from_stream(stream))
}

fn rc_connect(addr: SocketAddr) -> Result<RawConn, String> {
    TcpStream::connect_timeout(&addr, Duration::from_secs(2)).map(RawConn::from_stream).map_err(|e| format!("connect {addr}: {e}"))
}

/// connect; the socket is reset on close (SO_LINGER 0) so that thousands of
/// probe connections leave no TIME_WAIT entry holding an ephemeral port
fn can_connect(addr: SocketAddr) -> Result<TcpStream, std::io::Error> {
    let s = TcpStream::connect_timeout(&addr, Duration::from_secs(1))?;
    let lg = libc::linger { l_onoff: 1, l_linger: 0 };
    unsafe {
        use std::os::unix::io::AsRawFd;
        libc::setsockopt(s.as_raw_fd(), libc::SOL_SOCKET, libc::SO_LINGER, &lg as *const _ as *const libc::c_void, std::mem::size_of::<libc::linger>() as u32);
    }
    Ok(s)
}

fn run_scenario(sc: &Scenario, run: &mut Run) -> Result<(), String> {
    // ---- old worker with its listeners
    let mut w1 = HW::start("OLD", &Listeners::default(), &ConfigState::new())?;
    let res = run_with_old(sc, run, &mut w1);
    w1.hard_stop();
    res
}

fn run_with_old(sc: &Scenario, run: &mut Run, w1: &mut HW) -> Result<(), String> {
    let mut rng = Rng::new(sc.counts.iter().sum::<usize>() as u64 * 7919 + sc.v6 + sc.clients.len() as u64);
    let mut reserved: Vec<Reserved> = vec![];
    let mut declared: [Vec<SocketAddr>; 4] = Default::default();
    for k in 0..4 {
        for _ in 0..sc.counts[k] {
            let v6 = rng.below(100) < sc.v6;
            let rsv = reserve(v6, k == 3)?;
            let a = rsv.addr;
            let (add, ty) = match k {
                0 => (RequestType::AddHttpListener(ListenerBuilder::new_http(a.into()).to_http(None).map_err(|e| e.to_string())?), ListenerType::Http),
                1 => (RequestType::AddHttpsListener(ListenerBuilder::new_https(a.into()).to_tls(None).map_err(|e| e.to_string())?), ListenerType::Https),
                2 => (RequestType::AddTcpListener(ListenerBuilder::new_tcp(a.into()).to_tcp(None).map_err(|e| e.to_string())?), ListenerType::Tcp),
                _ => (RequestType::AddUdpListener(ListenerBuilder::new_udp(a.into()).to_udp(None).map_err(|e| e.to_string())?), ListenerType::Udp),
            };
            w1.ok(add)?;
            w1.ok(RequestType::ActivateListener(ActivateListener { address: a.into(), proxy: ty.into(), from_scm: false }))?;
            if k == 3 {
                drop(rsv); // a bound UDP socket in the reuseport group would steal datagrams
            } else {
                reserved.push(rsv);
            }
            declared[k].push(a);
        }
    }
    // (the list of TCP-type addresses is computed after the single-listener hand-backs)

    // ---- clients with requests in flight on the old worker
    let mut clients: Vec<Client> = vec![];
    for (i, phase) in sc.clients.iter().enumerate() {
        let tcp = phase.starts_with("tcp");
        let front = if tcp { declared[2].first() } else { declared[0].first() };
        let Some(front) = front.cloned() else { continue };
        let backend = MockBackend::listen().map_err(|e| e.to_string())?;
        let cid = format!("cl{i}");
        w1.ok(RequestType::AddCluster(cluster(&cid)))?;
        if tcp {
            // one tcp cluster per tcp listener: use listener number i when there is one
            let front = declared[2].get(i % declared[2].len().max(1)).cloned().unwrap_or(front);
            if w1.state.tcp_fronts.values().flatten().any(|f| f.address == front) {
                continue;
            }
            w1.ok(RequestType::AddTcpFrontend(RequestTcpFrontend { cluster_id: cid.clone(), address: front.into(), ..Default::default() }))?;
            w1.ok(RequestType::AddBackend(AddBackend { cluster_id: cid.clone(), backend_id: format!("{cid}-0"), address: backend.addr.into(), load_balancing_parameters: Some(LoadBalancingParams::default()), sticky_id: None, backup: None }))?;
            let mut c = rc_connect(front)?;
            c.write_all(b"hello-from-client", T).map_err(|e| e.to_string())?;
            let mut b = backend.accept(T).map_err(|e| format!("tcp backend accept: {e}"))?;
            b.read_until_len(17, T);
            b.write_all(&body_of(i)[..BODY / 2], T).map_err(|e| e.to_string())?;
            c.read_until_len(BODY / 2, T);
            clients.push(Client { phase: phase.clone(), conn: Some(c), back: Some(b), backend, idx: i, done: false, tcp: true, writer: None, h2: None, dead_before_stop: false, park: None, stop_at: None });
            continue;
        }
        if let Some(rest) = phase.strip_prefix("h2park-") {
            // an H2 stream parked on the backend across the SoftStop, on an HTTPS listener with a
            // chosen h2_graceful_shutdown_deadline_seconds
            let (k, dms) = rest.split_once('-').ok_or("bad h2park phase")?;
            let knob: Option<u32> = if k == "u" { None } else { Some(k.parse().map_err(|_| "bad knob")?) };
            let dms: u64 = dms.parse().map_err(|_| "bad delay")?;
            let rsv = reserve(false, false)?;
            let a = rsv.addr;
            let mut lc = ListenerBuilder::new_https(a.into()).to_tls(None).map_err(|e| e.to_string())?;
            lc.h2_graceful_shutdown_deadline_seconds = knob;
            w1.ok(RequestType::AddHttpsListener(lc))?;
            w1.ok(RequestType::ActivateListener(ActivateListener { address: a.into(), proxy: ListenerType::Https.into(), from_scm: false }))?;
            reserved.push(rsv);
            declared[1].push(a);
            let path = format!("/h2park{i}");
            w1.ok(RequestType::AddHttpsFrontend(RequestHttpFrontend { cluster_id: Some(cid.clone()), address: a.into(), hostname: "localhost".into(), path: PathRule::prefix(path.clone()), position: RulePosition::Tree.into(), ..Default::default() }))?;
            w1.ok(RequestType::AddCertificate(AddCertificate {
                address: a.into(),
                certificate: CertificateAndKey { certificate: asset("local-certificate.pem").map_err(|e| e.to_string())?, key: asset("local-key.pem").map_err(|e| e.to_string())?, certificate_chain: vec![], versions: vec![], names: vec![] },
                expired_at: None,
            }))?;
            w1.ok(RequestType::AddBackend(AddBackend { cluster_id: cid.clone(), backend_id: format!("{cid}-0"), address: backend.addr.into(), load_balancing_parameters: Some(LoadBalancingParams::default()), sticky_id: None, backup: None }))?;
            let h2 = H2Client::get(a, "localhost", &path)?;
            let mut b = backend.accept(T).map_err(|e| format!("h2park backend accept: {e}"))?;
            b.read_until(b"\r\n\r\n", T);
            clients.push(Client { phase: phase.clone(), conn: None, back: Some(b), backend, idx: i, done: false, tcp: false, writer: None, h2: Some(h2), dead_before_stop: false, park: Some((knob, dms)), stop_at: None });
            continue;
        }
        if phase == "h2tail" || phase == "h2stoptail" {
            // an HTTPS listener of its own (IPv4: the TLS client of the rig), h2 client with the
            // default 65535-byte windows, HTTP/1.1 backend answering 70000 bytes + Connection: close
            let rsv = reserve(false, false)?;
            let a = rsv.addr;
            w1.ok(RequestType::AddHttpsListener(ListenerBuilder::new_https(a.into()).to_tls(None).map_err(|e| e.to_string())?))?;
            w1.ok(RequestType::ActivateListener(ActivateListener { address: a.into(), proxy: ListenerType::Https.into(), from_scm: false }))?;
            reserved.push(rsv);
            declared[1].push(a);
            let path = if std::env::var("HO_H2_VARIANT").map(|v| v == "demo" || v == "rootpath").unwrap_or(false) { "/".to_string() } else { format!("/h2tail{i}") };
            w1.ok(RequestType::AddHttpsFrontend(RequestHttpFrontend { cluster_id: Some(cid.clone()), address: a.into(), hostname: "localhost".into(), path: PathRule::prefix(path.clone()), position: RulePosition::Tree.into(), ..Default::default() }))?;
            w1.ok(RequestType::AddCertificate(AddCertificate {
                address: a.into(),
                certificate: CertificateAndKey { certificate: asset("local-certificate.pem").map_err(|e| e.to_string())?, key: asset("local-key.pem").map_err(|e| e.to_string())?, certificate_chain: vec![], versions: vec![], names: vec![] },
                expired_at: None,
            }))?;
            w1.ok(RequestType::AddBackend(AddBackend { cluster_id: cid.clone(), backend_id: format!("{cid}-0"), address: backend.addr.into(), load_balancing_parameters: Some(LoadBalancingParams::default()), sticky_id: None, backup: None }))?;
            let mut h2 = H2Client::get(a, "localhost", &path)?;
            let mut b = backend.accept(T).map_err(|e| format!("h2tail backend accept: {e}"))?;
            b.read_until(b"\r\n\r\n", T);
            // `h2stoptail` is the sequencing of the C01 seed demonstration (response head with a
            // Content-Type line, backend half-closes and keeps reading, 300 ms before the stop): the
            // unchanged tree delivers the tail there; `h2tail` (shorter head, full close) hits the
            // registered baseline defect before any SoftStop
            let variant = if phase == "h2stoptail" { "demo".to_string() } else { std::env::var("HO_H2_VARIANT").unwrap_or_default() };
            let head = if variant == "demo" || variant == "ctype" {
                format!("HTTP/1.1 200 OK\r\nContent-Type: text/plain\r\nContent-Length: {H2_BODY}\r\nConnection: close\r\n\r\n")
            } else if variant == "nocloseheader" || variant == "keepopen" {
                format!("HTTP/1.1 200 OK\r\nContent-Length: {H2_BODY}\r\n\r\n")
            } else {
                format!("HTTP/1.1 200 OK\r\nContent-Length: {H2_BODY}\r\nConnection: close\r\n\r\n")
            };
            b.write_all(head.as_bytes(), T).map_err(|e| e.to_string())?;
            b.write_all(&h2_body(i), T).map_err(|e| e.to_string())?;
            let mut keep_back = None;
            if variant == "keepopen" {
                std::mem::forget(b);
            } else if variant == "halfclose" || variant == "demo" {
                if let Ok(ms) = std::env::var("HO_FIN_DELAY_MS") {
                    thread::sleep(Duration::from_millis(ms.parse().unwrap_or(0)));
                }
                b.shutdown_write();
                keep_back = Some(b);
            } else {
                b.close();
            }
            // the client's window lets 65535 bytes through; sozu keeps the other 4465
            h2.pump(T, |c| c.data.len() >= 65535);
            if h2.data.len() != 65535 {
                return Err(format!("h2tail set-up: {} bytes before the window closed", h2.data.len()));
            }
            thread::sleep(Duration::from_millis(if phase == "h2stoptail" { 300 } else { 30 }));
            clients.push(Client { phase: phase.clone(), conn: None, back: keep_back, backend, idx: i, done: false, tcp: false, writer: None, h2: Some(h2), dead_before_stop: false, park: None, stop_at: None });
            continue;
        }
        let host = format!("c{i}.local");
        w1.ok(RequestType::AddHttpFrontend(RequestHttpFrontend { cluster_id: Some(cid.clone()), address: front.into(), hostname: host.clone(), path: PathRule::prefix("/".to_string()), position: RulePosition::Tree.into(), ..Default::default() }))?;
        w1.ok(RequestType::AddBackend(AddBackend { cluster_id: cid.clone(), backend_id: format!("{cid}-0"), address: backend.addr.into(), load_balancing_parameters: Some(LoadBalancingParams::default()), sticky_id: None, backup: None }))?;
        let mut c = if phase == "buftail" { connect_rcvbuf(front, 4096)? } else { rc_connect(front)? };
        let req = format!("GET /r{i} HTTP/1.1\r\nHost: {host}\r\n\r\n");
        let mut back = None;
        let mut writer = None;
        match phase.as_str() {
            "buftail" => {
                // the backend answers with a large, cleanly delimited response and closes; the
                // client does not read: sozu ends up holding the tail of a complete response
                c.write_all(req.as_bytes(), T).map_err(|e| e.to_string())?;
                let mut b = backend.accept(T).map_err(|e| format!("backend accept: {e}"))?;
                b.read_until(b"\r\n\r\n", T);
                writer = Some(thread::spawn(move || {
                    let head = format!("HTTP/1.1 200 OK\r\nContent-Length: {BIG}\r\nConnection: close\r\n\r\n");
                    let _ = b.write_all(head.as_bytes(), Duration::from_secs(30));
                    let _ = b.write_all(&big_body(i), Duration::from_secs(30));
                    b.close();
                }));
                thread::sleep(Duration::from_millis(30));
            }
            "connected" => {}
            "head" => c.write_all(&req.as_bytes()[..req.len() - 10], T).map_err(|e| e.to_string())?,
            "sent" | "midbody" | "idle" => {
                c.write_all(req.as_bytes(), T).map_err(|e| e.to_string())?;
                let mut b = backend.accept(T).map_err(|e| format!("backend accept: {e}"))?;
                b.read_until(b"\r\n\r\n", T);
                let body = body_of(i);
                let head = format!("HTTP/1.1 200 OK\r\nContent-Length: {BODY}\r\n\r\n");
                match phase.as_str() {
                    "midbody" => {
                        b.write_all(head.as_bytes(), T).map_err(|e| e.to_string())?;
                        b.write_all(&body[..BODY / 2], T).map_err(|e| e.to_string())?;
                        c.read_until(b"\r\n\r\n", T);
                    }
                    "idle" => {
                        b.write_all(head.as_bytes(), T).map_err(|e| e.to_string())?;
                        b.write_all(&body, T).map_err(|e| e.to_string())?;
                        let m = read_http_message(&mut c, T).map_err(|e| format!("baseline exchange: {e}"))?;
                        if m.body != body {
                            return Err("baseline exchange: wrong body".into());
                        }
                    }
                    _ => {}
                }
                back = Some(b);
            }
            _ => return Err(format!("unknown phase {phase}")),
        }
        clients.push(Client { phase: phase.clone(), conn: Some(c), back, backend, idx: i, done: false, tcp: false, writer, h2: None, dead_before_stop: false, park: None, stop_at: None });
    }

    // ---- single listeners handed back with DeactivateListener { to_scm: true }
    let mut deactivated = 0usize;
    let mut single_fds: Vec<RawFd> = vec![];
    let mut orig = sc.counts;
    for _ in 0..sc.deact {
        // never the listener the HTTP clients use (the first http one), never one that carries a
        // frontend or an h2 client of this scenario (those were appended after the declared ones)
        let pick = [2usize, 0, 1, 3].iter().find_map(|&k| {
            let from = if k == 0 { 1 } else { 0 };
            (from..orig[k].min(declared[k].len())).find(|&i| {
                let a = declared[k][i];
                !(k == 2 && w1.state.tcp_fronts.values().flatten().any(|f| f.address == a))
            }).map(|i| (k, i))
        });
        let Some((k, p)) = pick else { break };
        let a = declared[k].remove(p);
        orig[k] -= 1;
        let ty = [ListenerType::Http, ListenerType::Https, ListenerType::Tcp, ListenerType::Udp][k];
        let id = w1.send(RequestType::DeactivateListener(DeactivateListener { address: a.into(), proxy: ty.into(), to_scm: true }))?;
        let resp = w1.wait_final(&id, T)?;
        if resp.status != ResponseStatus::Ok as i32 {
            run.fail("handover-failed", format!("DeactivateListener {} {a}: {}", PROTOS[k], resp.message));
            continue;
        }
        let mut scm = w1.scm_main.clone();
        let _ = scm.set_blocking(false);
        let mut got = None;
        let until = Instant::now() + T;
        while Instant::now() < until {
            if let Ok(l) = scm.receive_listeners() {
                got = Some(l);
                break;
            }
            thread::sleep(Duration::from_millis(1));
        }
        match got {
            None => run.fail("listener-lost-in-handover", format!("{} listener {a}: nothing on the scm socket after DeactivateListener(to_scm) answered Ok", PROTOS[k])),
            Some(l) => {
                let lists = [&l.http, &l.tls, &l.tcp, &l.udp];
                let total: usize = lists.iter().map(|x| x.len()).sum();
                if total != 1 || lists[k].len() != 1 || lists[k][0].0 != a {
                    run.fail("listener-lost-in-handover", format!("{} listener {a} deactivated to scm: received {:?}", PROTOS[k], l));
                } else if sockname(lists[k][0].1) != Some(a) {
                    run.fail("listener-address-changed", format!("{} listener {a}: descriptor is bound to {:?}", PROTOS[k], sockname(lists[k][0].1)));
                } else if k != 3 {
                    // the socket is ours now and still listening: nobody must be refused
                    if let Err(e) = can_connect(a) {
                        run.fail("accept-gap-during-handover", format!("{a} after DeactivateListener(to_scm): {e}"));
                    }
                }
                for x in lists.iter() {
                    for (_, fd) in x.iter() {
                        single_fds.push(*fd);
                    }
                }
            }
        }
        deactivated += 1;
    }
    let tcpish: Vec<SocketAddr> = declared[0].iter().chain(declared[1].iter()).chain(declared[2].iter()).cloned().collect();
    run.r.tags.push(format!("deactivated-to-scm:{deactivated}"));

    // ---- connector hammering the addresses during the hand-over
    let stop_flag = Arc::new(AtomicBool::new(false));
    let refused = Arc::new(Mutex::new(Vec::<String>::new()));
    let attempts = Arc::new(AtomicUsize::new(0));
    let hammer = if sc.hammer && sc.handover && !tcpish.is_empty() {
        let addrs: Vec<SocketAddr> = tcpish.iter().take(6).cloned().collect();
        let (sf, rf, at) = (stop_flag.clone(), refused.clone(), attempts.clone());
        Some(thread::spawn(move || {
            let mut i = 0;
            while !sf.load(Ordering::SeqCst) {
                let a = addrs[i % addrs.len()];
                i += 1;
                match can_connect(a) {
                    Ok(s) => drop(s),
                    Err(e) => rf.lock().unwrap().push(format!("{a}: {e}")),
                }
                at.fetch_add(1, Ordering::SeqCst);
                thread::sleep(Duration::from_millis(if i < 400 { 3 } else { 25 }));
            }
        }))
    } else {
        None
    };

    // ---- hand-over
    let mut w2: Option<HW> = None;
    let mut gap: Vec<(SocketAddr, TcpStream)> = vec![];
    let result = (|| -> Result<(), String> {
        if sc.handover {
            let id = w1.send(RequestType::ReturnListenSockets(ReturnListenSockets {}))?;
            let resp = w1.wait_final(&id, T)?;
            if resp.status != ResponseStatus::Ok as i32 {
                run.fail("handover-failed", format!("ReturnListenSockets: {}", resp.message));
                return Ok(());
            }
            let mut scm = w1.scm_main.clone();
            let _ = scm.set_blocking(false);
            let mut got = None;
            let until = Instant::now() + T;
            while Instant::now() < until {
                match scm.receive_listeners() {
                    Ok(l) => {
                        got = Some(l);
                        break;
                    }
                    Err(e) => {
                        let s = format!("{e}");
                        if !s.contains("EAGAIN") && !s.contains("temporarily") {
                            run.fail("handover-failed", format!("receive_listeners: {s}"));
                            return Ok(());
                        }
                        thread::sleep(Duration::from_millis(1));
                    }
                }
            }
            let Some(listeners) = got else {
                run.fail("listener-lost-in-handover", "nothing arrived on the scm socket after ReturnListenSockets answered Ok".into());
                return Ok(());
            };
            // every declared listener came back, under its protocol, with a descriptor bound to its address
            let lists = [&listeners.http, &listeners.tls, &listeners.tcp, &listeners.udp];
            for k in 0..4 {
                let got_addrs: BTreeSet<SocketAddr> = lists[k].iter().map(|p| p.0).collect();
                for a in &declared[k] {
                    if !got_addrs.contains(a) {
                        run.fail("listener-lost-in-handover", format!("{} listener {a} was not returned by the old worker", PROTOS[k]));
                    }
                }
                for (a, fd) in lists[k].iter() {
                    if !declared[k].contains(a) {
                        run.fail("listener-address-changed", format!("{} listener {a} returned but never declared", PROTOS[k]));
                    }
                    if sockname(*fd) != Some(*a) {
                        run.fail("listener-address-changed", format!("{} listener {a}: descriptor is bound to {:?}", PROTOS[k], sockname(*fd)));
                    }
                }
            }
            // connections made while nobody accepts wait in the inherited backlog
            for a in tcpish.iter().take(4) {
                match can_connect(*a) {
                    Ok(s) => gap.push((*a, s)),
                    Err(e) => run.fail("accept-gap-during-handover", format!("{a} between the two workers: {e}")),
                }
            }
            // the successor: same state, listeners not active until activated with the inherited sockets
            let mut st = w1.state.clone();
            for l in st.http_listeners.values_mut() {
                l.active = false;
            }
            for l in st.https_listeners.values_mut() {
                l.active = false;
            }
            for l in st.tcp_listeners.values_mut() {
                l.active = false;
            }
            for l in st.udp_listeners.values_mut() {
                l.active = false;
            }
            let started = HW::start("NEW", &listeners, &st);
            listeners.close();
            let mut n = started?;
            for req in w1.state.generate_activate_requests() {
                if let Some(rt) = req.request_type {
                    if let Err(e) = n.ok(rt) {
                        run.fail("listener-lost-in-handover", format!("activation in the successor: {e}"));
                    }
                }
            }
            w2 = Some(n);
        }

        // ---- some in-flight requests finish before the stop
        let mut finished = 0;
        let bt_early = std::env::var("HO_BUFTAIL_EARLY").is_ok();
        for c in clients.iter_mut().filter(|c| c.inflight() && c.park.is_none() && c.phase != "h2stoptail" && (c.phase != "h2tail" || bt_early) && (c.phase != "buftail" || bt_early)) {
            if finished >= sc.early && !(bt_early && (c.phase == "buftail" || c.phase == "h2tail")) {
                break;
            }
            finish_client(c, run);
            finished += 1;
        }

        // ---- is the window-limited h2 client still connected? (the registered baseline defect
        // tears such a session down when the backend closes, before any stop)
        for c in clients.iter_mut() {
            if let Some(h2) = c.h2.as_mut() {
                if !c.done {
                    h2.pump(Duration::from_millis(20), |_| false);
                    c.dead_before_stop = h2.closed;
                }
            }
        }
        // ---- soft stop of the old worker, trace fed to the Lean model
        let inflight = clients.iter().filter(|c| c.holds_stop() && !c.done).count();
        let idle = clients.iter().filter(|c| !c.holds_stop() && !c.done).count();
        let listeners_before: usize = declared.iter().map(|l| l.len()).sum::<usize>() + deactivated;
        let mut trace = vec![format!("ho-new {inflight} {idle} {listeners_before}")];
        let mut observed = vec![format!("ho inflight={inflight} idle={idle}")];
        for _ in 0..deactivated {
            trace.push("ho-deactivate".into());
            observed.push("none exited=0".into());
        }
        if sc.handover {
            // the listeners were handed back before: the model must give the same drain accounting
            trace.push("ho-return".into());
            observed.push("none exited=0".into());
        }
        let stop_id = w1.send(RequestType::SoftStop(SoftStop {}))?;
        let stop_at = Instant::now();
        for c in clients.iter_mut() {
            c.stop_at = Some(stop_at);
        }
        let stop_no: u64 = stop_id.rsplit('-').next().and_then(|x| x.parse().ok()).unwrap_or(0);
        let observe = |w1: &mut HW, wait: Duration| -> String {
            let until = Instant::now() + wait;
            while Instant::now() < until && w1.finals(&stop_id) == 0 {
                let _ = w1.recv(Duration::from_millis(20));
            }
            let exited = w1.finals(&stop_id) > 0 && {
                w1.join_within(Duration::from_secs(1));
                w1.exited().is_some()
            };
            if w1.finals(&stop_id) > 0 {
                format!("ack {stop_no} exited={}", exited as u8)
            } else {
                format!("none exited={}", w1.exited().is_some() as u8)
            }
        };
        trace.push(format!("ho-stop {stop_no}"));
        observed.push(observe(w1, if inflight == 0 { Duration::from_secs(2) } else { Duration::from_millis(350) }));
        // a connection attempt on an address only the old worker served
        if !sc.handover {
            if let Some(a) = tcpish.first() {
                trace.push("ho-connect".into());
                let alive_before = w1.exited().is_none();
                let served = match can_connect(*a) {
                    Err(_) => false,
                    Ok(s) => {
                        // the kernel completed the handshake; did the worker take the connection? It
                        // then answers, or closes it at once (a fresh session reports shutting_down);
                        // a connection nobody accepts just sits in the backlog
                        let mut c = RawConn::from_stream(s);
                        let _ = c.write_all(b"GET /late HTTP/1.1\r\nHost: nowhere.local\r\n\r\n", T);
                        let end = c.read_until(b"\r\n\r\n", Duration::from_millis(300));
                        alive_before && w1.exited().is_none() && matches!(end, ReadEnd::Done | ReadEnd::Closed | ReadEnd::Reset)
                    }
                };
                if served {
                    run.fail("accepted-after-stop-ack", format!("{a}: a connection made after SoftStop was taken (answered or closed) by the stopping worker"));
                }
                observed.push(format!("{} exited={}", if served { "accepted" } else { "refused" }, w1.exited().is_some() as u8));
            }
        }
        // requests the worker does not wait for: are they completed all the same?
        for c in clients.iter_mut().filter(|c| c.inflight() && !c.holds_stop() && !c.done) {
            finish_client(c, run);
        }
        // idle sessions are closed by the worker, not held
        for c in clients.iter_mut().filter(|c| !c.inflight() && !c.done) {
            let i = c.idx;
            if let Some(conn) = c.conn.as_mut() {
                if !matches!(conn.read_until_closed_or(Duration::from_secs(1)), ReadEnd::Closed | ReadEnd::Reset) && !conn.eof {
                    // still open: fine only if the successor inherited it from the backlog and serves it
                    let served = sc.handover && c.phase == "connected" && {
                        let req = format!("GET /r{i} HTTP/1.1\r\nHost: c{i}.local\r\n\r\n");
                        conn.write_all(req.as_bytes(), T).is_ok()
                            && c.backend.accept(T).map(|mut b| {
                                b.read_until(b"\r\n\r\n", T);
                                b.write_all(b"HTTP/1.1 200 OK\r\nContent-Length: 2\r\n\r\nok", T).is_ok()
                            }).unwrap_or(false)
                            && read_http_message(conn, T).map(|m| m.body == b"ok").unwrap_or(false)
                    };
                    if served {
                        run.r.tags.push("connected:inherited-by-successor".into());
                    } else {
                        run.fail("idle-connection-held-after-softstop", format!("client {} ({}) is neither served nor closed 1 s after SoftStop", c.idx, c.phase));
                    }
                }
            }
            c.done = true;
        }
        let mut pending: Vec<usize> = clients.iter().enumerate().filter(|(_, c)| c.holds_stop() && !c.done).map(|(i, _)| i).collect();
        // the parked H2 stream first: it ends at a time of its own (the backend's answer or the
        // listener's graceful deadline), the H1 requests end when we finish them - so nothing can be
        // acknowledged while we wait for it, and the order of events stays the one the trace records
        pending.sort_by_key(|i| clients[*i].park.is_none());
        for (n, ci) in pending.iter().enumerate() {
            if w1.finals(&stop_id) > 0 {
                run.fail("softstop-ack-before-drain", format!("final answer to SoftStop while {} request(s) were still in flight", pending.len() - n));
            }
            finish_client(&mut clients[*ci], run);
            let last = n + 1 == pending.len();
            trace.push("ho-finish 1".into());
            observed.push(observe(w1, if last { Duration::from_secs(2) } else { Duration::from_millis(350) }));
        }
        // ---- the acknowledgement
        let _ = observe(w1, Duration::from_secs(2));
        run.acked_at = w1.log.iter().zip(w1.log_at.iter()).find(|(r, _)| r.id == stop_id && r.status != ResponseStatus::Processing as i32).map(|(_, t)| *t);
        match w1.finals(&stop_id) {
            0 => {
                let class = stuck_class(w1);
                run.fail(&class, format!("no final answer to SoftStop 2 s after the last session ended ({} responses seen)", w1.log.len()));
            }
            1 => {
                let until = Instant::now() + Duration::from_millis(150);
                while Instant::now() < until {
                    let _ = w1.recv(Duration::from_millis(20));
                }
                if w1.finals(&stop_id) > 1 {
                    run.fail("softstop-ack-duplicated", format!("{} final answers to one SoftStop", w1.finals(&stop_id)));
                }
                let fin = w1.log.iter().find(|r| r.id == stop_id && r.status != ResponseStatus::Processing as i32).unwrap();
                if fin.status != ResponseStatus::Ok as i32 {
                    run.fail("softstop-ack-missing", format!("SoftStop answered FAILURE: {}", fin.message));
                }
                if !w1.join_within(Duration::from_secs(2)) {
                    run.fail("worker-not-exited-after-softstop", "the worker thread is still running 2 s after its final answer".into());
                } else if let Some(Some(msg)) = w1.exited() {
                    run.fail("worker-not-exited-after-softstop", format!("the worker thread panicked: {msg}"));
                }
            }
            n => run.fail("softstop-ack-duplicated", format!("{n} final answers to one SoftStop")),
        }
        // ---- the model on the observed sequence
        if let Some(driver) = DRIVER.get() {
            let mut input = trace.join("\n");
            input.push('\n');
            let model = run_model(driver, &input);
            if model != observed {
                let i = (0..model.len().max(observed.len())).find(|i| model.get(*i) != observed.get(*i)).unwrap_or(0);
                run.fail(
                    "softstop-trace-model-mismatch",
                    format!("event {} `{}`: worker `{}` vs model `{}`", i, trace.get(i).cloned().unwrap_or_default(), observed.get(i).cloned().unwrap_or_default(), model.get(i).cloned().unwrap_or_default()),
                );
            }
        }
        run.r.tags.push(format!("softstop:inflight={inflight}"));

        // ---- the successor serves every address
        if let Some(n) = w2.as_mut() {
            for a in &tcpish {
                match can_connect(*a) {
                    Ok(s) => drop(s),
                    Err(e) => run.fail("listener-lost-in-handover", format!("{a} does not accept after the hand-over: {e}")),
                }
            }
            // a connection made in the gap and a fresh one are both served by the successor
            if let Some(front) = declared[0].first() {
                let be = MockBackend::listen().map_err(|e| e.to_string())?;
                n.ok(RequestType::AddCluster(cluster("after")))?;
                n.ok(RequestType::AddHttpFrontend(RequestHttpFrontend { cluster_id: Some("after".into()), address: (*front).into(), hostname: "after.local".into(), path: PathRule::prefix("/".to_string()), position: RulePosition::Tree.into(), ..Default::default() }))?;
                n.ok(RequestType::AddBackend(AddBackend { cluster_id: "after".into(), backend_id: "after-0".into(), address: be.addr.into(), load_balancing_parameters: Some(LoadBalancingParams::default()), sticky_id: None, backup: None }))?;
                let mut conns: Vec<(&str, RawConn)> = vec![];
                if let Some(pos) = gap.iter().position(|(a, _)| a == front) {
                    conns.push(("made between the two workers", RawConn::from_stream(gap.remove(pos).1)));
                }
                if let Ok(c) = rc_connect(*front) {
                    conns.push(("made after the hand-over", c));
                }
                for (what, mut c) in conns {
                    let ok = (|| -> Result<(), String> {
                        c.write_all(b"GET /after HTTP/1.1\r\nHost: after.local\r\n\r\n", T).map_err(|e| e.to_string())?;
                        let mut b = be.accept(T).map_err(|e| format!("backend: {e}"))?;
                        b.read_until(b"\r\n\r\n", T);
                        b.write_all(b"HTTP/1.1 200 OK\r\nContent-Length: 5\r\n\r\nafter", T).map_err(|e| e.to_string())?;
                        let m = read_http_message(&mut c, T).map_err(|e| e.to_string())?;
                        if m.body != b"after" {
                            return Err("wrong body".into());
                        }
                        Ok(())
                    })();
                    if let Err(e) = ok {
                        run.fail("listener-lost-in-handover", format!("{front}: a connection {what} is not served by the successor: {e}"));
                    }
                }
            }
        }
        Ok(())
    })();

    stop_flag.store(true, Ordering::SeqCst);
    if let Some(h) = hammer {
        let _ = h.join();
        let rf = refused.lock().unwrap();
        run.r.tags.push(format!("hammer:attempts>={}", (attempts.load(Ordering::SeqCst) / 50) * 50));
        if !rf.is_empty() {
            run.fail("accept-gap-during-handover", format!("{} of {} connection attempts failed during the hand-over, first: {}", rf.len(), attempts.load(Ordering::SeqCst), rf[0]));
        }
    }
    drop(gap);
    for fd in single_fds {
        unsafe {
            libc::close(fd);
        }
    }
    for c in clients {
        drop(c.conn);
        drop(c.back);
        c.backend.close();
    }
    if let Some(mut n) = w2 {
        n.hard_stop();
    }
    drop(reserved);
    if deactivated > 0 {
        // open finding: DeactivateListener lowers the drain threshold (base_sessions_count is not
        // adjusted when the listener's slab entry goes); its consequences carry one class
        let consequence = |c: &str| c == "softstop-ack-before-drain" || c == "h2-stream-cut-before-graceful-deadline" || c.starts_with("inflight-request-cut:sent") || c.starts_with("inflight-request-cut:midbody") || c == "inflight-request-cut:softstop-buffered-tail";
        // the fingerprint of F1475 is an acknowledgement that came before a request that holds the
        // stop was completed; any other failure of a scenario with deactivations keeps its own class
        let early = match run.acked_at {
            Some(a) => run.finish_started.iter().any(|f| a < *f + Duration::from_millis(30)),
            None => false,
        } && run.r.oracle.iter().any(|(c, _)| consequence(c));
        if early {
            let mut details = vec![];
            run.r.oracle.retain(|(c, d)| {
                let hit = consequence(c) || c == "softstop-trace-model-mismatch";
                if hit {
                    details.push(d.clone());
                }
                !hit
            });
            run.r.oracle.push(("softstop-ack-before-drain:after-deactivate-listener".into(), format!("{deactivated} listener(s) deactivated before the stop: {}", details.join(" | "))));
        } else {
            // how many slab entries a session holds is not observable: the exact tick is not compared
            run.r.oracle.retain(|(c, _)| c != "softstop-trace-model-mismatch");
        }
    }
    result
}

/// known ways a SoftStop is never answered (classes shared with C08)
fn stuck_class(w: &HW) -> String {
    let msgs: Vec<&str> = w.log.iter().map(|r| r.message.as_str()).collect();
    if msgs.iter().any(|m| m.contains("no such listener") || m.contains("unknown listener") || m.contains("not found")) {
        "no-final-answer:SoftStop:remove-of-unknown-listener".into()
    } else {
        "softstop-ack-missing".into()
    }
}

/// complete the request of a client that was in flight, check it byte for byte
fn finish_client(c: &mut Client, run: &mut Run) {
    let i = c.idx;
    if c.holds_stop() {
        // (a parked stream is completed by its backend later than this: count from the answer time)
        let at = match (c.park, c.stop_at) {
            (Some((_, dms)), Some(t)) => t + Duration::from_millis(dms),
            _ => Instant::now(),
        };
        run.finish_started.push(at);
    }
    let body = body_of(i);
    let res = (|| -> Result<(), String> {
        if let (Some((knob, dms)), Some(h2)) = (c.park, c.h2.as_mut()) {
            let stop_at = c.stop_at.ok_or("parked stream finished before the stop")?;
            // GOAWAY promptly after the stop
            h2.pump(Duration::from_millis(400), |c| c.goaway > 0);
            let goaway_early = h2.goaway > 0;
            let answer_at = stop_at + Duration::from_millis(dms);
            while Instant::now() < answer_at && !h2.closed {
                h2.pump(Duration::from_millis(50), |_| false);
            }
            let closed_before_answer = h2.closed;
            // what counts is when the backend really answers (other clients of the scenario may
            // have delayed us)
            let dms = stop_at.elapsed().as_millis() as u64;
            if let Some(b) = c.back.as_mut() {
                let _ = b.write_all(b"HTTP/1.1 200 OK\r\nContent-Length: 6\r\n\r\nparked", Duration::from_millis(500));
            }
            h2.pump(Duration::from_millis(1500), |c| c.end_stream || c.rst.is_some());
            let complete = h2.end_stream && h2.data == b"parked";
            let deadline_ms: Option<u64> = match knob {
                None => Some(5000),
                Some(0) => None,
                Some(s) => Some(u64::from(s) * 1000),
            };
            if let Some(d) = deadline_ms {
                if dms + 350 > d && dms < d + 350 {
                    return Ok(()); // too close to the deadline to call
                }
            }
            let must_complete = deadline_ms.map(|d| dms < d).unwrap_or(true);
            if !goaway_early {
                return Err(format!("no GOAWAY within 400 ms of the SoftStop (knob {knob:?})"));
            }
            return match (must_complete, complete) {
                (true, true) | (false, false) => Ok(()),
                (true, false) => Err(format!(
                    "CUT: deadline knob {knob:?} (= {deadline_ms:?} ms), backend answered {dms} ms after the stop: client got {} bytes, END_STREAM={}, RST_STREAM={:?}, connection closed before the answer={closed_before_answer}",
                    h2.data.len(), h2.end_stream, h2.rst
                )),
                (false, true) => Err(format!("NOT-ENFORCED: deadline knob {knob:?} (= {deadline_ms:?} ms) but a stream answered {dms} ms after the stop still completed")),
            };
        }
        if let Some(h2) = c.h2.as_mut() {
            // the client opens its windows: the rest of the response and END_STREAM must follow
            let mut wu = h2_frame(8, 0, 0, &(H2_BODY as u32).to_be_bytes());
            wu.extend(h2_frame(8, 0, 1, &(H2_BODY as u32).to_be_bytes()));
            if let Err(e) = h2.send(&wu) {
                h2.pump(Duration::from_millis(200), |c| c.end_stream || c.rst.is_some());
                return Err(format!("{e}; h2 client had {} of {H2_BODY} bytes, END_STREAM={}, RST_STREAM={:?}, GOAWAY frames={}, PINGs={}, connection closed={}", h2.data.len(), h2.end_stream, h2.rst, h2.goaway, h2.pings, h2.closed));
            }
            h2.pump(Duration::from_secs(3), |c| c.end_stream || c.rst.is_some());
            if h2.data.len() != H2_BODY || !h2.end_stream {
                return Err(format!("h2 client got {} of {H2_BODY} bytes, END_STREAM={}, RST_STREAM={:?}, GOAWAY frames={}, connection closed={}", h2.data.len(), h2.end_stream, h2.rst, h2.goaway, h2.closed));
            }
            if h2.data != h2_body(i) {
                return Err("h2 body bytes differ".into());
            }
            return Ok(());
        }
        let conn = c.conn.as_mut().ok_or("no connection")?;
        if c.tcp {
            let b = c.back.as_mut().ok_or("no backend connection")?;
            b.write_all(&body[BODY / 2..], T).map_err(|e| format!("backend write: {e}"))?;
            conn.read_until_len(BODY, T);
            if conn.received != body {
                return Err(format!("client got {} of {} bytes of the stream", conn.received.len(), BODY));
            }
            return Ok(());
        }
        if c.phase == "buftail" {
            // a slow reader: small reads with pauses, until the declared length or the end of the stream
            let want = big_body(i);
            let until = Instant::now() + Duration::from_secs(20);
            let mut head_len = None;
            loop {
                if head_len.is_none() {
                    head_len = verif_harness::rig::find(&conn.received, b"\r\n\r\n").map(|p| p + 4);
                }
                if let Some(h) = head_len {
                    if conn.received.len() >= h + BIG {
                        break;
                    }
                }
                if Instant::now() > until {
                    return Err(format!("still reading after 20 s ({} bytes)", conn.received.len()));
                }
                match conn.read_some_max(16384, Duration::from_millis(500)) {
                    ReadEnd::Closed | ReadEnd::Reset => break,
                    _ => {}
                }
                thread::sleep(Duration::from_micros(300));
            }
            if let Some(w) = c.writer.take() {
                let _ = w.join();
            }
            let h = head_len.ok_or("no response head")?;
            let got = &conn.received[h..];
            if got.len() != BIG {
                return Err(format!("client got {} of {BIG} body bytes of a complete `Connection: close` response (lost tail: {}; stream ended with eof={} error={:?})", got.len(), BIG - got.len().min(BIG), conn.eof, conn.error));
            }
            if got != &want[..] {
                return Err("body bytes differ".into());
            }
            return Ok(());
        }
        let head = format!("HTTP/1.1 200 OK\r\nContent-Length: {BODY}\r\n\r\n");
        match c.phase.as_str() {
            "head" => {
                let req = format!("GET /r{i} HTTP/1.1\r\nHost: c{i}.local\r\n\r\n");
                conn.write_all(&req.as_bytes()[req.len() - 10..], T).map_err(|e| format!("client write: {e}"))?;
                let mut b = c.backend.accept(T).map_err(|e| format!("backend never saw the request: {e}"))?;
                b.read_until(b"\r\n\r\n", T);
                b.write_all(head.as_bytes(), T).map_err(|e| e.to_string())?;
                b.write_all(&body, T).map_err(|e| e.to_string())?;
                c.back = Some(b);
            }
            "sent" => {
                let b = c.back.as_mut().ok_or("no backend connection")?;
                b.write_all(head.as_bytes(), T).map_err(|e| format!("backend write: {e}"))?;
                b.write_all(&body, T).map_err(|e| format!("backend write: {e}"))?;
            }
            "midbody" => {
                let b = c.back.as_mut().ok_or("no backend connection")?;
                b.write_all(&body[BODY / 2..], T).map_err(|e| format!("backend write: {e}"))?;
            }
            _ => {}
        }
        let m = read_http_message(conn, T).map_err(|e| format!("client: {e}"))?;
        if m.status() != Some(200) || m.body != body {
            return Err(format!("client got status {:?} and {} body bytes", m.status(), m.body.len()));
        }
        Ok(())
    })();
    c.done = true;
    if let Err(e) = res {
        let class = if c.park.is_some() {
            if e.starts_with("NOT-ENFORCED") {
                "h2-graceful-deadline-not-enforced".to_string()
            } else if e.starts_with("CUT") {
                "h2-stream-cut-before-graceful-deadline".to_string()
            } else {
                "h2-goaway-missing-after-softstop".to_string()
            }
        } else if c.tcp {
            "inflight-request-cut:tcp-stream".to_string()
        } else if c.h2.is_some() && c.dead_before_stop {
            "inflight-request-cut:buffered-tail".to_string()
        } else if c.h2.is_some() {
            "inflight-request-cut:softstop-buffered-tail".to_string()
        } else if c.phase == "buftail" {
            // (also seen without any SoftStop: see the `slow-reader` family)
            "h1-response-truncated:slow-reader-backend-closed".to_string()
        } else {
            format!("inflight-request-cut:{}", c.phase)
        };
        run.fail(&class, format!("client {i} ({}): {e}", c.phase));
    }
}

// ----------------------------------------------------------------- area ----

struct Handover {
    max_listeners: u64,
    /// `--family buffered-tail`: only scenarios with the slow-reader phase, only its class reported
    family: Option<String>,
}

impl Area for Handover {
    fn name(&self) -> &'static str {
        "handover"
    }
    fn rule(&self) -> String {
        "one real old worker with 1..N listeners (http/https/tcp/udp mixes, 127.0.0.1 and [::1]), 0..4 scripted HTTP clients in a chosen phase (connected, partial head, request sent, mid-body of a slow response, idle keep-alive) and optionally a TCP stream; ReturnListenSockets + receive_listeners + a new worker started with the returned Listeners and activated from the state, a connector hammering the addresses meanwhile; 0..k in-flight requests completed before SoftStop of the old worker, the rest one by one after it; 30% soft stop without hand-over; non-trivial = at least one request in flight or at least 2 listeners".into()
    }
    fn cases(&self, thorough: bool) -> u64 {
        match (self.family.is_some(), thorough) {
            (true, false) => 12,
            (true, true) => 120,
            (false, true) => 600,
            (false, false) => 64,
        }
    }
    fn corpus(&self) -> Vec<Vec<String>> {
        let s = |x: &str| vec!["new".to_string(), x.to_string()];
        if self.family.as_deref() == Some("buffered-tail") {
            return vec![
                s("handover L=1,0,0,0 v6=0 clients=h2stoptail early=0 mode=stop hammer=0"),
                s("handover L=1,0,0,0 v6=0 clients=h2stoptail early=0 mode=handover hammer=0"),
                s("handover L=1,0,0,0 v6=0 clients=h2tail early=0 mode=stop hammer=0"),
            ];
        }
        if self.family.as_deref() == Some("slow-reader") {
            return vec![s("handover L=1,0,0,0 v6=0 clients=buftail early=0 mode=stop hammer=0")];
        }
        if self.family.as_deref() == Some("h2-deadline") {
            return vec![
                s("handover L=1,0,0,0 v6=0 clients=h2park-0-6500 early=0 mode=stop hammer=0"),
                s("handover L=1,0,0,0 v6=0 clients=h2park-u-5900 early=0 mode=stop hammer=0"),
                s("handover L=1,0,0,0 v6=0 clients=h2park-u-4000 early=0 mode=handover hammer=0"),
                s("handover L=1,0,0,0 v6=0 clients=h2park-2-1300 early=0 mode=stop hammer=0"),
                s("handover L=1,0,0,0 v6=0 clients=h2park-2-2800 early=0 mode=handover hammer=0"),
                s("handover L=1,0,0,0 v6=0 clients=h2park-1-400 early=0 mode=stop hammer=0"),
                s("handover L=1,0,0,0 v6=0 clients=idle+h2park-1-1800 early=0 mode=stop hammer=0"),
            ];
        }
        vec![
            // the slow one first: it shares its worker thread of the harness with few other cases
            s("handover L=1,0,0,0 v6=0 clients=h2park-0-6500 early=0 mode=stop hammer=0"),
            s("handover L=1,0,0,0 v6=0 clients=sent+h2park-1-400 early=0 mode=handover hammer=0"),
            s("handover L=1,0,0,0 v6=0 clients=h2stoptail early=0 mode=stop hammer=0"),
            // two listeners handed back one by one, then the stop, one request in flight
            s("handover L=4,0,1,0 v6=0 clients=sent early=0 mode=stop hammer=0 deact=2"),
            s("handover L=3,1,2,1 v6=30 clients=midbody early=0 mode=handover hammer=1 deact=1"),
            s("handover L=2,0,1,0 v6=50 clients=sent+h2stoptail early=0 mode=handover hammer=1"),
            s("handover L=1,0,0,0 v6=0 clients=h2tail early=0 mode=stop hammer=0"),
            s("handover L=1,0,0,0 v6=0 clients=sent early=0 mode=handover hammer=1"),
            s("handover L=1,1,1,1 v6=50 clients=idle+midbody+head+connected early=1 mode=handover hammer=1"),
            s("handover L=1,0,1,0 v6=0 clients=sent+tcpmid early=0 mode=stop hammer=0"),
            s("handover L=2,0,0,0 v6=0 clients=- early=0 mode=stop hammer=0"),
        ]
    }
    fn gen(&self, rng: &mut Rng, _thorough: bool) -> Vec<String> {
        let total = match rng.below(10) {
            0..=4 => rng.range(1, 4),
            5..=7 => rng.range(4, 12),
            _ => rng.range(12, self.max_listeners),
        } as usize;
        let mut counts = [0usize; 4];
        counts[0] = 1; // the http probe listener
        for _ in 1..total {
            counts[*rng.pick(&[0usize, 0, 1, 2, 2, 3])] += 1;
        }
        let v6 = *rng.pick(&[0u64, 0, 30, 100]);
        let n = rng.below(5) as usize;
        let mut clients: Vec<String> = (0..n).map(|_| rng.pick(&["connected", "head", "sent", "sent", "midbody", "midbody", "idle"]).to_string()).collect();
        if counts[2] > 0 && rng.chance(1, 4) {
            clients.push("tcpmid".into());
        }
        if self.family.as_deref() == Some("buffered-tail") {
            clients.truncate(2);
            clients.retain(|c| c != "tcpmid" && c != "head");
            clients.push(if rng.chance(3, 4) { "h2stoptail" } else { "h2tail" }.into());
        } else if self.family.as_deref() == Some("slow-reader") {
            clients.truncate(1);
            clients.retain(|c| c != "tcpmid" && c != "head");
            clients.push("buftail".into());
        } else if self.family.as_deref() == Some("h2-deadline") {
            clients.truncate(1);
            clients.retain(|c| c != "tcpmid" && c != "head");
            clients.push(rng.pick(&["h2park-0-6500", "h2park-0-2500", "h2park-1-400", "h2park-1-1800", "h2park-2-1300", "h2park-2-2800", "h2park-u-4000", "h2park-u-5900", "h2park-u-500"]).to_string());
        } else if rng.chance(1, 6) {
            clients.push(if rng.chance(3, 4) { "h2stoptail" } else { "h2tail" }.into());
        } else if rng.chance(1, 8) {
            // quick-tier friendly: short deadlines only (the 5 s / no-deadline cases are in the corpus
            // and in the `h2-deadline` family)
            clients.push(rng.pick(&["h2park-1-400", "h2park-1-1800", "h2park-2-1300", "h2park-u-500"]).to_string());
        }
        let inflight = clients.iter().filter(|c| ["head", "sent", "midbody"].contains(&c.as_str())).count();
        let early = rng.below(inflight as u64 + 1) as usize;
        let handover = rng.chance(7, 10);
        vec![
            "new".into(),
            format!(
                "handover L={},{},{},{} v6={v6} clients={} early={early} mode={} hammer={} deact={}",
                counts[0],
                counts[1],
                counts[2],
                counts[3],
                if clients.is_empty() { "-".to_string() } else { clients.join("+") },
                if handover { "handover" } else { "stop" },
                rng.chance(2, 3) as u8,
                if total >= 3 && rng.chance(1, 5) { rng.range(1, 3) } else { 0 }
            ),
        ]
    }
    fn run_impl(&self, ops: &[String]) -> ImplRun {
        let mut run = Run { r: ImplRun::default(), finish_started: vec![], acked_at: None };
        for op in ops {
            if op == "new" {
                run.r.out.push("new".into());
                continue;
            }
            if !op.starts_with("handover ") {
                run.r.out.push("bad-op".into());
                continue;
            }
            run.r.out.push("ok".into());
            let Some(sc) = parse_scenario(op) else {
                run.r.oracle.push(("bad-scenario".into(), op.clone()));
                continue;
            };
            let n: usize = sc.counts.iter().sum();
            run.r.tags.push(format!("listeners:{}", match n { 0..=1 => "1", 2..=4 => "2-4", 5..=12 => "5-12", 13..=40 => "13-40", _ => ">40" }));
            run.r.tags.push(format!("mode:{}", if sc.handover { "handover" } else { "stop-only" }));
            for c in &sc.clients {
                run.r.tags.push(format!("client:{c}"));
            }
            if n >= 2 || sc.clients.iter().any(|c| c.starts_with("h2park") || ["head", "sent", "midbody", "tcpmid", "buftail", "h2tail", "h2stoptail"].contains(&c.as_str())) {
                run.r.nontrivial = true;
            }
            if let Err(e) = run_scenario(&sc, &mut run) {
                run.r.oracle.push(("rig-setup-failed".into(), e));
            }
        }
        let set: BTreeSet<String> = run.r.tags.drain(..).collect();
        run.r.tags = set.into_iter().collect();
        let _ = BTreeMap::<u8, u8>::new();
        if self.family.as_deref() == Some("buffered-tail") {
            run.r.oracle.retain(|(c, _)| c == "inflight-request-cut:buffered-tail" || c == "inflight-request-cut:softstop-buffered-tail");
        }
        if self.family.as_deref() == Some("slow-reader") {
            run.r.oracle.retain(|(c, _)| c == "h1-response-truncated:slow-reader-backend-closed");
        }
        run.r
    }
    fn classify_mismatch(&self, _o: &[String], _i: &[String], _m: &[String]) -> String {
        "handover-model-mismatch".into()
    }
}

fn main() {
    silence_worker_panics();
    let args = parse_args();
    let _ = DRIVER.set(args.driver.clone());
    let max = if args.thorough() { 200 } else { 40 };
    let family = args.extra.get("family").cloned();
    std::process::exit(run_area(&Handover { max_listeners: max, family }, &args));
}
