//! C20: generated TOML files -> real `Config::load_from_path` ->
//! `generate_config_messages` -> real `ConfigState::dispatch`, compared with
//! the Lean model `Sozu.Config.Model` and with the property's own oracles
//! (the generator keeps the abstract structure it rendered).
use std::collections::{BTreeMap, BTreeSet};
use std::net::SocketAddr;

use sozu_command_lib::config::Config;
use sozu_command_lib::proto::command::{request::RequestType, ListenerType, PathRuleKind, RulePosition};
use sozu_command_lib::state::ConfigState;
use verif_harness::*;

#[path = "../config_area/gen.rs"]
mod config_gen;

pub type X = BTreeMap<String, String>;

pub fn parse_x(w: &str) -> X {
    let mut m = X::new();
    let body = w.strip_prefix("x=").unwrap_or("");
    for kv in body.split(',').filter(|s| !s.is_empty()) {
        if let Some((k, v)) = kv.split_once(':') {
            m.insert(k.to_string(), v.to_string());
        }
    }
    m
}

pub fn show_x(m: &X) -> String {
    format!("x={}", m.iter().map(|(k, v)| format!("{k}:{v}")).collect::<Vec<_>>().join(","))
}

#[derive(Clone, Debug, Default)]
pub struct AListener {
    pub proto: String,
    pub addr: String,
    pub h2: bool,
    pub cert: Option<String>,
    pub ep: bool,
    pub pa: bool,
    pub x: X,
}
#[derive(Clone, Debug, Default)]
pub struct AFront {
    pub addr: String,
    pub key: String,
    pub cert: Option<String>,
    pub x: X,
}
#[derive(Clone, Debug, Default)]
pub struct ABackend {
    pub addr: String,
    pub id: Option<String>,
    pub x: X,
}
#[derive(Clone, Debug, Default)]
pub struct ACluster {
    pub id: String,
    pub tcp: bool,
    pub hc_bad: bool,
    pub x: X,
    pub fronts: Vec<AFront>,
    pub backends: Vec<ABackend>,
}
#[derive(Clone, Debug, Default)]
pub struct AFile {
    pub buffer: u64,
    pub activate: bool,
    pub metrics_off: bool,
    pub x: X,
    pub listeners: Vec<AListener>,
    pub clusters: Vec<ACluster>,
    pub violation: Option<(String, X)>,
    pub expect: Option<(bool, String)>,
}

/// asset name -> (certificate, key) files of the repository
pub const CERTS: [(&str, &str, &str); 5] = [
    ("c0", "certificate.pem", "key.pem"),
    ("c1", "local-certificate.pem", "local-key.pem"),
    ("c2", "cn-ne-san-cert.pem", "cn-ne-san-key.pem"),
    ("c3", "multi-sni-cert.pem", "multi-sni-key.pem"),
    ("c4", "cert_test.pem", "key_test.pem"),
];
const ASSETS: &str = "/repo/lib/assets";

fn cert_paths(name: &str) -> (String, String) {
    for (n, c, k) in CERTS {
        if n == name {
            return (format!("{ASSETS}/{c}"), format!("{ASSETS}/{k}"));
        }
    }
    (format!("{ASSETS}/{name}"), format!("{ASSETS}/key.pem"))
}

fn q(s: &str) -> String {
    let mut o = String::from("\"");
    for c in s.chars() {
        match c {
            '"' => o.push_str("\\\""),
            '\\' => o.push_str("\\\\"),
            _ => o.push(c),
        }
    }
    o.push('"');
    o
}

fn tags_toml(v: &str) -> String {
    // k=v+k2=v2
    let items: Vec<String> = v
        .split('+')
        .filter_map(|kv| kv.split_once('=').map(|(k, v)| format!("{} = {}", q(k), q(v))))
        .collect();
    format!("{{ {} }}", items.join(", "))
}

fn tags_map(v: Option<&String>) -> BTreeMap<String, String> {
    v.map(|v| v.split('+').filter_map(|kv| kv.split_once('=').map(|(k, v)| (k.to_string(), v.to_string()))).collect())
        .unwrap_or_default()
}

/// numeric / boolean / string passthrough options: (x key, toml key, quoted)
const LISTENER_OPTS: [(&str, &str, bool); 14] = [
    ("ft", "front_timeout", false),
    ("bt", "back_timeout", false),
    ("ct", "connect_timeout", false),
    ("rt", "request_timeout", false),
    ("sticky", "sticky_name", true),
    ("h2mcs", "h2_max_concurrent_streams", false),
    ("h2rst", "h2_max_rst_stream_per_window", false),
    ("h2ping", "h2_max_ping_per_window", false),
    ("h2hls", "h2_max_header_list_size", false),
    ("h2icw", "h2_initial_connection_window", false),
    ("ssb", "strict_sni_binding", false),
    ("tickets", "send_tls13_tickets", false),
    ("maxflows", "max_flows", false),
    ("maxrx", "max_rx_datagram_size", false),
];
const CLUSTER_OPTS: [(&str, &str, bool); 9] = [
    ("lb", "load_balancing", true),
    ("sticky", "sticky_session", false),
    ("redir", "https_redirect", false),
    ("sendproxy", "send_proxy", false),
    ("http2", "http2", false),
    ("mcpi", "max_connections_per_ip", false),
    ("retry", "retry_after", false),
    ("rport", "https_redirect_port", false),
    ("metric", "load_metric", true),
];
const GLOBAL_OPTS: [(&str, &str, bool); 9] = [
    ("gft", "front_timeout", false),
    ("gbt", "back_timeout", false),
    ("gct", "connect_timeout", false),
    ("grt", "request_timeout", false),
    ("maxconn", "max_connections", false),
    ("workers", "worker_count", false),
    ("loglevel", "log_level", true),
    ("gmcpi", "max_connections_per_ip", false),
    ("gretry", "retry_after", false),
];

pub fn render(f: &AFile) -> String {
    let mut t = String::new();
    let viol = f.violation.as_ref().map(|v| v.0.as_str()).unwrap_or("");
    if f.x.contains_key("bufx") {
        t.push_str(&format!("buffer_size = {}\n", f.buffer));
    }
    if f.x.contains_key("actx") {
        t.push_str(&format!("activate_listeners = {}\n", f.activate));
    }
    if f.x.contains_key("moffx") {
        t.push_str(&format!("disable_cluster_metrics = {}\n", f.metrics_off));
    }
    for (k, tk, quoted) in GLOBAL_OPTS {
        if let Some(v) = f.x.get(k) {
            t.push_str(&format!("{tk} = {}\n", if quoted { q(v) } else { v.clone() }));
        }
    }
    if viol == "state-save-without-path" {
        t.push_str("automatic_state_save = true\n");
    }
    if viol == "bad-global-type" {
        t.push_str("command_buffer_size = \"large\"\n");
    }
    for (i, l) in f.listeners.iter().enumerate() {
        t.push_str("\n[[listeners]]\n");
        let first = i == 0;
        match viol {
            "unknown-protocol" if first => t.push_str("protocol = \"quic\"\n"),
            "missing-protocol" if first => {}
            _ => t.push_str(&format!("protocol = {}\n", q(&l.proto))),
        }
        if viol == "bad-address" && first {
            t.push_str("address = \"not-an-address\"\n");
        } else {
            t.push_str(&format!("address = {}\n", q(&l.addr)));
        }
        if viol == "unknown-listener-field" && first {
            t.push_str("no_such_field = true\n");
        }
        if viol == "invalid-alpn" && first {
            t.push_str("alpn_protocols = [\"h3\"]\n");
        } else if let Some(a) = l.x.get("alpn") {
            let v: Vec<String> = a.split('+').map(q).collect();
            t.push_str(&format!("alpn_protocols = [{}]\n", v.join(", ")));
        }
        if viol == "disable-http11-with-http11-alpn" && first {
            t.push_str("disable_http11 = true\n");
        } else if l.x.contains_key("noh11") {
            t.push_str("disable_http11 = true\n");
        }
        if viol == "listener-hsts-without-enabled" && first {
            t.push_str("hsts = { max_age = 1000 }\n");
        }
        if viol == "hsts-on-http-listener" && first {
            t.push_str("hsts = { enabled = true, max_age = 1000 }\n");
        }
        if l.ep {
            t.push_str("expect_proxy = true\n");
        } else if l.x.contains_key("epf") {
            t.push_str("expect_proxy = false\n");
        }
        if l.pa {
            t.push_str(&format!("public_address = {}\n", q(l.x.get("paddr").map(|s| s.as_str()).unwrap_or("1.2.3.4:80"))));
        }
        if let Some(c) = &l.cert {
            let (cp, kp) = cert_paths(c);
            t.push_str(&format!("certificate = {}\nkey = {}\n", q(&cp), q(&kp)));
        }
        if let Some(v) = l.x.get("tls") {
            let v: Vec<String> = v.split('+').map(q).collect();
            t.push_str(&format!("tls_versions = [{}]\n", v.join(", ")));
        }
        if l.x.contains_key("a404") {
            t.push_str(&format!("answer_404 = {}\n", q(&format!("{ASSETS}/README.md"))));
        }
        if viol == "missing-answer-file" && first {
            t.push_str("answers = { \"500\" = \"file:///nonexistent/verif-answer.txt\" }\n");
        } else if let Some(spec) = l.x.get("ans") {
            // 404=L~text + 503=F~asset + 502=E  (literal / file:// / empty)
            let items: Vec<String> = spec
                .split('+')
                .filter_map(|e| {
                    let (code, v) = e.split_once('=')?;
                    let val = match v.split_once('~') {
                        Some(("L", t)) => t.to_string(),
                        Some(("F", a)) => format!("file://{ASSETS}/{a}"),
                        _ => String::new(),
                    };
                    Some(format!("{} = {}", q(code), q(&val)))
                })
                .collect();
            t.push_str(&format!("answers = {{ {} }}\n", items.join(", ")));
        }
        for (k, tk, quoted) in LISTENER_OPTS {
            if let Some(v) = l.x.get(k) {
                t.push_str(&format!("{tk} = {}\n", if quoted { q(v) } else { v.clone() }));
            }
        }
    }
    if !f.clusters.is_empty() {
        t.push_str("\n[clusters]\n");
    }
    for (ci, c) in f.clusters.iter().enumerate() {
        let first = ci == 0;
        t.push_str(&format!("\n[clusters.{}]\n", q(&c.id)));
        if viol == "cluster-unknown-protocol" && first {
            t.push_str("protocol = \"udp\"\n");
        } else {
            t.push_str(&format!("protocol = {}\n", q(if c.tcp { "tcp" } else { "http" })));
        }
        if viol == "missing-cluster-answer-503" && first {
            t.push_str("answer_503 = \"/nonexistent/verif-503.html\"\n");
        }
        if viol == "unknown-cluster-field" && first {
            t.push_str("no_such_field = 1\n");
        }
        if viol == "unknown-load-balancing" && first {
            t.push_str("load_balancing = \"FASTEST\"\n");
        }
        for (k, tk, quoted) in CLUSTER_OPTS {
            if let Some(v) = c.x.get(k) {
                if viol == "unknown-load-balancing" && first && k == "lb" {
                    continue;
                }
                t.push_str(&format!("{tk} = {}\n", if quoted { q(v) } else { v.clone() }));
            }
        }
        let mut fr = vec![];
        for (fi, fnt) in c.fronts.iter().enumerate() {
            let firstf = first && fi == 0;
            let mut items = vec![format!("address = {}", q(&fnt.addr))];
            if let Some(h) = fnt.x.get("host") {
                if !(viol == "missing-hostname" && firstf) {
                    items.push(format!("hostname = {}", q(h)));
                }
            }
            if viol == "tcp-front-with-hostname" && firstf {
                items.push("hostname = \"x.example.com\"".into());
            }
            if let Some(p) = fnt.x.get("path") {
                items.push(format!("path = {}", q(p)));
            }
            if let Some(p) = fnt.x.get("pt") {
                items.push(format!("path_type = {}", q(p)));
            }
            if let Some(m) = fnt.x.get("method") {
                items.push(format!("method = {}", q(m)));
            }
            if let Some(p) = fnt.x.get("pos") {
                items.push(format!("position = {}", q(p)));
            }
            if let Some(tg) = fnt.x.get("tags") {
                items.push(format!("tags = {}", tags_toml(tg)));
            }
            if let Some(c) = &fnt.cert {
                let (mut cp, kp) = cert_paths(c);
                if viol == "garbage-certificate" && firstf {
                    cp = format!("{ASSETS}/README.md"); // readable, not a PEM certificate
                }
                items.push(format!("certificate = {}", q(&cp)));
                items.push(format!("key = {}", q(&kp)));
                if fnt.x.contains_key("chain") {
                    items.push(format!("certificate_chain = {}", q(&format!("{ASSETS}/certificate_chain.pem"))));
                }
            }
            if let Some(r) = fnt.x.get("redirect") {
                items.push(format!("redirect = {}", q(r)));
            }
            if viol == "invalid-redirect" && firstf {
                items.push("redirect = \"sideways\"".into());
            }
            if let Some(r) = fnt.x.get("rscheme") {
                items.push(format!("redirect_scheme = {}", q(r)));
            }
            if let Some(r) = fnt.x.get("rwhost") {
                items.push(format!("rewrite_host = {}", q(r)));
            }
            if let Some(r) = fnt.x.get("rwport") {
                items.push(format!("rewrite_port = {r}"));
            }
            if fnt.x.contains_key("hdr") {
                items.push("headers = [{ position = \"request\", key = \"X-Verif\", value = \"1\" }]".into());
            }
            if viol == "invalid-header-position" && firstf {
                items.push("headers = [{ position = \"sideways\", key = \"X-Verif\", value = \"1\" }]".into());
            }
            if fnt.x.contains_key("hsts") || (viol == "hsts-on-http-frontend" && firstf) {
                items.push("hsts = { enabled = true, max_age = 31536000 }".into());
            }
            if viol == "tcp-front-with-path" && firstf {
                items.push("path = \"/x\"".into());
            }
            if viol == "tcp-front-with-certificate" && firstf {
                items.push(format!("certificate = {}", q(&format!("{ASSETS}/certificate.pem"))));
            }
            if viol == "invalid-redirect-scheme" && firstf {
                items.push("redirect_scheme = \"use-gopher\"".into());
            }
            if viol == "invalid-header-key" && firstf {
                items.push("headers = [{ position = \"request\", key = \"X Bad\", value = \"1\" }]".into());
            }
            if viol == "invalid-header-value" && firstf {
                items.push("headers = [{ position = \"response\", key = \"X-Ok\", value = \"a\\r\\nInjected: 1\" }]".into());
            }
            if viol == "hsts-without-enabled" && firstf {
                items.push("hsts = { max_age = 1000 }".into());
            }
            if viol == "unknown-frontend-field" && firstf {
                items.push("no_such_field = 1".into());
            }
            fr.push(format!("  {{ {} }}", items.join(", ")));
        }
        t.push_str(&format!("frontends = [\n{}\n]\n", fr.join(",\n")));
        let mut br = vec![];
        for (bi, b) in c.backends.iter().enumerate() {
            let mut items = if viol == "bad-backend-address" && first && bi == 0 {
                vec!["address = \"nowhere\"".to_string()]
            } else {
                vec![format!("address = {}", q(&b.addr))]
            };
            if let Some(id) = &b.id {
                items.push(format!("backend_id = {}", q(id)));
            }
            if let Some(w) = b.x.get("w") {
                items.push(format!("weight = {w}"));
            }
            if let Some(s) = b.x.get("sid") {
                items.push(format!("sticky_id = {}", q(s)));
            }
            if let Some(s) = b.x.get("backup") {
                items.push(format!("backup = {s}"));
            }
            br.push(format!("  {{ {} }}", items.join(", ")));
        }
        t.push_str(&format!("backends = [\n{}\n]\n", br.join(",\n")));
        if c.x.keys().any(|k| k.starts_with("udp_")) {
            t.push_str(&format!("\n[clusters.{}.udp]\n", q(&c.id)));
            for (k, tk, quoted) in [("udp_aff", "affinity_key", true), ("udp_resp", "responses", false), ("udp_req", "requests", false), ("udp_pp", "send_proxy_protocol", false), ("udp_ppe", "proxy_protocol_every_datagram", false)] {
                if let Some(v) = c.x.get(k) {
                    t.push_str(&format!("{tk} = {}\n", if quoted { q(v) } else { v.clone() }));
                }
            }
        }
        if let Some(uri) = c.x.get("hcuri") {
            t.push_str(&format!("\n[clusters.{}.health_check]\nuri = {}\n", q(&c.id), q(uri)));
            if let Some(i) = c.x.get("hcint") {
                t.push_str(&format!("interval = {i}\n"));
            }
            if let Some(i) = c.x.get("hcthr") {
                t.push_str(&format!("healthy_threshold = {i}\n"));
            }
            if let Some(i) = c.x.get("hctmo") {
                t.push_str(&format!("timeout = {i}\n"));
            }
            if let Some(i) = c.x.get("hcunthr") {
                t.push_str(&format!("unhealthy_threshold = {i}\n"));
            }
        }
    }
    t
}

include!("../config_area/run.rs");
