//! C18 (in-process part): the real PROXY protocol v2 codec
//! (`HeaderV2::new/into_bytes`, `parse_v2_header`) and the real
//! `ExpectProxyProtocol` / `RelayProxyProtocol` / `SendProxyProtocol` states
//! against the Lean model `Sozu.ProxyProto.Model`, plus the property's own
//! oracles. Expect and Relay are generic over `SocketHandler`, so their front
//! socket is a scripted fake that dictates every read boundary and
//! `SocketResult`; Send is driven over real loopback sockets.
use std::cell::RefCell;
use std::collections::VecDeque;
use std::io::Read;
use std::net::{Ipv4Addr, Ipv6Addr, SocketAddr, SocketAddrV4, SocketAddrV6};
use std::rc::Rc;
use std::time::{Duration, Instant};

use mio::net::TcpStream as MioTcpStream;
use mio::Token;
use rusty_ulid::Ulid;
use sozu_command_lib::ready::Ready;
use sozu_lib::pool::Pool;
use sozu_lib::protocol::proxy_protocol::expect::ExpectProxyProtocol;
use sozu_lib::protocol::proxy_protocol::header::{Command, HeaderV2, ProxyAddr};
use sozu_lib::protocol::proxy_protocol::parser::parse_v2_header;
use sozu_lib::protocol::proxy_protocol::relay::RelayProxyProtocol;
use sozu_lib::protocol::proxy_protocol::send::SendProxyProtocol;
use sozu_lib::socket::{SocketHandler, SocketResult, TransportProtocol};
use sozu_lib::timer::TimeoutContainer;
use sozu_lib::{SessionMetrics, SessionResult};
use verif_harness::*;

const SIG: [u8; 12] = [0x0D, 0x0A, 0x0D, 0x0A, 0x00, 0x0D, 0x0A, 0x51, 0x55, 0x49, 0x54, 0x0A];

// ------------------------------------------------------------ fake socket --

#[derive(Default)]
struct Script {
    /// bytes the peer has delivered and no read has taken yet (a kernel receive queue)
    queue: VecDeque<u8>,
    /// every byte the peer ever delivered
    sent: Vec<u8>,
    /// the `SocketResult` the next `socket_read` reports
    next_res: Option<SocketResult>,
    /// window sizes the code offered, bytes it actually took
    windows: Vec<usize>,
    taken: usize,
}

struct FakeSock {
    stream: MioTcpStream,
    script: Rc<RefCell<Script>>,
}

impl SocketHandler for FakeSock {
    fn socket_read(&mut self, buf: &mut [u8]) -> (usize, SocketResult) {
        let mut s = self.script.borrow_mut();
        s.windows.push(buf.len());
        match s.next_res.take() {
            Some(res) => {
                let n = s.queue.len().min(buf.len());
                for slot in buf.iter_mut().take(n) {
                    *slot = s.queue.pop_front().unwrap();
                }
                s.taken += n;
                (n, res)
            }
            None => (0, SocketResult::WouldBlock),
        }
    }
    fn socket_write(&mut self, _buf: &[u8]) -> (usize, SocketResult) {
        (0, SocketResult::WouldBlock)
    }
    fn socket_write_vectored(&mut self, _buf: &[std::io::IoSlice]) -> (usize, SocketResult) {
        (0, SocketResult::WouldBlock)
    }
    fn socket_ref(&self) -> &MioTcpStream {
        &self.stream
    }
    fn socket_mut(&mut self) -> &mut MioTcpStream {
        &mut self.stream
    }
    fn protocol(&self) -> TransportProtocol {
        TransportProtocol::Tcp
    }
    fn read_error(&self) {}
    fn write_error(&self) {}
}

/// Sockets of the in-process rigs use **no TCP port** wherever the code under
/// test does not look at addresses: an `AF_UNIX` stream socketpair wrapped as a
/// `mio::net::TcpStream` (the states only `read`/`write` it, or never touch it
/// at all: the scripted `FakeSock` answers instead). Thousands of cases
/// therefore leave no TIME_WAIT entries and cannot collide with other rigs.
fn unix_pair() -> std::io::Result<(MioTcpStream, std::os::unix::net::UnixStream)> {
    use std::os::unix::io::{FromRawFd, IntoRawFd};
    let (a, b) = std::os::unix::net::UnixStream::pair()?;
    a.set_nonblocking(true)?;
    let fd = a.into_raw_fd();
    // SAFETY: `fd` is a freshly created, owned stream socket
    Ok((unsafe { MioTcpStream::from_raw_fd(fd) }, b))
}

/// a set-up step is retried a few times before the case is declared inconclusive
fn retry<T>(mut f: impl FnMut() -> std::io::Result<T>) -> Option<T> {
    for attempt in 0..4u32 {
        if let Ok(v) = f() {
            return Some(v);
        }
        std::thread::sleep(Duration::from_millis(20 << attempt));
    }
    None
}

thread_local! {
    /// one listening socket per kind and thread (port 0, address read back), reused by every
    /// send-mode case: a case only costs the ephemeral port of its client connection.
    /// kinds: 0 = 127.0.0.1, 1 = [::1], 2 = [::] (dual stack, the client connects over IPv4)
    static FRONT_LISTENERS: RefCell<[Option<std::net::TcpListener>; 3]> = const { RefCell::new([None, None, None]) };
}

/// the front socket as sozu holds it in send mode: the accepted side of a real
/// TCP connection, plus the client end and the two addresses **as the kernel
/// reports them on the accepted socket** (peer = client, local = listener; for an
/// IPv4 client on the dual-stack listener both are v4-mapped IPv6)
fn tcp_front(kind: usize) -> Option<(MioTcpStream, std::net::TcpStream, SocketAddr, SocketAddr)> {
    retry(|| {
        FRONT_LISTENERS.with(|ls| {
            let mut ls = ls.borrow_mut();
            let slot = &mut ls[kind];
            if slot.is_none() {
                *slot = Some(std::net::TcpListener::bind(["127.0.0.1:0", "[::1]:0", "[::]:0"][kind])?);
            }
            let l = slot.as_ref().unwrap();
            let la = l.local_addr()?;
            let target: SocketAddr = if kind == 2 { SocketAddr::from(([127, 0, 0, 1], la.port())) } else { la };
            let c = std::net::TcpStream::connect_timeout(&target, Duration::from_secs(2))?;
            let ca = c.local_addr()?;
            // accept *our* connection (nothing else connects to this private listener)
            let (a, peer) = l.accept()?;
            if peer.port() != ca.port() {
                return Err(std::io::Error::other("foreign connection on the private listener"));
            }
            a.set_nonblocking(true)?;
            let (seen_peer, seen_local) = (a.peer_addr()?, a.local_addr()?);
            Ok((MioTcpStream::from_std(a), c, seen_peer, seen_local))
        })
    })
}

// ------------------------------------------------------------- canonical ---

fn addr_str(a: &ProxyAddr) -> String {
    match a {
        ProxyAddr::Ipv4Addr { src_addr, dst_addr } => format!(
            "4:{}:{}:{}:{}",
            hex(&src_addr.ip().octets()),
            hex(&dst_addr.ip().octets()),
            src_addr.port(),
            dst_addr.port()
        ),
        ProxyAddr::Ipv6Addr { src_addr, dst_addr } => format!(
            "6:{}:{}:{}:{}",
            hex(&src_addr.ip().octets()),
            hex(&dst_addr.ip().octets()),
            src_addr.port(),
            dst_addr.port()
        ),
        ProxyAddr::UnixAddr { src_addr, dst_addr } => format!("u:{}:{}", hex(src_addr), hex(dst_addr)),
        ProxyAddr::AfUnspec => "n".into(),
    }
}

fn parse_addr_spec(w: &str) -> Option<ProxyAddr> {
    let p: Vec<&str> = w.split(':').collect();
    match p.as_slice() {
        ["n"] => Some(ProxyAddr::AfUnspec),
        ["4", s, d, sp, dp] => {
            let (s, d) = (unhex(s), unhex(d));
            if s.len() != 4 || d.len() != 4 {
                return None;
            }
            Some(ProxyAddr::Ipv4Addr {
                src_addr: SocketAddrV4::new(Ipv4Addr::new(s[0], s[1], s[2], s[3]), sp.parse().ok()?),
                dst_addr: SocketAddrV4::new(Ipv4Addr::new(d[0], d[1], d[2], d[3]), dp.parse().ok()?),
            })
        }
        ["6", s, d, sp, dp] => {
            let (s, d) = (unhex(s), unhex(d));
            if s.len() != 16 || d.len() != 16 {
                return None;
            }
            let mut a = [0u8; 16];
            a.copy_from_slice(&s);
            let mut b = [0u8; 16];
            b.copy_from_slice(&d);
            Some(ProxyAddr::Ipv6Addr {
                src_addr: SocketAddrV6::new(Ipv6Addr::from(a), sp.parse().ok()?, 0, 0),
                dst_addr: SocketAddrV6::new(Ipv6Addr::from(b), dp.parse().ok()?, 0, 0),
            })
        }
        ["u", s, d] => {
            let (s, d) = (unhex(s), unhex(d));
            if s.len() != 108 || d.len() != 108 {
                return None;
            }
            let mut a = [0u8; 108];
            a.copy_from_slice(&s);
            let mut b = [0u8; 108];
            b.copy_from_slice(&d);
            Some(ProxyAddr::UnixAddr { src_addr: a, dst_addr: b })
        }
        _ => None,
    }
}

fn parse_sock(w: &str) -> Option<SocketAddr> {
    let p: Vec<&str> = w.split(':').collect();
    match p.as_slice() {
        ["4", ip, port] => {
            let b = unhex(ip);
            if b.len() != 4 {
                return None;
            }
            Some(SocketAddr::V4(SocketAddrV4::new(Ipv4Addr::new(b[0], b[1], b[2], b[3]), port.parse().ok()?)))
        }
        ["6", ip, port] => {
            let b = unhex(ip);
            if b.len() != 16 {
                return None;
            }
            let mut a = [0u8; 16];
            a.copy_from_slice(&b);
            Some(SocketAddr::V6(SocketAddrV6::new(Ipv6Addr::from(a), port.parse().ok()?, 0, 0)))
        }
        _ => None,
    }
}

fn cmd_str(c: &Command) -> &'static str {
    match c {
        Command::Local => "L",
        Command::Proxy => "P",
    }
}

fn pres_str(i: &[u8]) -> String {
    match parse_v2_header(i) {
        Ok((rest, h)) => format!("ok {} {} {} {}", cmd_str(&h.command), h.family, addr_str(&h.addr), i.len() - rest.len()),
        Err(e) if e.is_incomplete() => "incomplete".into(),
        Err(_) => "error".into(),
    }
}

fn sr(w: &str) -> Option<SocketResult> {
    Some(match w {
        "C" => SocketResult::Continue,
        "W" => SocketResult::WouldBlock,
        "X" => SocketResult::Closed,
        "E" => SocketResult::Error,
        _ => return None,
    })
}

fn res_str(r: SessionResult) -> &'static str {
    match r {
        SessionResult::Continue => "continue",
        SessionResult::Close => "close",
        SessionResult::Upgrade => "upgrade",
    }
}

fn b(x: bool) -> &'static str {
    if x {
        "1"
    } else {
        "0"
    }
}

/// independent reference decoder used by the oracles (spec: PROXY protocol v2 §2.2)
#[derive(Debug, PartialEq, Clone)]
struct RefHeader {
    cmd: u8,
    fam: u8,
    len: usize,
    src: Option<SocketAddr>,
    dst: Option<SocketAddr>,
}
fn ref_decode(i: &[u8]) -> Option<RefHeader> {
    if i.len() < 16 || i[..12] != SIG || i[12] >> 4 != 2 {
        return None;
    }
    let len = u16::from_be_bytes([i[14], i[15]]) as usize;
    if i.len() < 16 + len {
        return None;
    }
    let d = &i[16..16 + len];
    let (src, dst) = match i[13] >> 4 {
        1 if len >= 12 => (
            Some(SocketAddr::from(([d[0], d[1], d[2], d[3]], u16::from_be_bytes([d[8], d[9]])))),
            Some(SocketAddr::from(([d[4], d[5], d[6], d[7]], u16::from_be_bytes([d[10], d[11]])))),
        ),
        2 if len >= 36 => {
            let mut a = [0u8; 16];
            a.copy_from_slice(&d[..16]);
            let mut bb = [0u8; 16];
            bb.copy_from_slice(&d[16..32]);
            (
                Some(SocketAddr::from((a, u16::from_be_bytes([d[32], d[33]])))),
                Some(SocketAddr::from((bb, u16::from_be_bytes([d[34], d[35]])))),
            )
        }
        _ => (None, None),
    };
    Some(RefHeader { cmd: i[12] & 0xf, fam: i[13], len: 16 + len, src, dst })
}

// ------------------------------------------------------------------ area ---

struct PP;

struct ExpectRig {
    m: ExpectProxyProtocol<FakeSock>,
    script: Rc<RefCell<Script>>,
    dead: bool,
}
struct RelayRig {
    m: RelayProxyProtocol<FakeSock>,
    back_peer: Option<std::os::unix::net::UnixStream>,
    script: Rc<RefCell<Script>>,
    dead: bool,
    _pool: Pool,
}

fn expect_dump(r: &ExpectRig, win: usize) -> String {
    format!(
        "win={} ir={} er={} addr={}",
        win,
        b(r.m.frontend_readiness.interest.is_readable()),
        b(r.m.frontend_readiness.event.is_readable()),
        r.m.addresses.as_ref().map(addr_str).unwrap_or_else(|| "-".into())
    )
}

fn relay_dump(r: &mut RelayRig) -> String {
    format!(
        "data={} space={} hs={} ir={} er={} bw={} addr={}",
        hex(r.m.frontend_buffer.data()),
        r.m.frontend_buffer.available_space(),
        r.m.header_size.map(|n| n.to_string()).unwrap_or_else(|| "-".into()),
        b(r.m.frontend_readiness.interest.is_readable()),
        b(r.m.frontend_readiness.event.is_readable()),
        b(r.m.backend_readiness.interest.is_writable()),
        r.m.addresses.as_ref().map(addr_str).unwrap_or_else(|| "-".into())
    )
}

/// the read window the expect state offers next is only observable through the
/// fake socket; the model prints it in every dump, so probe it without side
/// effects: the window after a call is `stage - index`, which the next call
/// reveals. We therefore report the window *offered by the next call* lazily:
/// the dump of op k carries the window seen by op k+1. To keep one line per op
/// the harness tracks (stage, index) itself from what the code offered/took —
/// and that is itself checked against the window of the next call.
struct WinTrack {
    stage: usize,
    index: usize,
}
impl WinTrack {
    fn after(&mut self, offered: usize, took: usize, incomplete_cont: bool) -> usize {
        // the window offered must be what we predicted; resync on what the code really offered
        self.index = self.stage - offered.min(self.stage) + took;
        if incomplete_cont {
            if self.stage == 28 && self.index == 28 {
                self.stage = 52;
            } else if self.stage == 52 && self.index == 52 {
                self.stage = 232;
            }
        }
        self.stage - self.index
    }
}

fn gen_sock(rng: &mut Rng, v6: bool) -> SocketAddr {
    let port = *rng.pick(&[0u16, 1, 80, 255, 256, 4200, 40000, 65535]);
    if v6 {
        let mut a = [0u8; 16];
        if rng.chance(1, 3) {
            a[15] = 1;
        } else {
            a.copy_from_slice(&rng.bytes(16));
        }
        SocketAddr::from((a, port))
    } else {
        let ip = match rng.below(4) {
            0 => [127, 0, 0, 1],
            1 => [0, 0, 0, 0],
            2 => [255, 255, 255, 255],
            _ => {
                let x = rng.bytes(4);
                [x[0], x[1], x[2], x[3]]
            }
        };
        SocketAddr::from((ip, port))
    }
}

fn sock_str(a: &SocketAddr) -> String {
    match a {
        SocketAddr::V4(a) => format!("4:{}:{}", hex(&a.ip().octets()), a.port()),
        SocketAddr::V6(a) => format!("6:{}:{}", hex(&a.ip().octets()), a.port()),
    }
}

/// a header as raw bytes, valid by construction, any family, optional TLV tail
fn gen_header(rng: &mut Rng) -> Vec<u8> {
    let mut h = SIG.to_vec();
    h.push(0x20 | rng.below(2) as u8);
    let kind = rng.below(10);
    let (fam, mut block): (u8, Vec<u8>) = match kind {
        0..=3 => (0x10 | *rng.pick(&[1u8, 1, 1, 2, 0]), rng.bytes(12)),
        4..=6 => (0x20 | *rng.pick(&[1u8, 1, 2]), rng.bytes(36)),
        7 => (0x31, rng.bytes(216)),
        _ => (*rng.pick(&[0x00u8, 0x00, 0x01, 0x0f]), vec![]),
    };
    // TLV tail (type, len, value) — the parser must skip it
    if rng.chance(1, 3) && block.len() < 200 {
        let n = rng.below(14) as usize;
        block.push(*rng.pick(&[0x01u8, 0x03, 0x04, 0x20, 0xE0]));
        block.extend_from_slice(&(n as u16).to_be_bytes());
        block.extend_from_slice(&rng.bytes(n));
    }
    h.push(fam);
    h.extend_from_slice(&(block.len() as u16).to_be_bytes());
    h.extend_from_slice(&block);
    h
}

fn mutate(rng: &mut Rng, h: &mut Vec<u8>) {
    match rng.below(7) {
        0 => {
            let i = rng.below(12) as usize;
            h[i] ^= 1 << rng.below(8);
        }
        1 => h[12] = *rng.pick(&[0x00u8, 0x10, 0x22, 0x23, 0x2f, 0x30, 0x31]),
        2 => h[13] = *rng.pick(&[0x30u8, 0x31, 0x40, 0xf1, 0x7f]),
        3 => {
            // declared length shorter than the family's block
            let l = rng.below(12) as u16;
            h[14..16].copy_from_slice(&l.to_be_bytes());
            h.truncate(16 + l as usize);
            h[13] = *rng.pick(&[0x11u8, 0x21]);
        }
        4 => {
            // declared length beyond the 232-byte buffer
            let l = *rng.pick(&[217u16, 300, 1000, 65535]);
            h[14..16].copy_from_slice(&l.to_be_bytes());
        }
        5 => {
            let i = rng.below(h.len() as u64) as usize;
            h[i] = rng.next() as u8;
        }
        _ => {
            let k = rng.below(h.len() as u64) as usize;
            h.truncate(k);
        }
    }
}

fn chunks(rng: &mut Rng, stream: &[u8], style: u64) -> Vec<Vec<u8>> {
    let mut out = vec![];
    let mut i = 0;
    while i < stream.len() {
        let n = match style {
            0 => stream.len(),                   // one segment
            1 => 1,                              // byte by byte
            2 => rng.range(1, 5) as usize,
            3 => *rng.pick(&[12usize, 13, 14, 16, 28, 52]),
            _ => rng.range(1, 60) as usize,
        };
        let e = (i + n).min(stream.len());
        out.push(stream[i..e].to_vec());
        i = e;
    }
    out
}

impl Area for PP {
    fn name(&self) -> &'static str {
        "proxyproto"
    }
    fn rule(&self) -> String {
        "case kinds: codec (HeaderV2::new round trips over v4/v6/mixed pairs + every strict prefix; raw headers of every family incl. AF_UNIX, TLV tails; 7 mutation kinds; random bytes), expect (valid/mutated header ++ payload, 5 chunking styles incl. every 1-byte split, scripted SocketResults), relay (same streams, buffer 64..16384), send (real loopback front sockets: 127.0.0.1, [::1], and an IPv4 client accepted on a dual-stack [::] listener). Non-trivial: a case that reaches a parse Ok/Error or an Upgrade/Close".into()
    }
    fn cases(&self, thorough: bool) -> u64 {
        if thorough {
            60000
        } else {
            6000
        }
    }
    fn corpus(&self) -> Vec<Vec<String>> {
        let v4 = HeaderV2::new(Command::Proxy, "125.25.10.1:8080".parse().unwrap(), "10.4.5.8:4200".parse().unwrap()).into_bytes();
        let local = {
            let mut h = SIG.to_vec();
            h.extend_from_slice(&[0x20, 0x00, 0x00, 0x00]);
            h
        };
        let get = b"GET / HTTP/1.1\r\nHost: a\r\n\r\n".to_vec();
        let mut c = vec![];
        // every split position of a v4 header followed by payload (expect + relay)
        for k in 1..v4.len() {
            let mut ops = vec!["new".to_string(), "xnew".into(), "xev".into()];
            ops.push(format!("xread {} W", hex(&v4[..k])));
            ops.push("xev".into());
            let mut rest = v4[k..].to_vec();
            rest.extend_from_slice(&get);
            ops.push(format!("xread {} W", hex(&rest)));
            c.push(ops);
        }
        // F12 witness: 16-byte LOCAL header + request in one segment
        let mut one = local.clone();
        one.extend_from_slice(&get);
        c.push(vec!["new".into(), "xnew".into(), "xev".into(), format!("xread {} W", hex(&one))]);
        // F13 witness (relay): header in one read, header split 10/18
        c.push(vec!["new".into(), "rnew 16384".into(), format!("rread {} W", hex(&[v4.clone(), get.clone()].concat()))]);
        c.push(vec!["new".into(), "rnew 16384".into(), format!("rread {} W", hex(&v4[..10])), format!("rread {} W", hex(&v4[10..]))]);
        // oversize: 232 bytes of an endless header
        let mut big = SIG.to_vec();
        big.extend_from_slice(&[0x21, 0x11, 0x01, 0x00]);
        big.extend_from_slice(&[0u8; 300]);
        c.push(vec!["new".into(), "xnew".into(), "xev".into(), format!("xread {} C", hex(&big[..28])), format!("xread {} C", hex(&big[28..52])), format!("xread {} C", hex(&big[52..232]))]);
        c.push(vec!["new".into(), "send v4".into(), "send v6".into(), "send v46".into(), "send v4 blocked".into(), "send v6 closed".into(), "send v46 nobackend".into()]);
        // expect: the client closes before sending anything (bare TCP health check): closed at index 0
        c.push(vec!["new".into(), "xnew".into(), "xev".into(), "xread - X".into()]);
        // relay: header parsed, backend send buffer full: the write error path resets both readinesses
        c.push(vec!["new".into(), "rnew 16384".into(), format!("rread {} W", hex(&v4[..10])), format!("rread {} W", hex(&v4[10..])), "rwriteblocked".into()]);
        // AF_UNIX header: encoder emits it, parser rejects it
        c.push(vec!["new".into(), format!("enc P 49 u:{}:{}", hex(&[0u8; 108]), hex(&[1u8; 108])), format!("parse {}", hex(&{
            let mut h = SIG.to_vec();
            h.extend_from_slice(&[0x21, 0x31, 0x00, 0xD8]);
            h.extend_from_slice(&[0u8; 216]);
            h
        }))]);
        c
    }
    fn gen(&self, rng: &mut Rng, _thorough: bool) -> Vec<String> {
        let mut ops = vec!["new".to_string()];
        match rng.below(10) {
            0..=2 => {
                // codec: constructor round trips
                for _ in 0..rng.range(1, 6) {
                    let (s6, d6) = match rng.below(6) {
                        0 => (true, false),
                        1 => (false, true),
                        2 | 3 => (true, true),
                        _ => (false, false),
                    };
                    let rest = {
                        let n = rng.below(6) as usize;
                        rng.bytes(n)
                    };
                    ops.push(format!(
                        "rt {} {} {} {}",
                        if rng.chance(1, 2) { "L" } else { "P" },
                        sock_str(&gen_sock(rng, s6)),
                        sock_str(&gen_sock(rng, d6)),
                        hex(&rest)
                    ));
                }
            }
            3..=4 => {
                // codec: raw headers, truncations, mutations
                for _ in 0..rng.range(1, 5) {
                    let mut h = gen_header(rng);
                    if rng.chance(1, 2) {
                        mutate(rng, &mut h);
                    }
                    if rng.chance(1, 3) {
                        let n = rng.below(8) as usize;
                        h.extend_from_slice(&rng.bytes(n));
                    }
                    ops.push(format!("parse {}", hex(&h)));
                    if rng.chance(1, 3) {
                        let k = rng.below(h.len() as u64 + 1) as usize;
                        ops.push(format!("parse {}", hex(&h[..k])));
                    }
                }
                if rng.chance(1, 4) {
                    let n = rng.below(40) as usize;
                    ops.push(format!("parse {}", hex(&rng.bytes(n))));
                }
                if rng.chance(1, 3) {
                    // arbitrary HeaderV2 values (pub fields): family and block need not agree
                    let addr = match rng.below(4) {
                        0 => format!("4:{}:{}:{}:{}", hex(&rng.bytes(4)), hex(&rng.bytes(4)), rng.below(65536), rng.below(65536)),
                        1 => format!("6:{}:{}:{}:{}", hex(&rng.bytes(16)), hex(&rng.bytes(16)), rng.below(65536), rng.below(65536)),
                        2 => format!("u:{}:{}", hex(&rng.bytes(108)), hex(&rng.bytes(108))),
                        _ => "n".into(),
                    };
                    ops.push(format!("enc {} {} {}", if rng.chance(1, 2) { "L" } else { "P" }, rng.below(256), addr));
                }
            }
            5..=7 => {
                // expect machine
                let mut h = gen_header(rng);
                let valid = !rng.chance(1, 4);
                if !valid {
                    mutate(rng, &mut h);
                }
                let pl = {
                    let n = *rng.pick(&[0usize, 1, 5, 11, 12, 13, 30, 300]);
                    rng.bytes(n)
                };
                ops.push("xnew".into());
                if rng.chance(1, 25) {
                    ops.push("xev".into());
                    ops.push("xread - X".into());
                }
                let stream = [h.clone(), pl].concat();
                let style = rng.below(5);
                for c in chunks(rng, &stream, style) {
                    if rng.chance(9, 10) {
                        ops.push("xev".into());
                    }
                    let r = match rng.below(20) {
                        0 => "X",
                        1 => "E",
                        2..=6 => "C",
                        _ => "W",
                    };
                    ops.push(format!("xread {} {}", hex(&c), r));
                }
                if rng.chance(1, 5) {
                    ops.push("xread - X".into());
                }
            }
            8 => {
                // relay machine (readable side)
                let mut h = gen_header(rng);
                if rng.chance(1, 5) {
                    mutate(rng, &mut h);
                }
                let pl = {
                    let n = *rng.pick(&[0usize, 1, 12, 40, 200]);
                    rng.bytes(n)
                };
                ops.push(format!("rnew {}", rng.pick(&[64u64, 128, 256, 320, 16384])));
                let stream = [h.clone(), pl].concat();
                let style = rng.below(5);
                for c in chunks(rng, &stream, style) {
                    let r = match rng.below(20) {
                        0 => "E",
                        1..=4 => "C",
                        _ => "W",
                    };
                    ops.push(format!("rread {} {}", hex(&c), r));
                }
                if rng.chance(1, 2) {
                    ops.push("rwriteblocked".into());
                }
            }
            _ => {
                // send mode has no input besides the address family: one case in five of this arm
                if rng.chance(1, 5) {
                    let v = *rng.pick(&["", "", " blocked", " closed", " nobackend"]);
                    ops.push(format!("send {}{}", rng.pick(&["v4", "v6", "v46"]), v));
                } else {
                    let n = rng.below(40) as usize;
                    ops.push(format!("parse {}", hex(&rng.bytes(n))));
                }
            }
        }
        ops
    }

    fn run_impl(&self, ops: &[String]) -> ImplRun {
        let mut run = ImplRun::default();
        let mut x: Option<ExpectRig> = None;
        let mut wt = WinTrack { stage: 28, index: 0 };
        let mut r: Option<RelayRig> = None;
        let mut metrics = SessionMetrics::new(None);
        // a set-up step (socket creation) that still fails after retries makes the rest of the
        // case inconclusive: counted in the distribution, never a failure by itself
        let mut inconclusive = false;
        for op in ops {
            if inconclusive {
                run.out.push("inconclusive".into());
                continue;
            }
            let w: Vec<&str> = op.split_whitespace().collect();
            let line = match w.as_slice() {
                ["new"] => "ok".to_string(),
                ["enc", c, fam, a] => {
                    let cmd = if *c == "L" { Command::Local } else { Command::Proxy };
                    match (fam.parse::<u8>(), parse_addr_spec(a)) {
                        (Ok(family), Some(addr)) => {
                            run.tags.push("enc".into());
                            hex(&HeaderV2 { command: cmd, family, addr }.into_bytes())
                        }
                        _ => "bad-op".into(),
                    }
                }
                ["rt", c, src, dst, rest] => {
                    let cmd = if *c == "L" { Command::Local } else { Command::Proxy };
                    match (parse_sock(src), parse_sock(dst)) {
                        (Some(s), Some(d)) => {
                            let h = HeaderV2::new(cmd, s, d);
                            let bytes = h.into_bytes();
                            let mut all = bytes.clone();
                            all.extend_from_slice(&unhex(rest));
                            let pre = (0..bytes.len()).all(|k| matches!(parse_v2_header(&bytes[..k]), Err(e) if e.is_incomplete()));
                            // oracle: round trip, consumption, prefixes, header length, true addresses
                            match parse_v2_header(&all) {
                                Ok((rem, h2)) => {
                                    if h2 != h || all.len() - rem.len() != bytes.len() || bytes.len() != h.len() {
                                        run.oracle.push(("pp-roundtrip-differs".into(), format!("{op}: parsed {:?}", h2)));
                                    }
                                }
                                _ => run.oracle.push(("pp-roundtrip-fails".into(), op.clone())),
                            }
                            if !pre {
                                run.oracle.push(("pp-prefix-not-incomplete".into(), op.clone()));
                            }
                            let rd = ref_decode(&bytes);
                            let same_family = s.is_ipv4() == d.is_ipv4();
                            match rd {
                                Some(rh) => {
                                    if rh.len != bytes.len() || rh.cmd != (*c == "P") as u8 || (same_family && (rh.src != Some(s) || rh.dst != Some(d))) || (!same_family && rh.fam != 0) {
                                        run.oracle.push(("pp-encode-wrong-bytes".into(), format!("{op}: {:?}", rh)));
                                    }
                                }
                                None => run.oracle.push(("pp-encode-wrong-bytes".into(), op.clone())),
                            }
                            run.nontrivial = true;
                            run.tags.push(format!("rt:{}", if !same_family { "mixed" } else if s.is_ipv4() { "v4" } else { "v6" }));
                            format!("{} {} {} | {} | prefixes={}", h.family, addr_str(&h.addr), hex(&bytes), pres_str(&all), b(pre))
                        }
                        _ => "bad-op".into(),
                    }
                }
                ["parse", hx] => {
                    let i = unhex(hx);
                    let s = pres_str(&i);
                    run.tags.push(format!("parse:{}", s.split(' ').next().unwrap()));
                    // oracle: consumption bound and agreement with the reference decoder on well-formed input
                    if let Ok((rem, h)) = parse_v2_header(&i) {
                        run.nontrivial = true;
                        let n = i.len() - rem.len();
                        match ref_decode(&i) {
                            Some(rh) => {
                                let src = h.addr.source();
                                let dst = h.addr.destination();
                                let norm = |a: Option<SocketAddr>| a.map(|a| match a { SocketAddr::V6(v) => SocketAddr::V6(SocketAddrV6::new(*v.ip(), v.port(), 0, 0)), o => o });
                                if rh.len != n || norm(rh.src) != norm(src) || norm(rh.dst) != norm(dst) || rh.fam != h.family {
                                    run.oracle.push(("pp-parse-wrong-fields".into(), format!("{op}: {s} vs {:?}", rh)));
                                }
                            }
                            None => run.oracle.push(("pp-parse-accepts-malformed".into(), format!("{op}: {s}"))),
                        }
                    } else if s == "error" {
                        run.nontrivial = true;
                        // a spec-valid AF_UNIX header is rejected: its own class
                        if let Some(rh) = ref_decode(&i) {
                            if rh.fam >> 4 == 3 && rh.len == 232 && (rh.fam & 0xf) <= 2 && (i[12] & 0xf) <= 1 {
                                run.oracle.push(("pp-unix-family-rejected".into(), op.clone()));
                            }
                        }
                    }
                    s
                }
                ["xnew"] => {
                    let Some((stream, _peer)) = retry(unix_pair) else {
                        inconclusive = true;
                        run.tags.push("inconclusive".into());
                        run.out.push("inconclusive".into());
                        continue;
                    };
                    let script = Rc::new(RefCell::new(Script::default()));
                    let m = ExpectProxyProtocol::new(
                        TimeoutContainer::new(Duration::from_secs(60), Token(7)),
                        FakeSock { stream, script: script.clone() },
                        Token(7),
                        Ulid::generate(),
                    );
                    let rig = ExpectRig { m, script, dead: false };
                    wt = WinTrack { stage: 28, index: 0 };
                    let s = format!("x {}", expect_dump(&rig, 28));
                    x = Some(rig);
                    s
                }
                ["xev"] => match x.as_mut() {
                    Some(rig) => {
                        rig.m.frontend_readiness.event.insert(Ready::READABLE);
                        format!("x {}", expect_dump(rig, wt.stage - wt.index))
                    }
                    None => "bad-op".into(),
                },
                ["xread", hx, res] => match (x.as_mut(), sr(res)) {
                    (Some(rig), Some(res)) => {
                        if rig.dead {
                            "dead".into()
                        } else {
                            let bytes = unhex(hx);
                            { let mut sc = rig.script.borrow_mut(); sc.queue.extend(bytes.iter().copied()); sc.sent.extend_from_slice(&bytes); sc.next_res = Some(res); }
                            let taken0 = rig.script.borrow().taken;
                            let out = rig.m.readable(&mut metrics);
                            let (offered, took) = {
                                let s = rig.script.borrow();
                                (*s.windows.last().unwrap_or(&0), s.taken - taken0)
                            };
                            if offered != wt.stage - wt.index {
                                run.oracle.push(("expect-window-unexpected".into(), format!("{op}: offered {offered}, expected {}", wt.stage - wt.index)));
                            }
                            let win = wt.after(offered, took, out == SessionResult::Continue);
                            run.tags.push(format!("xread:{}", res_str(out)));
                            if out != SessionResult::Continue {
                                rig.dead = true;
                                run.nontrivial = true;
                            }
                            // ---- oracles (independent of the model) ----
                            {
                                let total = rig.script.borrow().taken;
                                let sent = rig.script.borrow().sent.clone();
                                let h = &sent;
                                // the truth: what the peer really sent, decoded by the reference decoder
                                let rh = ref_decode(h).filter(|rh| rh.len <= 232 && rh.fam >> 4 <= 2 && (h[12] == 0x20 || h[12] == 0x21) && !(rh.fam >> 4 == 1 && rh.len < 28) && !(rh.fam >> 4 == 2 && rh.len < 52));
                                if out == SessionResult::Upgrade {
                                    match &rh {
                                        None => run.oracle.push(("expect-upgrade-on-malformed".into(), op.clone())),
                                        Some(rh) => {
                                            let a = rig.m.addresses.as_ref();
                                            let norm = |a: Option<SocketAddr>| a.map(|a| match a { SocketAddr::V6(v) => SocketAddr::V6(SocketAddrV6::new(*v.ip(), v.port(), 0, 0)), o => o });
                                            if norm(a.and_then(|a| a.source())) != norm(rh.src) || norm(a.and_then(|a| a.destination())) != norm(rh.dst) {
                                                run.oracle.push(("expect-wrong-addresses".into(), op.clone()));
                                            }
                                            if total > rh.len {
                                                // F12: payload bytes were read into the header buffer and are dropped with the state
                                                run.oracle.push(("expect-overread-drops-payload".into(), format!("header {} bytes, {} bytes consumed from the socket before the upgrade: {} payload byte(s) never reach the next state", rh.len, total, total - rh.len)));
                                            }
                                            if total < rh.len {
                                                run.oracle.push(("expect-upgrade-before-complete".into(), op.clone()));
                                            }
                                        }
                                    }
                                } else if let Some(rh) = &rh {
                                    if total >= rh.len && out == SessionResult::Continue {
                                        run.oracle.push(("expect-no-upgrade-on-valid".into(), op.clone()));
                                    }
                                    if out == SessionResult::Close && total >= rh.len && res != SocketResult::Error {
                                        run.oracle.push(("expect-close-on-valid".into(), op.clone()));
                                    }
                                }
                            }
                            format!("{} {}", res_str(out), expect_dump(rig, win))
                        }
                    }
                    _ => "bad-op".into(),
                },
                ["rnew", cap] => match cap.parse::<usize>() {
                    Ok(cap) => {
                        let Some((stream, _peer)) = retry(unix_pair) else {
                            inconclusive = true;
                            run.tags.push("inconclusive".into());
                            run.out.push("inconclusive".into());
                            continue;
                        };
                        let script = Rc::new(RefCell::new(Script::default()));
                        let mut pool = Pool::with_capacity(1, 1, cap);
                        let buf = pool.checkout().expect("checkout");
                        let m = RelayProxyProtocol::new(FakeSock { stream, script: script.clone() }, Token(7), Ulid::generate(), None, buf);
                        let mut rig = RelayRig { m, back_peer: None, script, dead: false, _pool: pool };
                        let s = format!("r {}", relay_dump(&mut rig));
                        r = Some(rig);
                        s
                    }
                    _ => "bad-op".into(),
                },
                ["rread", hx, res] => match (r.as_mut(), sr(res)) {
                    (Some(rig), Some(res)) => {
                        if rig.dead {
                            "dead".into()
                        } else {
                            { let bytes = unhex(hx); let mut sc = rig.script.borrow_mut(); sc.queue.extend(bytes.iter().copied()); sc.sent.extend_from_slice(&bytes); sc.next_res = Some(res); }
                            let out = rig.m.readable(&mut metrics);
                            run.tags.push(format!("rread:{}", res_str(out)));
                            if out != SessionResult::Continue {
                                rig.dead = true;
                            }
                            let sent = rig.script.borrow().sent.clone();
                            if let (Some(hs), Some(rh)) = (rig.m.header_size, ref_decode(&sent)) {
                                let h = &sent[..rh.len];
                                run.nontrivial = true;
                                // the header must still be in the buffer for back_writable to forward it
                                let data = rig.m.frontend_buffer.data();
                                if hs == h.len() && (data.len() < hs || data[..hs] != h[..]) {
                                    run.oracle.push(("relay-header-consumed".into(), format!("header_size {hs}, {} byte(s) left in the buffer: back_writable can never forward the header (it spins on write(&[]) = Ok(0))", data.len())));
                                }
                            }
                            format!("{} {}", res_str(out), relay_dump(rig))
                        }
                    }
                    _ => "bad-op".into(),
                },
                ["rwriteblocked"] => match r.as_mut() {
                    Some(rig) => {
                        if rig.dead {
                            "dead".into()
                        } else {
                            // a backend whose send buffer is full: `back_writable`'s first write answers EAGAIN (the only way
                            // to call it without the F13 spin) — unless the buffer is empty: `write(&[])` answers Ok(0) even
                            // then and the loop never returns; that call is not made (the model must say `spin`)
                            if rig.m.header_size.is_some() && rig.m.frontend_buffer.available_data() == 0 {
                                rig.dead = true;
                                run.tags.push("rwriteblocked:would-spin".into());
                                run.out.push("skipped-would-spin".into());
                                continue;
                            }
                            match retry(unix_pair) {
                                Some((back, peer)) => {
                                    use std::os::unix::io::AsRawFd;
                                    let fd = back.as_raw_fd();
                                    let big = vec![0xEEu8; 65536];
                                    for chunk in [65536usize, 4096, 256, 16, 1] {
                                        while unsafe { libc::send(fd, big.as_ptr() as *const libc::c_void, chunk, libc::MSG_DONTWAIT | libc::MSG_NOSIGNAL) } > 0 {}
                                    }
                                    rig.m.set_back_socket(back);
                                    let out = rig.m.back_writable(&mut metrics);
                                    rig.back_peer = Some(peer);
                                    run.tags.push(format!("rwriteblocked:{}", res_str(out)));
                                    if out != SessionResult::Continue {
                                        rig.dead = true;
                                    }
                                    format!("{} out=- cursor=0 {}", res_str(out), relay_dump(rig))
                                }
                                None => {
                                    inconclusive = true;
                                    run.tags.push("inconclusive".into());
                                    "inconclusive".into()
                                }
                            }
                        }
                    }
                    None => "bad-op".into(),
                },
                ["send", fam, variant @ ..] => {
                    let kind = match *fam {
                        "v4" => 0,
                        "v6" => 1,
                        _ => 2,
                    };
                    let variant = variant.first().copied().unwrap_or("");
                    let (Some((front, _client, client_addr, listener_addr)), Some((back, mut backend_peer))) = (tcp_front(kind), retry(unix_pair)) else {
                        inconclusive = true;
                        run.tags.push("inconclusive".into());
                        run.out.push("inconclusive".into());
                        continue;
                    };
                    use std::os::unix::io::AsRawFd;
                    let back_fd = back.as_raw_fd();
                    let mut filler = 0usize;
                    let mut peer_opt = None;
                    match variant {
                        "blocked" => {
                            // fill the backend socket's send buffer through its own descriptor: the first header write gets EAGAIN
                            let big = vec![0xEEu8; 65536];
                            for chunk in [65536usize, 4096, 256, 16, 1] {
                                loop {
                                    let n = unsafe { libc::send(back_fd, big.as_ptr() as *const libc::c_void, chunk, libc::MSG_DONTWAIT | libc::MSG_NOSIGNAL) };
                                    if n <= 0 {
                                        break;
                                    }
                                    filler += n as usize;
                                }
                            }
                            peer_opt = Some(backend_peer);
                        }
                        "closed" => drop(backend_peer),
                        _ => peer_opt = Some(backend_peer),
                    }
                    let mut m = SendProxyProtocol::new(front, Token(7), Ulid::generate(), if variant == "nobackend" { None } else { Some(back) });
                    let mut prefix = String::new();
                    let mut out = m.back_writable(&mut metrics);
                    if variant == "blocked" {
                        // nothing may have been written; drain the filler, then the header goes out
                        prefix = format!("{};", res_str(out));
                        if m.backend_readiness.event.is_writable() {
                            run.oracle.push(("send-wouldblock-keeps-writable".into(), op.clone()));
                        }
                        let peer = peer_opt.as_mut().unwrap();
                        let mut buf = vec![0u8; filler];
                        if peer.read_exact(&mut buf).is_err() || buf.iter().any(|x| *x != 0xEE) {
                            run.oracle.push(("send-header-partial-under-backpressure".into(), format!("{op}: bytes other than the filler reached the backend while its buffer was full")));
                        }
                        out = m.back_writable(&mut metrics);
                    }
                    let mut calls = 1;
                    while out == SessionResult::Continue && calls < 50 && variant != "blocked" {
                        out = m.back_writable(&mut metrics);
                        calls += 1;
                    }
                    drop(m);
                    let mut got = vec![];
                    if let Some(mut backend_peer) = peer_opt {
                        backend_peer.set_read_timeout(Some(Duration::from_millis(300))).unwrap();
                        let mut buf = [0u8; 512];
                        let t0 = Instant::now();
                        while t0.elapsed() < Duration::from_millis(400) {
                            match backend_peer.read(&mut buf) {
                                Ok(0) => break,
                                Ok(n) => got.extend_from_slice(&buf[..n]),
                                Err(_) => break,
                            }
                        }
                    }
                    if got.is_empty() {
                        run.nontrivial = true;
                        run.tags.push(format!("send:{fam}:{variant}:nothing"));
                        if variant.is_empty() || variant == "blocked" {
                            run.oracle.push(("send-header-wrong".into(), format!("{op}: the backend received nothing")));
                        }
                        run.out.push(format!("{prefix}{} len=0 nothing", res_str(out)));
                        continue;
                    }
                    run.nontrivial = true;
                    run.tags.push(format!("send:{fam}:{variant}"));
                    match ref_decode(&got) {
                        Some(rh) => {
                            let lab = |a: Option<SocketAddr>| {
                                if a == Some(client_addr) {
                                    "client"
                                } else if a == Some(listener_addr) {
                                    "listener"
                                } else {
                                    "other"
                                }
                            };
                            if rh.len != got.len() || lab(rh.src) != "client" || lab(rh.dst) != "listener" || rh.cmd != 1 {
                                run.oracle.push(("send-header-wrong".into(), format!("{op}: got {} ({:?}), client {client_addr}, listener {listener_addr}", hex(&got), rh)));
                            }
                            format!("{prefix}{} len={} consumed={} cmd={} fam={} src={} dst={}", res_str(out), got.len(), rh.len, if rh.cmd == 1 { "P" } else { "L" }, rh.fam, lab(rh.src), lab(rh.dst))
                        }
                        None => {
                            run.oracle.push(("send-header-wrong".into(), format!("{op}: got {}", hex(&got))));
                            format!("{prefix}{} len={} unparsable", res_str(out), got.len())
                        }
                    }
                }
                _ => "bad-op".into(),
            };
            run.out.push(line);
        }
        run
    }

    fn lines_agree(&self, impl_line: &str, model_line: &str) -> bool {
        impl_line == model_line || impl_line == "inconclusive" || (impl_line == "skipped-would-spin" && model_line.starts_with("spin "))
    }

    fn classify_mismatch(&self, ops: &[String], _i: &[String], _m: &[String]) -> String {
        let k = ops.iter().find_map(|o| o.split(' ').next().filter(|w| *w != "new")).unwrap_or("?");
        format!("model-mismatch:{k}")
    }
}

/// more than 2 % inconclusive cases = the run says nothing: that is a failure of the harness run
fn inconclusive_gate(args: &Args, rc: i32) -> i32 {
    if args.out.is_empty() || args.replay.is_some() {
        return rc;
    }
    let Ok(txt) = std::fs::read_to_string(&args.out) else { return rc };
    let Ok(mut v) = serde_json::from_str::<serde_json::Value>(&txt) else { return rc };
    let n = v["distribution"]["inconclusive"].as_u64().unwrap_or(0);
    let ev = v["evaluations"].as_u64().unwrap_or(0).max(1);
    if n * 50 > ev {
        if let Some(f) = v["failures"].as_array_mut() {
            f.push(serde_json::json!({"kind": "oracle", "class": "harness-inconclusive", "case": -1, "ops": [], "impl_out": [], "model_out": [],
                "detail": format!("{n} of {ev} cases stayed inconclusive after set-up retries (> 2 %)")}));
        }
        let _ = std::fs::write(&args.out, serde_json::to_string_pretty(&v).unwrap());
        println!("FAIL harness-inconclusive {n} of {ev}");
        return 1;
    }
    rc
}

fn main() {
    std::panic::set_hook(Box::new(|_| {}));
    let args = parse_args();
    let rc = run_area(&PP, &args);
    std::process::exit(inconclusive_gate(&args, rc));
}
