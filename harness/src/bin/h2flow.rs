//! C14: the real `H2BlockConverter` (hook `sozu_lib::protocol::mux::verif`) over
//! real `kawa` buffers vs the Lean model `Sozu.H2Flow.Model`, plus the
//! property's own oracles (window, frame size, byte order, END_STREAM, progress).
//!
//! Three layers are exercised:
//!  * converter rig (`chunk`/`flags`/`hdr`/`raw`/`prepare`): real converter, real kawa;
//!  * `nextid`: the real `h2::next_stream_id` allocator (hook wrapper);
//!  * connection ledger (`conn`/`openp`/`openl`/`wu`/`sinit`/`smfs`/`write`…) and
//!    receiver (`recv`/`rdata`/`rflush`): `ConnectionH2` is private, so the
//!    *call-site protocol* of `write_streams` (budget = min(stream, conn), both
//!    windows decremented by what the converter consumed) is replicated here
//!    around the real converter, and the few lines of `i32::checked_add`
//!    arithmetic of `handle_window_update_frame` / `update_initial_window_size`
//!    / `queue_window_update` are re-stated in Rust. That part only guards the
//!    Lean transcription; the real `h2.rs` ledger is observed end-to-end by
//!    `e2ebody` (scripted h2c backend with its own byte ledger).
use std::collections::BTreeMap;

use kawa::{AsBuffer, Block, Buffer, Chunk, Flags, Kawa, Kind, OutBlock, Pair, Store};
use sozu_lib::protocol::mux::verif::{next_stream_id, H2BlockConverter};
use verif_harness::*;

const I32MAX: i64 = i32::MAX as i64;

pub struct VecBuf(pub Vec<u8>);
impl AsBuffer for VecBuf {
    fn as_buffer(&self) -> &[u8] {
        &self.0
    }
    fn as_mut_buffer(&mut self) -> &mut [u8] {
        &mut self.0
    }
}

fn new_kawa(cap: usize) -> Kawa<VecBuf> {
    let mut k = Kawa::new(Kind::Response, Buffer::new(VecBuf(vec![0u8; cap])));
    k.parsing_phase = kawa::ParsingPhase::Body;
    k
}

/// put `d` behind a `Store`: inside the kawa buffer when it fits (the shape
/// the H1 parser produces), otherwise an owned allocation
fn store_of(k: &mut Kawa<VecBuf>, d: &[u8], prefer_slice: bool) -> Store {
    if prefer_slice && !d.is_empty() && k.storage.available_space() >= d.len() {
        let start = k.storage.end;
        k.storage.space()[..d.len()].copy_from_slice(d);
        k.storage.fill(d.len());
        let buf = k.storage.buffer();
        Store::new_slice(buf, &buf[start..start + d.len()])
    } else {
        Store::from_slice(d)
    }
}

#[derive(Clone, Debug)]
struct Fr {
    ty: u8,
    flags: u8,
    sid: u32,
    payload: Vec<u8>,
}

/// drain `kawa.out` the way `flush_stream_out` does and cut it into frames
fn drain_frames(k: &mut Kawa<VecBuf>) -> Result<Vec<Fr>, String> {
    let mut wire = vec![];
    {
        let buf = k.storage.buffer();
        for b in k.out.iter() {
            if let OutBlock::Store(s) = b {
                wire.extend_from_slice(s.data(buf));
            }
        }
    }
    k.out.clear();
    let mut frames = vec![];
    let mut i = 0;
    while i < wire.len() {
        if wire.len() - i < 9 {
            return Err(format!("truncated frame header at {i}"));
        }
        let len = ((wire[i] as usize) << 16) | ((wire[i + 1] as usize) << 8) | wire[i + 2] as usize;
        let ty = wire[i + 3];
        let flags = wire[i + 4];
        let sid = u32::from_be_bytes([wire[i + 5], wire[i + 6], wire[i + 7], wire[i + 8]]);
        if wire.len() - i - 9 < len {
            return Err(format!("frame at {i} announces {len} bytes, {} present", wire.len() - i - 9));
        }
        frames.push(Fr { ty, flags, sid, payload: wire[i + 9..i + 9 + len].to_vec() });
        i += 9 + len;
    }
    Ok(frames)
}

fn frames_str(fs: &[Fr]) -> String {
    if fs.is_empty() {
        return "-".into();
    }
    fs.iter()
        .map(|f| format!("{}:{}:{}:{}", f.ty, f.flags, f.sid, hex(&f.payload)))
        .collect::<Vec<_>>()
        .join(",")
}

fn blocks_str(k: &Kawa<VecBuf>) -> String {
    if k.blocks.is_empty() {
        return "-".into();
    }
    let buf = k.storage.buffer();
    k.blocks
        .iter()
        .map(|b| match b {
            Block::Chunk(c) => format!("c:{}", hex(c.data.data(buf))),
            Block::Flags(f) => format!("f:{}{}", f.end_header as u8, f.end_stream as u8),
            Block::ChunkHeader(_) => "k".into(),
            _ => "h".into(),
        })
        .collect::<Vec<_>>()
        .join(",")
}

fn body_len(k: &Kawa<VecBuf>) -> usize {
    k.blocks
        .iter()
        .map(|b| if let Block::Chunk(c) = b { c.data.len() } else { 0 })
        .sum()
}

/// the observable event sequence of a stream: body bytes and END_STREAM marks
#[derive(Default)]
struct Events {
    expected: Vec<i32>, // 0..255 byte, -1 END_STREAM
    seen: Vec<i32>,
    /// header bytes injected since the last end_header flags block
    hdr_pending: Vec<u8>,
    hdr_expected: Vec<Vec<u8>>,
    hdr_seen: Vec<Vec<u8>>,
    hdr_cur: Option<Vec<u8>>,
    reset: bool,
}

impl Events {
    fn push_block(&mut self, b: &str, bytes: &[u8], eh: bool, es: bool) {
        match b {
            "chunk" => self.expected.extend(bytes.iter().map(|x| *x as i32)),
            "flags" => {
                if es {
                    self.expected.push(-1);
                }
                let _ = eh;
            }
            _ => {}
        }
    }
    fn see(&mut self, fs: &[Fr], mfs: usize, sid: u32, oracle: &mut Vec<(String, String)>) {
        for f in fs {
            if f.sid != sid {
                oracle.push(("wrong-stream-id".into(), format!("frame type {} on stream {} while writing stream {sid}", f.ty, f.sid)));
            }
            if f.ty != 3 && f.payload.len() > mfs {
                oracle.push(("frame-exceeds-max-frame-size".into(), format!("type {} payload {} > max_frame_size {mfs}", f.ty, f.payload.len())));
            }
            if self.hdr_cur.is_some() && f.ty != 9 {
                oracle.push(("continuation-sequence".into(), format!("frame type {} inside an open header block", f.ty)));
            }
            match f.ty {
                0 => {
                    self.seen.extend(f.payload.iter().map(|x| *x as i32));
                    if f.flags & 1 != 0 {
                        self.seen.push(-1);
                    }
                }
                1 => {
                    if f.flags & 1 != 0 {
                        self.seen.push(-1);
                    }
                    if f.flags & 4 != 0 {
                        self.hdr_seen.push(f.payload.clone());
                    } else {
                        self.hdr_cur = Some(f.payload.clone());
                    }
                }
                9 => match self.hdr_cur.take() {
                    None => oracle.push(("continuation-sequence".into(), "CONTINUATION without an open header block".into())),
                    Some(mut cur) => {
                        cur.extend_from_slice(&f.payload);
                        if f.flags & 4 != 0 {
                            self.hdr_seen.push(cur);
                        } else {
                            self.hdr_cur = Some(cur);
                        }
                    }
                },
                3 => self.reset = true,
                _ => oracle.push(("unexpected-frame-type".into(), format!("type {}", f.ty))),
            }
        }
        if self.hdr_cur.is_some() {
            oracle.push(("continuation-sequence".into(), "pass ended inside a header block (no END_HEADERS)".into()));
            self.hdr_cur = None;
        }
        if !self.reset {
            if self.seen.len() > self.expected.len() || self.seen[..] != self.expected[..self.seen.len()] {
                let at = self.seen.iter().zip(self.expected.iter()).position(|(a, b)| a != b).unwrap_or(self.expected.len());
                oracle.push(("body-not-prefix".into(), format!("emitted body/END_STREAM sequence diverges from the queued one at event {at}")));
                self.reset = true; // report once
            }
        }
    }
}

struct H2Flow;

fn s(v: &[&str]) -> Vec<String> {
    v.iter().map(|x| x.to_string()).collect()
}

const HDR_NAMES: [&str; 5] = ["x-a", "content-type", "accept", "x-trace-id", "Server"];

fn gen_hdr(rng: &mut Rng, enc: &mut loona_hpack::Encoder<'static>) -> String {
    let k = *rng.pick(&HDR_NAMES);
    let n = rng.range(0, 24) as usize;
    let v: Vec<u8> = (0..n).map(|_| b'a' + rng.below(26) as u8).collect();
    let mut out = vec![];
    let lower = k.to_ascii_lowercase();
    enc.encode_header_into((lower.as_bytes(), &v[..]), &mut out).unwrap();
    format!("hdr {} {} {}", hex(k.as_bytes()), hex(&v), hex(&out))
}

fn pattern(rng: &mut Rng, n: usize) -> Vec<u8> {
    // position-dependent bytes so that reordering / duplication is visible
    let k = rng.below(251) as usize;
    (0..n).map(|i| ((i * 7 + k) % 251) as u8).collect()
}

fn gen_chunk(rng: &mut Rng, big: bool) -> String {
    let n = if big {
        *rng.pick(&[1usize, 9, 16383, 16384, 16385, 32768, 65535, 65536, 70000])
    } else if rng.chance(1, 12) {
        0
    } else {
        rng.range(1, 30) as usize
    };
    format!("chunk {}", hex(&pattern(rng, n)))
}

/// one message in the shape the H1/H2 parsers produce: header section closed by
/// its flags block, body chunks, then END_STREAM flags / trailers / nothing yet
fn gen_message(rng: &mut Rng, big: bool, enc: &mut loona_hpack::Encoder<'static>, ops: &mut Vec<String>, allow_raw: bool) {
    if allow_raw && big && rng.chance(1, 5) {
        // header block pushed over MAX_HEADER_LIST_SIZE by a real header: abort + RST_STREAM
        let n = *rng.pick(&[65500usize, 65530, 65536]);
        ops.push(format!("raw {}", hex(&rng.bytes(n))));
        for _ in 0..rng.range(1, 3) {
            ops.push(gen_hdr(rng, enc));
        }
        ops.push("flags 1 0".into());
        ops.push(gen_chunk(rng, false));
        ops.push("flags 0 1".into());
        return;
    }
    if rng.chance(4, 5) {
        if allow_raw && rng.chance(1, 2) {
            let n = if big {
                *rng.pick(&[16383usize, 16384, 16385, 32769, 65536, 65537, 70001])
            } else {
                rng.range(1, 50) as usize
            };
            ops.push(format!("raw {}", hex(&rng.bytes(n))));
        } else {
            for _ in 0..rng.range(0, 3) {
                ops.push(gen_hdr(rng, enc));
            }
        }
        let es = rng.chance(1, 6);
        ops.push(format!("flags 1 {}", es as u8));
        if es {
            return;
        }
    }
    for _ in 0..rng.range(0, if big { 2 } else { 5 }) {
        if rng.chance(1, 10) {
            ops.push("chunkhdr".into());
        }
        ops.push(gen_chunk(rng, big));
    }
    match rng.below(5) {
        0 => {}
        1 => {
            for _ in 0..rng.range(1, 2) {
                ops.push(gen_hdr(rng, enc));
            }
            ops.push("flags 1 1".into());
        }
        _ => ops.push("flags 0 1".into()),
    }
}

fn gen_block(rng: &mut Rng, big: bool, _enc: &mut loona_hpack::Encoder<'static>) -> String {
    // arbitrary order ("malformed stream"): no header bytes, so that a header
    // section cut by a stall cannot confuse the header-bytes oracle
    let r = rng.below(100);
    if r < 65 {
        gen_chunk(rng, big)
    } else if r < 92 {
        format!("flags {} {}", rng.below(2), rng.below(2))
    } else {
        "chunkhdr".into()
    }
}

fn gen_conv_case(rng: &mut Rng, big: bool) -> Vec<String> {
    let mut enc = loona_hpack::Encoder::new();
    let mut ops = vec!["new".to_string()];
    let wild = rng.chance(1, 8);
    let rounds = rng.range(1, if big { 2 } else { 4 });
    let sid = *rng.pick(&[1u64, 3, 5, 7, 2147483647]);
    let mfs_small = *rng.pick(&[1u64, 2, 3, 5, 8, 16, 100]);
    for round in 0..rounds {
        if wild {
            for _ in 0..rng.range(0, 6) {
                ops.push(gen_block(rng, big, &mut enc));
            }
        } else {
            gen_message(rng, big, &mut enc, &mut ops, round == 0);
        }
        let passes = rng.range(1, 4);
        for _ in 0..passes {
            let (mfs, w): (u64, i64) = if big {
                (
                    *rng.pick(&[16384u64, 16385, 32768, 16777215]),
                    *rng.pick(&[0i64, 1, 9, 16383, 16384, 16385, 65535, 65536, 100000, 2147483647, -1]),
                )
            } else {
                (
                    if rng.chance(3, 4) { mfs_small } else { *rng.pick(&[1u64, 4, 7, 16384]) },
                    rng.range(0, 45) as i64 - 5,
                )
            };
            ops.push(format!("prepare {mfs} {w} {sid} {}", rng.chance(1, 5) as u8));
        }
        if !wild {
            // drain before the next message so header sections are never interleaved
            let mfs = if big { 16384 } else { mfs_small };
            ops.push(format!("prepare {mfs} 2147483647 {sid} 0"));
        }
    }
    let mfs = if big { 16384 } else { mfs_small };
    ops.push(format!("prepare {mfs} 2147483647 {sid} 0"));
    ops
}

fn gen_ledger_case(rng: &mut Rng) -> Vec<String> {
    let is_client = rng.chance(1, 2);
    let mut ops = vec!["new".to_string(), format!("conn {}", is_client as u8)];
    let mut enc = loona_hpack::Encoder::new();
    let mut sids: Vec<u64> = vec![];
    let mut peer_init: u64 = 65535;
    let mut next_peer = 1u64;
    let mut last = 0u64;
    let n = rng.range(4, 30);
    for _ in 0..n {
        let r = rng.below(100);
        if r < 14 {
            if is_client {
                // precondition of the flow-control theorem: the stream object's
                // window is the backend's current initial window
                ops.push(format!("openl {peer_init}"));
                last += 2;
                sids.push(last - 1);
            } else {
                ops.push(format!("openp {next_peer}"));
                sids.push(next_peer);
                next_peer += 2 * rng.range(1, 3);
            }
        } else if r < 40 && !sids.is_empty() {
            let sid = *rng.pick(&sids);
            let mut b = gen_block(rng, false, &mut enc);
            if b.starts_with("raw") || b.starts_with("hdr") {
                let n = rng.range(1, 60) as usize;
                b = format!("chunk {}", hex(&pattern(rng, n)));
            }
            if rng.chance(1, 6) {
                let n = *rng.pick(&[16384usize, 16385, 65535, 65536, 70000]);
                b = format!("chunk {}", hex(&pattern(rng, n)));
            }
            ops.push(format!("push {sid} {b}"));
        } else if r < 65 && !sids.is_empty() {
            ops.push(format!("write {} {}", rng.pick(&sids), rng.chance(1, 6) as u8));
        } else if r < 80 {
            let sid = if rng.chance(1, 3) || sids.is_empty() { 0 } else { *rng.pick(&sids) };
            let inc = match rng.below(10) {
                0 => 0,
                1 => 2147483647,
                2 => 2147483647 - 65535,
                3 => 1,
                _ => rng.range(1, 70000),
            };
            ops.push(format!("wu {sid} {inc}"));
        } else if r < 88 {
            let v = match rng.below(8) {
                0 => 0,
                1 => 1,
                2 => 2147483647,
                3 => 2147483648,
                4 => 16383,
                _ => rng.range(0, 200000),
            };
            ops.push(format!("sinit {v}"));
            if v <= 2147483647 {
                peer_init = v;
            }
        } else if r < 92 {
            ops.push(format!("smfs {}", rng.pick(&[16384u64, 16383, 16385, 65536, 16777215, 16777216, 0])));
        } else if r < 95 {
            ops.push(format!("smax {}", rng.pick(&[0u64, 1, 2, 100])));
        } else if !sids.is_empty() {
            let i = rng.below(sids.len() as u64) as usize;
            ops.push(format!("close {}", sids.remove(i)));
        }
    }
    for sid in &sids {
        ops.push(format!("wu 0 {}", 1000000));
        ops.push(format!("wu {sid} {}", 1000000));
        ops.push(format!("write {sid} 0"));
    }
    ops
}

fn gen_recv_case(rng: &mut Rng) -> Vec<String> {
    let icw = *rng.pick(&[65535u64, 65536, 1048576, 2147483647]);
    let ms = *rng.pick(&[0u64, 1, 2, 100]);
    let mut ops = vec!["new".to_string(), format!("recv {icw} {ms}")];
    for _ in 0..rng.range(3, 40) {
        if rng.chance(4, 5) {
            let len = match rng.below(6) {
                0 => 0,
                1 => 16384,
                2 => icw / 2,
                3 => 2147483647,
                _ => rng.range(1, 40000),
            };
            ops.push(format!("rdata {} {len} {} {}", 1 + 2 * rng.below(12), rng.chance(4, 5) as u8, rng.chance(1, 6) as u8));
        } else {
            let ids: Vec<String> = (0..rng.below(5)).map(|_| if rng.chance(1, 3) { "0".into() } else { (1 + 2 * rng.below(12)).to_string() }).collect();
            ops.push(format!("rflush {}", ids.join(" ")).trim().to_string());
        }
    }
    ops
}

// ---------------------------------------------------------------- replicas --

struct LStream {
    sid: u32,
    window: i32,
    kawa: Kawa<VecBuf>,
    credit: i64,
    sent: i64,
    precondition: bool,
}

struct LConn {
    is_client: bool,
    window: i32,
    peer_init: u32,
    peer_mfs: u32,
    peer_max: u32,
    last: u32,
    streams: Vec<LStream>,
    dead: bool,
    credit: i64,
    sent: i64,
}

impl LConn {
    fn new(is_client: bool) -> Self {
        LConn { is_client, window: 65535, peer_init: 65535, peer_mfs: 16384, peer_max: 100, last: 0, streams: vec![], dead: false, credit: 65535, sent: 0 }
    }
    fn dump(&self) -> String {
        let ss: Vec<String> = self
            .streams
            .iter()
            .map(|s| format!("{}:{}:{}:{}", s.sid, s.window, body_len(&s.kawa), s.kawa.is_error() as u8))
            .collect();
        format!(
            "cw={} iw={} mfs={} last={} dead={} streams={}",
            self.window,
            self.peer_init,
            self.peer_mfs,
            self.last,
            self.dead as u8,
            if ss.is_empty() { "-".into() } else { ss.join(",") }
        )
    }
}

struct LRecv {
    icw: u32,
    max_pending: usize,
    since: u32,
    pending: Vec<(u32, u32)>, // insertion order (the model's list order)
}

impl LRecv {
    fn queue(&mut self, sid: u32, inc: u32) {
        let max = i32::MAX as u32;
        if let Some(e) = self.pending.iter_mut().find(|p| p.0 == sid) {
            e.1 = e.1.saturating_add(inc).min(max);
        } else if self.pending.len() < self.max_pending {
            self.pending.push((sid, inc.min(max)));
        }
    }
    fn dump(&self) -> String {
        let ps: Vec<String> = self.pending.iter().map(|p| format!("{}:{}", p.0, p.1)).collect();
        format!("since={} pending={}", self.since, if ps.is_empty() { "-".into() } else { ps.join(",") })
    }
}

fn parse_block(k: &mut Kawa<VecBuf>, w: &[&str], slice: bool) -> Option<Block> {
    match w[0] {
        "chunk" => {
            let d = unhex(w[1]);
            Some(Block::Chunk(Chunk { data: store_of(k, &d, slice) }))
        }
        "flags" => Some(Block::Flags(Flags { end_body: false, end_chunk: false, end_header: w[1] == "1", end_stream: w[2] == "1" })),
        "hdr" => Some(Block::Header(Pair { key: Store::from_slice(&unhex(w[1])), val: Store::from_slice(&unhex(w[2])) })),
        "chunkhdr" => Some(Block::ChunkHeader(kawa::ChunkHeader { length: Store::from_slice(b"0") })),
        _ => None,
    }
}

impl Area for H2Flow {
    fn name(&self) -> &'static str {
        "h2flow"
    }
    fn rule(&self) -> String {
        "55% converter rig, small: blocks (chunks 0..30 B, flags, real headers through HPACK, raw header blocks 1..50 B) and 1..4 prepare passes per round with max_frame_size in {1,2,3,5,8,16,100,16384} and window in -5..40 (a credit schedule), final fair pass; 5% (thorough 12%) converter rig at real sizes (max_frame_size 16384/16385/32768/2^24-1, windows 0,1,9,16383..16385,65535,65536,2^31-1, bodies 16383..70000, header blocks up to 70001 B); 25% connection ledger (open/push/write/WINDOW_UPDATE incl. 0 and overflow/SETTINGS initial window incl. shrink below in-flight and >2^31-1/max frame size incl. out of range/close); 7% receiver (DATA sizes around icw/2, flushes); 8% stream-id allocator probes. non-trivial = a pass split a chunk or a header block, stalled on a non-positive window, hit an error path, or the allocator refused; distinct = distinct op sequence".into()
    }
    fn cases(&self, thorough: bool) -> u64 {
        if thorough {
            40_000
        } else {
            3_000
        }
    }
    fn corpus(&self) -> Vec<Vec<String>> {
        vec![
            // the three branches of the Chunk arm + END_STREAM as an empty DATA frame
            s(&["new", "chunk 0102030405", "flags 0 1", "prepare 2 3 1 0", "prepare 2 0 1 0", "prepare 2 -4 1 0", "prepare 2 10 1 0"]),
            // header block exactly at / one over max_frame_size, END_STREAM on HEADERS
            s(&["new", "raw 0102030405", "flags 1 1", "prepare 5 0 3 0"]),
            s(&["new", "raw 010203040506", "flags 1 1", "prepare 5 0 3 0"]),
            s(&["new", "raw 0102030405060708090a0b", "flags 1 0", "chunk aabbcc", "flags 0 1", "prepare 5 2 3 0", "prepare 5 100 3 0"]),
            // incremental yield and the close-race guard
            s(&["new", "chunk 0102", "chunk 0304", "flags 0 1", "prepare 8 100 5 1", "prepare 8 100 5 1", "prepare 8 100 5 1"]),
            // stream-id space
            s(&["new", "nextid 0 1", "nextid 0 0", "nextid 2147483646 1", "nextid 2147483648 1", "nextid 2147483648 0", "nextid 4294967294 1", "nextid 4294967295 0"]),
            // ledger: settings shrink below in-flight, then drip
            s(&["new", "conn 0", "openp 1", "push 1 chunk 0102030405060708090a", "sinit 4", "write 1 0", "wu 1 65535", "write 1 0", "sinit 0", "write 1 0", "wu 1 3", "write 1 0", "wu 1 0"]),
            s(&["new", "conn 1", "openl 65535", "wu 0 2147483647", "wu 1 2147483647", "sinit 2147483648", "write 1 0"]),
            // what HTTP/1 frontends really pass to a backend stream (model agrees with the
            // replicated call-site protocol; the genuine witness is e2ebody's)
            s(&["new", "conn 1", "openl 65536", "wu 0 1000", "push 1 chunk 00", "write 1 0"]),
            s(&["new", "recv 65535 0", "rdata 1 10 1 0", "rdata 3 40000 0 0", "rflush 0 1", "rdata 1 2147483647 1 0", "rdata 1 2147483647 1 0"]),
        ]
    }
    fn gen(&self, rng: &mut Rng, thorough: bool) -> Vec<String> {
        let r = rng.below(100);
        let big_cut = if thorough { 12 } else { 5 };
        if r < big_cut {
            gen_conv_case(rng, true)
        } else if r < 60 {
            gen_conv_case(rng, false)
        } else if r < 85 {
            gen_ledger_case(rng)
        } else if r < 92 {
            gen_recv_case(rng)
        } else {
            let mut ops = vec!["new".to_string()];
            for _ in 0..rng.range(1, 8) {
                let last = match rng.below(6) {
                    0 => rng.range(0, 10),
                    1 => 2147483640 + rng.below(12),
                    2 => 4294967288 + rng.below(8),
                    3 => 2 * rng.below(1 << 30),
                    _ => rng.below(1 << 32),
                };
                ops.push(format!("nextid {last} {}", rng.below(2)));
            }
            ops
        }
    }
    fn run_impl(&self, ops: &[String]) -> ImplRun {
        let mut r = ImplRun::default();
        let mut encoder = loona_hpack::Encoder::new();
        let mut conv = H2BlockConverter {
            max_frame_size: 16384,
            window: 0,
            stream_id: 0,
            encoder: &mut encoder,
            out: Vec::new(),
            scheme: b"http",
            lowercase_buf: Vec::new(),
            cookie_buf: Vec::new(),
            position_is_client: false,
            incremental_mode: false,
            incremental_peer_count: 0,
            pending_table_size_update: None,
            size_update_emitted: false,
            pending_oversized_abort: false,
        };
        let mut k = new_kawa(1 << 17);
        let mut raw: Vec<u8> = vec![];
        let mut ev = Events::default();
        let mut conn = LConn::new(true);
        let mut levs: BTreeMap<u32, Events> = BTreeMap::new();
        let mut recv = LRecv { icw: 65535, max_pending: 401, since: 0, pending: vec![] };
        let mut slice_toggle = 0u32;
        for op in ops {
            let w: Vec<&str> = op.split_whitespace().collect();
            r.tags.push(format!("op:{}", w[0]));
            match w[0] {
                "new" => {
                    k = new_kawa(1 << 17);
                    raw.clear();
                    conv.out.clear();
                    ev = Events::default();
                    conn = LConn::new(true);
                    levs.clear();
                    r.out.push("ok".into());
                }
                "chunk" | "flags" | "hdr" | "chunkhdr" => {
                    slice_toggle += 1;
                    let b = parse_block(&mut k, &w, slice_toggle % 3 != 0).unwrap();
                    match w[0] {
                        "chunk" => ev.push_block("chunk", &unhex(w[1]), false, false),
                        "flags" => {
                            ev.push_block("flags", &[], w[1] == "1", w[2] == "1");
                            if w[1] == "1" && !ev.hdr_pending.is_empty() {
                                let h = std::mem::take(&mut ev.hdr_pending);
                                ev.hdr_expected.push(h);
                            }
                        }
                        "hdr" => ev.hdr_pending.extend_from_slice(&unhex(w[3])),
                        _ => {}
                    }
                    k.push_block(b);
                    r.out.push("ok".into());
                }
                "raw" => {
                    let b = unhex(w[1]);
                    ev.hdr_pending.extend_from_slice(&b);
                    raw.extend_from_slice(&b);
                    r.out.push("ok".into());
                }
                "prepare" => {
                    let mfs: usize = w[1].parse().unwrap();
                    let win: i64 = w[2].parse().unwrap();
                    let sid: u32 = w[3].parse().unwrap();
                    let incr = w[4] == "1";
                    conv.max_frame_size = mfs;
                    conv.window = win as i32;
                    conv.stream_id = sid;
                    conv.incremental_mode = incr;
                    conv.incremental_peer_count = if incr { 2 } else { 0 };
                    conv.out.extend_from_slice(&raw);
                    raw.clear();
                    let pending_before = body_len(&k);
                    let was_dead = k.is_error();
                    // header bytes of real `hdr` blocks reach `out` during the pass: predicted by the generator
                    k.prepare(&mut conv);
                    match drain_frames(&mut k) {
                        Err(e) => {
                            r.oracle.push(("malformed-frame-output".into(), e));
                            r.out.push("malformed".into());
                        }
                        Ok(fs) => {
                            let sent: usize = fs.iter().filter(|f| f.ty == 0).map(|f| f.payload.len()).sum();
                            if sent as i64 > win.max(0) {
                                r.oracle.push(("data-exceeds-window".into(), format!("{sent} DATA bytes in a pass budgeted {win}")));
                            }
                            if (win as i32 as i64) - (conv.window as i64) != sent as i64 {
                                r.oracle.push(("window-accounting".into(), format!("window {win} -> {} but {sent} DATA bytes emitted", conv.window)));
                            }
                            if !was_dead && !k.is_error() && win > 0 && mfs > 0 && pending_before > 0 && !incr && sent == 0 {
                                r.oracle.push(("no-progress".into(), format!("window {win}, {pending_before} bytes queued, nothing sent")));
                            }
                            let hdr_closed_before = ev.hdr_expected.len();
                            let _ = hdr_closed_before;
                            ev.see(&fs, mfs, sid, &mut r.oracle);
                            if fs.len() > 1 || win <= 0 || k.is_error() {
                                r.nontrivial = true;
                            }
                            if fs.iter().any(|f| f.ty == 9) {
                                r.tags.push("continuation".into());
                            }
                            if !k.blocks.is_empty() {
                                r.tags.push("pushback".into());
                            }
                            if k.is_error() {
                                r.tags.push("stream-reset".into());
                            }
                            r.out.push(format!("w={} dead={} frames={} rest={}", conv.window, k.is_error() as u8, frames_str(&fs), blocks_str(&k)));
                        }
                    }
                }
                "nextid" => {
                    let last: u64 = w[1].parse().unwrap();
                    let is_client = w[2] == "1";
                    let res = next_stream_id(last as u32, is_client);
                    match res {
                        Some((issued, next)) => {
                            if issued > 0x7fff_ffff {
                                r.oracle.push(("stream-id-out-of-range".into(), format!("issued {issued}")));
                            }
                            if last % 2 == 0 && (issued % 2 == 1) != is_client {
                                r.oracle.push(("stream-id-parity".into(), format!("issued {issued} for client={is_client}")));
                            }
                            if (issued as u64) < last && last % 2 == 0 && is_client {
                                r.oracle.push(("stream-id-not-monotone".into(), format!("issued {issued} after watermark {last}")));
                            }
                            if next as u64 <= issued as u64 {
                                r.oracle.push(("stream-id-not-monotone".into(), format!("watermark {next} <= issued {issued}")));
                            }
                            r.out.push(format!("some {issued} {next}"));
                        }
                        None => {
                            r.nontrivial = true;
                            r.out.push("none".into());
                        }
                    }
                }
                "conn" => {
                    conn = LConn::new(w[1] == "1");
                    levs.clear();
                    r.out.push(format!("ok {}", conn.dump()));
                }
                "recv" => {
                    let ms: usize = w[2].parse().unwrap();
                    recv = LRecv { icw: w[1].parse().unwrap(), max_pending: 1 + ms * 4, since: 0, pending: vec![] };
                    r.out.push(format!("ok {}", recv.dump()));
                }
                "rdata" => {
                    // handle_data_frame, flow-control part
                    let sid: u32 = w[1].parse().unwrap();
                    let len: u32 = w[2].parse().unwrap();
                    let known = w[3] == "1";
                    let es = w[4] == "1";
                    recv.since = recv.since.wrapping_add(len);
                    if recv.since >= recv.icw / 2 {
                        let inc = recv.since;
                        recv.queue(0, inc);
                        recv.since = 0;
                    }
                    if known && !es {
                        recv.queue(sid, len);
                    }
                    r.out.push(format!("ok {}", recv.dump()));
                }
                "rflush" => {
                    let ids: Vec<u32> = w[1..].iter().map(|x| x.parse().unwrap()).collect();
                    let mut written = vec![];
                    recv.pending.retain(|p| {
                        if ids.contains(&p.0) {
                            if p.1 != 0 {
                                written.push(format!("{}:{}", p.0, p.1));
                            }
                            false
                        } else {
                            true
                        }
                    });
                    r.out.push(format!("wu={} {}", if written.is_empty() { "-".into() } else { written.join(",") }, recv.dump()));
                }
                _ if conn.dead => {
                    r.out.push(format!("closed {}", conn.dump()));
                }
                "sinit" => {
                    // update_initial_window_size + the caller's goaway
                    let v: u64 = w[1].parse().unwrap();
                    let mut err = v > I32MAX as u64;
                    if !err {
                        let delta = v as i64 - conn.peer_init as i64;
                        if conn.streams.iter().all(|s| (s.window as i64 + delta) <= I32MAX) {
                            for st in conn.streams.iter_mut() {
                                st.window = (st.window as i64 + delta) as i32;
                                st.credit += delta;
                            }
                            conn.peer_init = v as u32;
                        } else {
                            err = true;
                        }
                    }
                    if err {
                        conn.dead = true;
                        r.nontrivial = true;
                        r.out.push(format!("err goaway-protocol {}", conn.dump()));
                    } else {
                        r.out.push(format!("ok {}", conn.dump()));
                    }
                }
                "smfs" => {
                    let v: u64 = w[1].parse().unwrap();
                    conn.peer_mfs = v as u32;
                    if (16384..16777216).contains(&v) {
                        r.out.push(format!("ok {}", conn.dump()));
                    } else {
                        conn.dead = true;
                        r.nontrivial = true;
                        r.out.push(format!("err goaway-protocol {}", conn.dump()));
                    }
                }
                "smax" => {
                    conn.peer_max = w[1].parse().unwrap();
                    r.out.push(format!("ok {}", conn.dump()));
                }
                "wu" => {
                    let sid: u32 = w[1].parse().unwrap();
                    let inc: u64 = w[2].parse().unwrap();
                    let pos = conn.streams.iter().position(|s| s.sid == sid);
                    let res = if inc == 0 {
                        if sid == 0 {
                            conn.dead = true;
                            "err goaway-protocol".to_string()
                        } else if let Some(p) = pos {
                            conn.streams.remove(p);
                            format!("err rst-protocol {sid}")
                        } else {
                            "ok".into()
                        }
                    } else {
                        let i = i32::try_from(inc).unwrap_or(i32::MAX);
                        if sid == 0 {
                            match conn.window.checked_add(i) {
                                Some(nw) => {
                                    conn.window = nw;
                                    conn.credit += i as i64;
                                    "ok".into()
                                }
                                None => {
                                    conn.dead = true;
                                    "err goaway-flow-control".into()
                                }
                            }
                        } else if let Some(p) = pos {
                            match conn.streams[p].window.checked_add(i) {
                                Some(nw) => {
                                    conn.streams[p].window = nw;
                                    conn.streams[p].credit += i as i64;
                                    "ok".into()
                                }
                                None => {
                                    conn.streams.remove(p);
                                    format!("err rst-flow-control {sid}")
                                }
                            }
                        } else {
                            "ok".into()
                        }
                    };
                    if res.starts_with("err") {
                        r.nontrivial = true;
                        r.tags.push(res.split(' ').nth(1).unwrap_or("err").to_string());
                    }
                    r.out.push(format!("{res} {}", conn.dump()));
                }
                "openp" => {
                    let sid: u32 = w[1].parse().unwrap();
                    conn.streams.push(LStream { sid, window: i32::try_from(conn.peer_init).unwrap_or(i32::MAX), kawa: new_kawa(1 << 17), credit: conn.peer_init as i64, sent: 0, precondition: true });
                    conn.last = (sid + 2) & !1;
                    levs.insert(sid, Events::default());
                    r.out.push(format!("ok {}", conn.dump()));
                }
                "openl" => {
                    let w0: u64 = w[1].parse().unwrap();
                    let res = if conn.streams.len() >= conn.peer_max as usize {
                        "refused".to_string()
                    } else {
                        match next_stream_id(conn.last, conn.is_client) {
                            None => "refused".into(),
                            Some((sid, next)) => {
                                conn.last = next;
                                conn.streams.push(LStream { sid, window: i32::try_from(w0).unwrap_or(i32::MAX), kawa: new_kawa(1 << 17), credit: conn.peer_init as i64, sent: 0, precondition: w0 <= conn.peer_init as u64 });
                                levs.insert(sid, Events::default());
                                if conn.streams.len() > conn.peer_max as usize {
                                    r.oracle.push(("max-concurrent-streams-exceeded".into(), format!("{} open, peer allows {}", conn.streams.len(), conn.peer_max)));
                                }
                                format!("opened {sid}")
                            }
                        }
                    };
                    if res == "refused" {
                        r.nontrivial = true;
                    }
                    r.out.push(format!("{res} {}", conn.dump()));
                }
                "push" => {
                    let sid: u32 = w[1].parse().unwrap();
                    slice_toggle += 1;
                    if let Some(st) = conn.streams.iter_mut().find(|s| s.sid == sid) {
                        let b = parse_block(&mut st.kawa, &w[2..], slice_toggle % 3 != 0).unwrap();
                        if let Some(e) = levs.get_mut(&sid) {
                            match w[2] {
                                "chunk" => e.push_block("chunk", &unhex(w[3]), false, false),
                                "flags" => e.push_block("flags", &[], w[3] == "1", w[4] == "1"),
                                _ => {}
                            }
                        }
                        st.kawa.push_block(b);
                    }
                    r.out.push(format!("ok {}", conn.dump()));
                }
                "write" => {
                    // one iteration of the write_streams loop (call-site protocol replicated)
                    let sid: u32 = w[1].parse().unwrap();
                    let incr = w[2] == "1";
                    let mut line = "frames -".to_string();
                    if let Some(p) = conn.streams.iter().position(|s| s.sid == sid) {
                        let all_pre = conn.streams.iter().all(|s| s.precondition);
                        let st = &mut conn.streams[p];
                        let window = st.window.min(conn.window);
                        conv.max_frame_size = conn.peer_mfs as usize;
                        conv.window = window;
                        conv.stream_id = sid;
                        conv.incremental_mode = incr;
                        conv.incremental_peer_count = if incr { 2 } else { 0 };
                        st.kawa.prepare(&mut conv);
                        let consumed = window - conv.window;
                        st.window = st.window.saturating_sub(consumed);
                        conn.window = conn.window.saturating_sub(consumed);
                        match drain_frames(&mut st.kawa) {
                            Err(e) => r.oracle.push(("malformed-frame-output".into(), e)),
                            Ok(fs) => {
                                let sent: i64 = fs.iter().filter(|f| f.ty == 0).map(|f| f.payload.len() as i64).sum();
                                st.sent += sent;
                                conn.sent += sent;
                                if sent > 0 && st.precondition {
                                    if st.sent > st.credit {
                                        r.oracle.push(("stream-window-exceeded".into(), format!("stream {sid}: sent {} > granted {}", st.sent, st.credit)));
                                    }
                                    if conn.sent > conn.credit && all_pre {
                                        r.oracle.push(("connection-window-exceeded".into(), format!("sent {} > granted {}", conn.sent, conn.credit)));
                                    }
                                }
                                if !st.precondition {
                                    r.tags.push("open-with-foreign-window".into());
                                }
                                if let Some(e) = levs.get_mut(&sid) {
                                    e.see(&fs, conn.peer_mfs as usize, sid, &mut r.oracle);
                                }
                                if fs.len() > 1 || window <= 0 {
                                    r.nontrivial = true;
                                }
                                line = format!("frames {}", frames_str(&fs));
                            }
                        }
                    }
                    r.out.push(format!("{line} {}", conn.dump()));
                }
                "close" => {
                    let sid: u32 = w[1].parse().unwrap();
                    conn.streams.retain(|s| s.sid != sid);
                    r.out.push(format!("ok {}", conn.dump()));
                }
                _ => r.out.push("bad-op".into()),
            }
        }
        // completeness under the final fair pass of converter-rig cases
        if !ev.reset && !ev.expected.is_empty() && ops.last().map(|o| o.starts_with("prepare") && o.contains(" 2147483647 ")).unwrap_or(false) {
            let mfs_ok = ops.last().map(|o| !o.starts_with("prepare 0 ")).unwrap_or(true);
            if mfs_ok && ev.seen != ev.expected && !k.is_error() {
                r.oracle.push(("body-incomplete-under-fair-credit".into(), format!("{} of {} events emitted", ev.seen.len(), ev.expected.len())));
            }
        }
        if !ev.reset && ev.hdr_seen.len() <= ev.hdr_expected.len() {
            for (i, h) in ev.hdr_seen.iter().enumerate() {
                if *h != ev.hdr_expected[i] {
                    r.oracle.push(("header-block-bytes".into(), format!("header block {i}: {} bytes on the wire, {} queued", h.len(), ev.hdr_expected[i].len())));
                    break;
                }
            }
        }
        r
    }
}

fn main() {
    std::panic::set_hook(Box::new(|_| {}));
    let args = parse_args();
    std::process::exit(run_area(&H2Flow, &args));
}
