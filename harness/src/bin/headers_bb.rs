//! Black-box confirmation of the HTTP/1.1-side C03 / C13 findings on a real
//! sozu worker (rig): what a recording backend receives for a few client byte
//! strings. Not part of `./check` (run by hand: `headers_bb`); prints one line
//! per probe and exits 1 if a probe could not be run.
use std::time::Duration;

use verif_harness::rig::*;

const T: Duration = Duration::from_millis(1500);

fn show(b: &[u8]) -> String {
    String::from_utf8_lossy(b).replace('\r', "\\r").replace('\n', "\\n")
}

/// send `input` in one write on a fresh worker; return everything the backend
/// receives on its first connection within the quiet period (the backend never answers)
fn probe(name: &str, input: &[u8]) -> RigResult<()> {
    let mut w = Worker::start(WorkerOpts::default())?;
    let front = w.add_http_listener()?;
    let be = MockBackend::listen()?;
    w.add_http_route(front, "a", "/", "c0", be.addr, false)?;
    let mut c = RawConn::connect(front)?;
    c.write_all(input, T)?;
    let got = match be.accept(T) {
        Ok(mut b) => {
            b.read_until_quiet(Duration::from_millis(300), T);
            b.received.clone()
        }
        Err(_) => vec![],
    };
    c.read_until_quiet(Duration::from_millis(200), Duration::from_millis(600));
    let n_req = got.windows(9).filter(|w| w == b" HTTP/1.1").count();
    println!("{name}\n  client sent : {}\n  backend got : {}\n  request lines at the backend: {n_req}; sozu answered the client: {}", show(input), show(&got), show(&c.received[..c.received.len().min(24)]));
    w.stop();
    Ok(())
}

fn main() {
    quiet_logs_silently();
    silence_worker_panics();
    let probes: Vec<(&str, &[u8])> = vec![
        ("no-length request followed by a pipelined request (one write)", b"GET /1 HTTP/1.1\r\nHost: a\r\n\r\nGET /2 HTTP/1.1\r\nHost: evil\r\n\r\n"),
        ("Transfer-Encoding: chunked<SP> (TE.TE)", b"POST / HTTP/1.1\r\nHost: a\r\nTransfer-Encoding: chunked \r\n\r\n0\r\n\r\nGET /smuggled HTTP/1.1\r\nHost: evil\r\n\r\n"),
        ("Content-Length: +5", b"POST / HTTP/1.1\r\nHost: a\r\nContent-Length: +5\r\n\r\nhello"),
        ("Transfer-Encoding: xchunked", b"POST / HTTP/1.1\r\nHost: a\r\nTransfer-Encoding: xchunked\r\n\r\n0\r\n\r\n"),
        ("Transfer-Encoding: identity + Content-Length", b"POST / HTTP/1.1\r\nHost: a\r\nTransfer-Encoding: identity\r\nContent-Length: 3\r\n\r\nabc"),
        ("chunked request with an X-Real-IP trailer", b"POST / HTTP/1.1\r\nHost: a\r\nTransfer-Encoding: chunked\r\n\r\n1\r\nx\r\n0\r\nX-Real-IP: 6.6.6.6\r\n\r\n"),
        ("client-supplied Sozu-Id and two X-Request-Id", b"GET / HTTP/1.1\r\nHost: a\r\nSozu-Id: spoof\r\nX-Request-Id: 1\r\nX-Request-Id: 2\r\nContent-Length: 0\r\n\r\n"),
    ];
    let mut bad = false;
    for (n, i) in probes {
        if let Err(e) = probe(n, i) {
            println!("{n}: could not run: {e:?}");
            bad = true;
        }
    }
    std::process::exit(bad as i32);
}
