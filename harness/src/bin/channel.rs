//! C11: real `sozu_command_lib::channel::Channel` (non-blocking mode) over two
//! unix socket pairs whose peer ends are owned by the harness, against the
//! Lean model `Sozu.Channel.Model`, plus the property's own oracles.
//!
//! ```text
//!   writer Channel W --sock--> hw (harness)  ==wire==>  hr (harness) --sock--> reader Channel R
//! ```
//!
//! * every byte the writer flushes is taken off `hw` by the harness and kept
//!   in `wire`; `deliver k` writes exactly k wire bytes to `hr`, so every split
//!   point of the stream at the reader is dictated by the op sequence;
//! * the writer-side kernel is made deterministic by interposing libc `send`
//!   (what std/mio `UnixStream::write` calls) for the writer's fd only: a
//!   `flush k1,k2,..` op answers the i-th `sock.write` of `writable()` with
//!   "accept k_i bytes" and `EAGAIN` once the schedule is exhausted;
//! * prost is a parameter of the model: the channels carry `Probe`, a
//!   transparent wrapper of `WorkerRequest` that records every payload handed
//!   to `decode`, so the harness can check that the decode table shipped to
//!   the model (`good` / `w` / `rawgood` lines) was complete and truthful.
use std::cell::RefCell;
use std::collections::VecDeque;
use std::io::Write;
use std::os::unix::io::AsRawFd;

use mio::net::UnixStream as MioUnixStream;
use prost::bytes::{Buf, BufMut};
use prost::encoding::{DecodeContext, WireType};
use prost::{DecodeError, Message};
use sozu::command::sessions::extract_messages;
use sozu_command_lib::buffer::growable::Buffer;
use sozu_command_lib::channel::{Channel, ChannelError};
use sozu_command_lib::proto::command::{request::RequestType, Request, WorkerRequest};
use sozu_command_lib::ready::Ready;
use verif_harness::*;

const RQ_CAP: usize = 131072; // = Sozu.Channel.rqCap
const ALL: u64 = 18446744073709551615; // usize::MAX: "accept / deliver everything"

// ------------------------------------------------------ send interposer ----

struct Ctl {
    fd: i32,
    peer: i32,
    active: bool,
    sched: VecDeque<usize>,
    wire: Vec<u8>,
    wouldblock: u64,
    partial: u64,
}

thread_local! {
    static CTL: RefCell<Ctl> = const { RefCell::new(Ctl { fd: -1, peer: -1, active: false,
        sched: VecDeque::new(), wire: Vec::new(), wouldblock: 0, partial: 0 }) };
    static DECODES: RefCell<Vec<(Vec<u8>, Option<String>)>> = const { RefCell::new(Vec::new()) };
}

unsafe fn raw_send(fd: i32, buf: *const libc::c_void, n: usize, flags: i32) -> isize {
    libc::syscall(libc::SYS_sendto, fd, buf, n, flags, 0usize, 0usize) as isize
}

unsafe fn drain_fd(fd: i32, into: &mut Vec<u8>) {
    let mut tmp = [0u8; 65536];
    loop {
        let r = libc::recv(fd, tmp.as_mut_ptr() as *mut libc::c_void, tmp.len(), libc::MSG_DONTWAIT);
        if r <= 0 {
            break;
        }
        into.extend_from_slice(&tmp[..r as usize]);
    }
}

/// libc `send`, interposed for the whole process; only the calling thread's
/// controlled writer fd (while a flush schedule is active) is affected.
#[no_mangle]
pub unsafe extern "C" fn send(fd: libc::c_int, buf: *const libc::c_void, n: libc::size_t, flags: libc::c_int) -> libc::ssize_t {
    let decision = CTL
        .try_with(|c| {
            let mut c = c.try_borrow_mut().ok()?;
            if c.active && c.fd == fd {
                Some(c.sched.pop_front().unwrap_or(0))
            } else {
                None
            }
        })
        .ok()
        .flatten();
    match decision {
        None => raw_send(fd, buf, n, flags),
        Some(0) => {
            let _ = CTL.try_with(|c| c.borrow_mut().wouldblock += 1);
            *libc::__errno_location() = libc::EAGAIN;
            -1
        }
        Some(k) => {
            let m = n.min(k);
            if m < n {
                let _ = CTL.try_with(|c| c.borrow_mut().partial += 1);
            }
            let mut done = 0usize;
            while done < m {
                // MSG_DONTWAIT: the writer may be in blocking mode; a full kernel buffer must come
                // back as EAGAIN so that the peer end can be drained here
                let r = raw_send(fd, (buf as *const u8).add(done) as *const libc::c_void, m - done, flags | libc::MSG_DONTWAIT);
                if r > 0 {
                    done += r as usize;
                } else if r < 0 && *libc::__errno_location() == libc::EAGAIN {
                    // the real kernel buffer is full: take the bytes off the peer end
                    let _ = CTL.try_with(|c| {
                        let mut c = c.borrow_mut();
                        let peer = c.peer;
                        drain_fd(peer, &mut c.wire);
                    });
                } else {
                    return r;
                }
            }
            m as libc::ssize_t
        }
    }
}

// --------------------------------------------------------- probe message ----

/// `WorkerRequest` with a `decode` that records what it was asked to decode.
#[derive(Debug, Default, Clone, PartialEq)]
struct Probe(WorkerRequest);

impl Message for Probe {
    fn encode_raw(&self, buf: &mut impl BufMut)
    where
        Self: Sized,
    {
        self.0.encode_raw(buf)
    }
    fn merge_field(&mut self, tag: u32, wire_type: WireType, buf: &mut impl Buf, ctx: DecodeContext) -> Result<(), DecodeError>
    where
        Self: Sized,
    {
        self.0.merge_field(tag, wire_type, buf, ctx)
    }
    fn encoded_len(&self) -> usize {
        self.0.encoded_len()
    }
    fn clear(&mut self) {
        self.0.clear()
    }
    fn decode(mut buf: impl Buf) -> Result<Self, DecodeError>
    where
        Self: Default,
    {
        let mut v = vec![0u8; buf.remaining()];
        buf.copy_to_slice(&mut v);
        let r = WorkerRequest::decode(&v[..]);
        DECODES.with(|d| d.borrow_mut().push((v, r.as_ref().ok().map(|m| canon_id(&m.id)))));
        r.map(Probe)
    }
}

fn canon_id(s: &str) -> String {
    if s.is_empty() {
        return "~".into();
    }
    s.chars().map(|c| if c.is_ascii_alphanumeric() || c == '_' { c } else { '?' }).collect()
}

/// a `WorkerRequest` whose frame (8-byte prefix + encoding) is exactly `framed` bytes
fn build_msg(idx: u64, framed: usize) -> Option<WorkerRequest> {
    let target = framed.checked_sub(8)?;
    let base = format!("{idx}");
    for j in 0..4usize {
        let id = format!("{base}{}", "_".repeat(j));
        let none = WorkerRequest { id: id.clone(), content: Request { request_type: None } };
        let l0 = none.encoded_len();
        if l0 == target {
            return Some(none);
        }
        if l0 > target {
            continue;
        }
        let guess = target - l0;
        for k in guess.saturating_sub(12)..=guess {
            let m = WorkerRequest {
                id: id.clone(),
                content: Request { request_type: Some(RequestType::SaveState("x".repeat(k))) },
            };
            if m.encoded_len() == target {
                return Some(m);
            }
        }
    }
    None
}

/// run-length text form of a byte string (see the driver's `<segs>`)
fn segs(bs: &[u8]) -> String {
    if bs.is_empty() {
        return "-".into();
    }
    let mut parts: Vec<String> = vec![];
    let mut lit = String::new();
    let mut i = 0;
    while i < bs.len() {
        let mut j = i;
        while j < bs.len() && bs[j] == bs[i] {
            j += 1;
        }
        if j - i >= 12 {
            if !lit.is_empty() {
                parts.push(std::mem::take(&mut lit));
            }
            parts.push(format!("{}x{:02x}", j - i, bs[i]));
        } else {
            for b in &bs[i..j] {
                lit.push_str(&format!("{:02x}", b));
            }
        }
        i = j;
    }
    if !lit.is_empty() {
        parts.push(lit);
    }
    parts.join(",")
}

fn unsegs(s: &str) -> Option<Vec<u8>> {
    if s == "-" {
        return Some(vec![]);
    }
    let mut out = vec![];
    for seg in s.split(',') {
        if let Some((n, b)) = seg.split_once('x') {
            let n: usize = n.parse().ok()?;
            let b = u8::from_str_radix(b, 16).ok()?;
            out.extend(std::iter::repeat_n(b, n));
        } else {
            if seg.len() % 2 != 0 {
                return None;
            }
            for i in 0..seg.len() / 2 {
                out.push(u8::from_str_radix(&seg[2 * i..2 * i + 2], 16).ok()?);
            }
        }
    }
    Some(out)
}

fn frame_of(payload: &[u8]) -> Vec<u8> {
    let mut f = (payload.len() + 8).to_le_bytes().to_vec();
    f.extend_from_slice(payload);
    f
}

fn err_str(e: &ChannelError) -> String {
    match e {
        ChannelError::Connection(None) => "conn".into(),
        ChannelError::NoByteToRead => "eof".into(),
        ChannelError::NoByteWritten => "nbw".into(),
        ChannelError::MessageTooLarge { message_len, .. } => format!("toolarge {message_len}"),
        ChannelError::MessageLengthUnderDelimiter { message_len, .. } => format!("under {message_len}"),
        ChannelError::BufferFull { .. } => "full".into(),
        ChannelError::NothingRead => "nothing".into(),
        ChannelError::InvalidProtobufMessage(_) => "invalid".into(),
        ChannelError::Write(_) => "write".into(),
        ChannelError::TimeoutReached(_) => "timeout".into(),
        other => format!("other:{}", format!("{other:?}").split(['(', ' ', '{']).next().unwrap_or("?")),
    }
}

// ------------------------------------------------------------------- rig ----

struct Rig {
    w: Channel<Probe, Probe>,
    r: Channel<Probe, Probe>,
    hw: MioUnixStream,
    hr: MioUnixStream,
    wire: VecDeque<u8>,
    init: usize,
    max: usize,
    closed: bool,
    /// messages the reader must still deliver, in order (property oracle)
    expected: VecDeque<WorkerRequest>,
    /// payloads declared decodable to the model
    table: Vec<(Vec<u8>, String)>,
    delivered: u64,
    split_reads: u64,
    fifo_oracle: bool,
    /// a blocking write reported a send timeout and its remainder may still be pending
    reported_send_timeout: bool,
    /// oracle hits raised inside composite ops, collected after each op
    late_oracle: Vec<(String, String)>,
}

fn set_sndbuf(fd: i32) {
    let v: libc::c_int = 4 << 20;
    unsafe {
        libc::setsockopt(fd, libc::SOL_SOCKET, libc::SO_SNDBUF, &v as *const _ as *const libc::c_void, 4);
    }
}

fn fionread(fd: i32) -> usize {
    let mut n: libc::c_int = 0;
    unsafe {
        libc::ioctl(fd, libc::FIONREAD, &mut n);
    }
    n.max(0) as usize
}

impl Rig {
    fn new(init: usize, max: usize) -> Rig {
        let (ws, hw) = MioUnixStream::pair().expect("socketpair");
        let (rs, hr) = MioUnixStream::pair().expect("socketpair");
        set_sndbuf(ws.as_raw_fd());
        set_sndbuf(hr.as_raw_fd());
        CTL.with(|c| {
            let mut c = c.borrow_mut();
            c.fd = ws.as_raw_fd();
            c.peer = hw.as_raw_fd();
            c.active = false;
            c.sched.clear();
            c.wire.clear();
            c.wouldblock = 0;
            c.partial = 0;
        });
        DECODES.with(|d| d.borrow_mut().clear());
        Rig {
            w: Channel::new(ws, init as u64, max as u64),
            r: Channel::new(rs, init as u64, max as u64),
            hw,
            hr,
            wire: VecDeque::new(),
            init,
            max,
            closed: false,
            expected: VecDeque::new(),
            table: vec![],
            delivered: 0,
            split_reads: 0,
            fifo_oracle: true,
            reported_send_timeout: false,
            late_oracle: vec![],
        }
    }

    /// the ceiling `Channel::new` really uses: `max_buffer_size.max(buffer_size)`
    fn eff(&self) -> usize {
        self.max.max(self.init)
    }

    fn declare(&mut self, id: &str, payload: Vec<u8>) {
        if !self.table.iter().any(|(p, _)| *p == payload) {
            self.table.push((payload, id.to_string()));
        }
    }

    fn flush(&mut self, sched: &[u64]) -> Result<usize, ChannelError> {
        CTL.with(|c| {
            let mut c = c.borrow_mut();
            c.sched = sched.iter().map(|k| (*k).min(usize::MAX as u64) as usize).collect();
            c.active = true;
        });
        self.w.handle_events(Ready::WRITABLE);
        let res = self.w.writable();
        let mut got = CTL.with(|c| {
            let mut c = c.borrow_mut();
            c.active = false;
            c.sched.clear();
            std::mem::take(&mut c.wire)
        });
        unsafe { drain_fd(self.hw.as_raw_fd(), &mut got) };
        self.wire.extend(got);
        res
    }

    /// `write_message` in blocking mode, the kernel answering the flush loop by `sched`
    fn blocking_write(&mut self, m: &WorkerRequest, sched: &[u64]) -> Result<(), ChannelError> {
        CTL.with(|c| {
            let mut c = c.borrow_mut();
            c.sched = sched.iter().map(|k| (*k).min(usize::MAX as u64) as usize).collect();
            c.active = true;
        });
        let _ = self.w.blocking();
        let res = self.w.write_message(&Probe(m.clone()));
        let _ = self.w.nonblocking();
        let mut got = CTL.with(|c| {
            let mut c = c.borrow_mut();
            c.active = false;
            c.sched.clear();
            std::mem::take(&mut c.wire)
        });
        unsafe { drain_fd(self.hw.as_raw_fd(), &mut got) };
        self.wire.extend(got);
        res
    }

    /// `read_message_blocking_timeout` (the timeout only matters when the socket is empty)
    fn blocking_read(&mut self, oracle: &mut Vec<(String, String)>) -> Result<String, ChannelError> {
        let _ = self.r.blocking();
        let res = self.r.read_message_blocking_timeout(Some(std::time::Duration::from_millis(120)));
        let _ = self.r.nonblocking();
        match res {
            Ok(Probe(m)) => {
                self.account(&m, oracle);
                Ok(canon_id(&m.id))
            }
            Err(e) => Err(e),
        }
    }

    fn deliver(&mut self, k: u64) -> usize {
        if self.closed {
            return 0;
        }
        let queued = fionread(self.r.sock.as_raw_fd());
        let n = (k.min(self.wire.len() as u64) as usize).min(RQ_CAP.saturating_sub(queued));
        let chunk: Vec<u8> = self.wire.drain(..n).collect();
        let mut done = 0;
        let mut spins = 0;
        while done < chunk.len() && spins < 1000 {
            match self.hr.write(&chunk[done..]) {
                Ok(m) => done += m,
                Err(_) => spins += 1,
            }
        }
        assert!(done == chunk.len(), "harness environment: the kernel refused delivered bytes");
        n
    }

    fn readable(&mut self) -> Result<usize, ChannelError> {
        self.r.handle_events(Ready::READABLE);
        let res = self.r.readable();
        // the owner is only called again on a new socket event, so a successful readable() may
        // stop pulling only when the socket is drained (WouldBlock) or the front buffer holds a
        // full ceiling of *pending* data; giving up earlier (consumed bytes not reclaimed)
        // strands received bytes in the socket
        if res.is_ok() {
            let left = fionread(self.r.sock.as_raw_fd());
            let data = self.r.front_buf.available_data();
            if left > 0 && data < self.eff() {
                self.late_oracle.push((
                    "readable-gave-up-with-room".into(),
                    format!(
                        "readable() returned with {left} byte(s) still in the socket although the front buffer holds only {data} pending byte(s) (capacity {}, ceiling {})",
                        self.r.front_buf.capacity(), self.eff()
                    ),
                ));
            }
        }
        res
    }

    /// property oracle on one delivered message: it must be the next expected one
    fn account(&mut self, m: &WorkerRequest, oracle: &mut Vec<(String, String)>) {
        self.delivered += 1;
        if !self.fifo_oracle {
            return;
        }
        match self.expected.pop_front() {
            Some(e) if e == *m => {}
            Some(e) => {
                let class = if self.expected.iter().any(|x| x == m) {
                    "fifo-skipped-or-reordered"
                } else {
                    "fifo-corrupted-or-duplicated"
                };
                oracle.push((class.into(), format!("expected id {} got id {}", canon_id(&e.id), canon_id(&m.id))));
            }
            None => oracle.push(("fifo-phantom-message".into(), format!("got id {} but nothing is outstanding", canon_id(&m.id)))),
        }
    }

    fn read(&mut self, oracle: &mut Vec<(String, String)>) -> Result<String, ChannelError> {
        match self.r.read_message() {
            Ok(Probe(m)) => {
                self.account(&m, oracle);
                Ok(canon_id(&m.id))
            }
            Err(e) => {
                if matches!(e, ChannelError::NothingRead) && self.r.front_buf.available_data() > 0 {
                    self.split_reads += 1;
                }
                Err(e)
            }
        }
    }

    /// the fair schedule of `Sozu.Channel.drainLoop`, through the real API
    fn drain(&mut self, rounds: u64, oracle: &mut Vec<(String, String)>) -> (Vec<String>, String) {
        let mut ids = vec![];
        let mut last = "nothing".to_string();
        let mut quiet = 0;
        for _ in 0..rounds {
            let before = (self.pending_bytes(), self.r.front_buf.available_data());
            let _ = self.flush(&[ALL]);
            self.deliver(RQ_CAP as u64);
            let _ = self.readable();
            let mut got = 0;
            loop {
                match self.read(oracle) {
                    Ok(id) => {
                        ids.push(id);
                        got += 1;
                    }
                    Err(e) => {
                        last = err_str(&e);
                        break;
                    }
                }
            }
            if got == 0 && (self.pending_bytes(), self.r.front_buf.available_data()) == before {
                quiet += 1;
                if quiet >= 3 {
                    break;
                }
            } else {
                quiet = 0;
            }
        }
        (ids, last)
    }

    fn pending_bytes(&self) -> usize {
        self.w.back_buf.available_data() + self.wire.len() + fionread(self.r.sock.as_raw_fd())
    }

    /// model-independent oracles evaluated after every op
    fn invariants(&self, oracle: &mut Vec<(String, String)>) {
        let ceiling = self.init.max(self.max);
        for (name, b) in [
            ("w.front", &self.w.front_buf),
            ("w.back", &self.w.back_buf),
            ("r.front", &self.r.front_buf),
            ("r.back", &self.r.back_buf),
        ] {
            if b.capacity() > ceiling {
                oracle.push(("capacity-over-ceiling".into(), format!("{name} capacity {} > {}", b.capacity(), ceiling)));
            }
            if b.available_data().checked_add(b.available_space()).is_none_or(|s| s > b.capacity()) {
                oracle.push((
                    "offset-invariant".into(),
                    format!("{name}: data {} + space {} > capacity {}", b.available_data(), b.available_space(), b.capacity()),
                ));
            }
        }
    }

    /// after a fair drain everything written must have been delivered; if not,
    /// fingerprint *why* the reader is stuck from the reader's own buffer
    fn stuck_class(&self, last: &str) -> (String, String) {
        let data = self.r.front_buf.data();
        let declared = if data.len() >= 8 { Some(usize::from_le_bytes(data[..8].try_into().unwrap())) } else { None };
        let next = self.expected.front().map(|m| m.encoded_len() + 8).unwrap_or(0);
        let detail = format!(
            "{} message(s) never delivered (next frame {} B, max {}); last read error `{}`; reader front buffer: data {} space {} capacity {} declared_len {:?}",
            self.expected.len(), next, self.max, last, data.len(), self.r.front_buf.available_space(), self.r.front_buf.capacity(), declared
        );
        let kind = last.split(' ').next().unwrap_or("");
        let class = match kind {
            "full" => {
                // F10 shape: frame fits the ceiling, buffer at the ceiling, consumed bytes not shifted out
                let unshifted = data.len() < self.r.front_buf.capacity();
                match declared {
                    Some(l) if l <= self.eff() && l >= 8 && unshifted => "wedge-bufferfull-unshifted",
                    _ => "wedge-bufferfull-other",
                }
            }
            "invalid" => match declared {
                Some(l) if l >= 8 && l <= data.len() && WorkerRequest::decode(&data[8..l]).is_err() => "wedge-undecodable-frame",
                _ => "spurious-invalid",
            },
            "toolarge" => match declared {
                // buffer_size > max_buffer_size: the writer accepted a frame the reader must refuse
                Some(l) if l > self.max && l <= self.init && self.init > self.max => "oversize-accepted-when-buffer-size-exceeds-max",
                Some(l) if l > self.eff() => "wedge-oversize-prefix",
                _ => "spurious-toolarge",
            },
            "under" => "wedge-under-length-prefix",
            // a blocking write returned Ok although only part of the frame was sent (its flush
            // loop swallows every sock.write error) and nobody is armed to send the rest
            "nothing" if self.w.back_buf.available_data() > 0 && !self.w.interest.is_writable() => "blocking-write-ok-with-unsent-remainder",
            "nothing" => "lost-message",
            "eof" => "stuck-after-eof",
            "conn" => "stuck-not-readable",
            _ => "stuck-other",
        };
        (class.into(), detail)
    }
}

// ------------------------------------------------------------------ area ----

struct ChannelArea;

fn parse_sched(s: &str) -> Option<Vec<u64>> {
    if s == "-" {
        return Some(vec![]);
    }
    s.split(',').map(|x| x.parse::<u64>().ok()).collect()
}

const CONFIGS_QUICK: &[(usize, usize)] = &[(100, 200), (100, 100), (4096, 8192), (64, 512), (1000, 2000), (50, 50), (32, 10000), (200, 100)];
const CONFIGS_THOROUGH: &[(usize, usize)] = &[(1_000_000, 2_000_000), (16384, 65536), (100, 200), (4096, 8192), (100, 100), (1000, 10000)];

fn pick_size(rng: &mut Rng, init: usize, max: usize) -> usize {
    let hi = max.max(init);
    let cands = [
        13,
        14,
        rng.range(13, 40) as usize,
        init / 2,
        init.saturating_sub(1),
        init,
        init + 1,
        max / 2,
        max / 2 + 1,
        max.saturating_sub(9),
        max.saturating_sub(1),
        max,
        max + 1,
        rng.range(13, hi.max(14) as u64) as usize,
        rng.range(13, (hi / 4).max(14) as u64) as usize,
        rng.range(13, (hi / 4).max(14) as u64) as usize,
    ];
    (*rng.pick(&cands)).max(13)
}

fn pick_k(rng: &mut Rng, max: usize) -> u64 {
    let cands = [1u64, 2, 7, 8, 9, 12, 13, rng.range(1, 64), rng.range(1, max.max(2) as u64), rng.range(1, (2 * max).max(2) as u64), ALL];
    *rng.pick(&cands)
}

fn gen_valid(rng: &mut Rng, thorough: bool) -> Vec<String> {
    let cfgs = if thorough && rng.chance(1, 3) { CONFIGS_THOROUGH } else { CONFIGS_QUICK };
    let (init, max) = *rng.pick(cfgs);
    let big = max >= 1_000_000;
    let mut ops = vec![format!("new {init} {max}")];
    let n = if big { rng.range(6, 30) } else { rng.range(6, if thorough { 90 } else { 50 }) };
    let mut idx = 0u64;
    let mut huge_done = false;
    let mut state = 0; // 0 any, 1 after write, 2 after flush, 3 after deliver, 4 after readable
    let mut delivers = 0;
    let mut partial_bw = false;
    let mut breads = 0;
    // blocking reads cost a real timeout (>= 100 ms) whenever the socket is empty: few cases only
    let blocking_reader = rng.chance(1, 60);
    for _ in 0..n {
        let r = rng.below(100);
        let choice = match state {
            1 if r < 50 => 1,
            2 if r < 60 => 2,
            3 if r < 70 => 3,
            4 if r < 80 => 4,
            _ => {
                let q = rng.below(100);
                if q < 34 { 0 } else if q < 50 { 1 } else if q < 66 { 2 } else if q < 76 { 3 } else if q < 96 { 4 } else { 5 }
            }
        };
        match choice {
            0 => {
                let mut size = pick_size(rng, init, max);
                if big {
                    // many small + one huge
                    if !huge_done && rng.chance(1, 4) {
                        huge_done = true;
                        size = *rng.pick(&[max, max - 1, max / 2 + 1, init + 1, init, max - 100_000]);
                    } else {
                        size = rng.range(13, 4000) as usize;
                    }
                }
                if let Some(m) = build_msg(idx, size) {
                    if rng.chance(1, 8) {
                        // blocking-mode write; a partial schedule leaves a remainder nobody is armed for
                        let sched = if rng.chance(3, 5) { format!("{ALL}") } else { partial_bw = true; pick_k(rng, max).to_string() };
                        ops.push(format!("bw {} {} {sched}", canon_id(&m.id), segs(&m.encode_to_vec())));
                    } else {
                        ops.push(format!("w {} {}", canon_id(&m.id), segs(&m.encode_to_vec())));
                    }
                    idx += 1;
                }
                state = 1;
            }
            1 => {
                let kind = rng.below(10);
                let sched = if kind < 5 {
                    format!("{ALL}")
                } else if kind < 9 {
                    let m = rng.range(1, 3);
                    (0..m).map(|_| pick_k(rng, max).to_string()).collect::<Vec<_>>().join(",")
                } else {
                    "-".into()
                };
                ops.push(format!("flush {sched}"));
                state = 2;
            }
            2 => {
                if delivers < 150 {
                    delivers += 1;
                    ops.push(format!("deliver {}", pick_k(rng, max)));
                }
                state = 3;
                if blocking_reader && breads < 4 && rng.chance(2, 3) {
                    // a blocking reader: no readable(), the read pulls from the socket itself
                    breads += 1;
                    ops.push("bread".into());
                    state = 0;
                }
            }
            3 => {
                ops.push("readable".into());
                state = 4;
            }
            4 => {
                for _ in 0..rng.range(1, 3) {
                    if blocking_reader && breads < 4 && rng.chance(1, 4) {
                        breads += 1;
                        ops.push("bread".into());
                    } else {
                        ops.push("read".into());
                    }
                }
                state = 0;
            }
            _ => {
                ops.push("extract".into());
                state = 0;
            }
        }
    }
    if partial_bw {
        // a blocking writer only flushes inside write_message: one more (complete) blocking
        // write pushes out whatever an earlier send timeout left behind
        if let Some(m) = build_msg(idx, 13) {
            ops.push(format!("bw {} {} {ALL}", canon_id(&m.id), segs(&m.encode_to_vec())));
        }
    }
    ops.push("drain 4000".into());
    ops
}

/// the `Buffer` API on its own, arguments unconstrained (Channel only calls it under guards)
fn gen_buffer(rng: &mut Rng) -> Vec<String> {
    let cap = *rng.pick(&[0u64, 1, 8, 10, 64, 100]);
    let mut ops = vec![format!("buf {cap}")];
    for _ in 0..rng.range(5, 60) {
        let any = rng.range(0, 256);
        let n = *rng.pick(&[0u64, 1, 2, 5, 8, 9, 30, 50, 64, 100, 101, 200, any]);
        match rng.below(10) {
            0..=3 => {
                let bytes = rng.bytes(n.min(120) as usize);
                ops.push(format!("bufw {}", segs(&bytes)));
            }
            4 | 5 => ops.push(format!("bufop consume {n}")),
            6 => ops.push("bufop shift 0".into()),
            7 => ops.push(format!("bufop grow {n}")),
            8 => ops.push(format!("bufop shrink {n}")),
            _ => {
                if rng.chance(1, 4) {
                    ops.push("bufop reset 0".into());
                } else {
                    ops.push(format!("bufop read {n}"));
                }
            }
        }
    }
    ops
}

fn run_buffer(ops: &[String]) -> ImplRun {
    use std::io::Read as _;
    let mut run = ImplRun::default();
    let mut b = Buffer::with_capacity(0);
    let mut mirror: VecDeque<u8> = VecDeque::new();
    let mut grew = false;
    let line = |b: &Buffer, r: usize| format!("r={r} cap={} data={} space={} {}", b.capacity(), b.available_data(), b.available_space(), hex(b.data()));
    for op in ops {
        let ws: Vec<&str> = op.split_whitespace().collect();
        let cap_before = b.capacity();
        let out = match ws.as_slice() {
            ["buf", c] => match c.parse::<usize>() {
                Ok(c) => {
                    b = Buffer::with_capacity(c);
                    mirror.clear();
                    line(&b, 0)
                }
                Err(_) => "bad-op".into(),
            },
            ["bufw", sg] => match unsegs(sg) {
                Some(bytes) => {
                    let n = b.write(&bytes).unwrap_or(0);
                    mirror.extend(bytes[..n.min(bytes.len())].iter());
                    line(&b, n)
                }
                None => "bad-op".into(),
            },
            ["bufop", what, n] => match n.parse::<usize>() {
                Ok(n) => match *what {
                    "consume" => {
                        let r = b.consume(n);
                        mirror.drain(..r.min(mirror.len()));
                        line(&b, r)
                    }
                    "shift" => {
                        b.shift();
                        line(&b, 0)
                    }
                    "grow" => {
                        let r = b.grow(n);
                        grew |= r;
                        line(&b, r as usize)
                    }
                    "shrink" => {
                        let r = b.shrink(n);
                        line(&b, r as usize)
                    }
                    "reset" => {
                        b.reset();
                        mirror.clear();
                        line(&b, 0)
                    }
                    "read" => {
                        let mut tmp = vec![0u8; n];
                        let r = b.read(&mut tmp).unwrap_or(0);
                        let want: Vec<u8> = mirror.drain(..r.min(mirror.len())).collect();
                        if tmp[..r] != want[..] {
                            run.oracle.push(("buffer-data-corrupted".into(), format!("read({n}) returned bytes that were not the oldest pending ones at `{op}`")));
                        }
                        line(&b, r)
                    }
                    _ => "bad-op".into(),
                },
                Err(_) => "bad-op".into(),
            },
            _ => "bad-op".into(),
        };
        // oracles written from the Buffer contract: data is a FIFO of the accepted bytes,
        // offsets stay in bounds, capacity only moves in grow/shrink
        let pending: Vec<u8> = mirror.iter().copied().collect();
        if b.data() != &pending[..] {
            run.oracle.push(("buffer-data-corrupted".into(), format!("data() differs from the bytes accepted and not yet consumed after `{op}`")));
        }
        if b.available_data().checked_add(b.available_space()).is_none_or(|t| t > b.capacity()) {
            run.oracle.push(("offset-invariant".into(), format!("data {} + space {} > capacity {} after `{op}`", b.available_data(), b.available_space(), b.capacity())));
        }
        if b.capacity() != cap_before && !matches!(ws.get(1).copied(), Some("grow") | Some("shrink")) && ws[0] != "buf" {
            run.oracle.push(("buffer-capacity-moved".into(), format!("capacity changed from {cap_before} to {} by `{op}`", b.capacity())));
        }
        run.tags.push(format!("op:{}", if ws[0] == "bufop" { ws[1] } else { ws[0] }));
        run.out.push(out);
    }
    run.tags.push("buffer-case".into());
    run.nontrivial = grew && ops.len() > 10;
    let mut seen = std::collections::HashSet::new();
    run.oracle.retain(|(c, _)| seen.insert(c.clone()));
    run
}

/// walk a raw stream the way a length-prefixed reader can (skipping `under`
/// prefixes by 8 and well-delimited frames by their length) and list the
/// payload slices that prost really decodes: the truth table of `decodes`.
fn decodable_slices(stream: &[u8], max: usize) -> Vec<(Vec<u8>, String)> {
    let mut out = vec![];
    let mut pos = 0usize;
    while pos + 8 <= stream.len() {
        let l = usize::from_le_bytes(stream[pos..pos + 8].try_into().unwrap());
        if l < 8 {
            pos += 8;
        } else if l > max || pos + l > stream.len() {
            break;
        } else {
            if let Ok(m) = WorkerRequest::decode(&stream[pos + 8..pos + l]) {
                out.push((stream[pos + 8..pos + l].to_vec(), canon_id(&m.id)));
            }
            pos += l;
        }
    }
    out
}

/// The property's reading of a raw stream (the oracle's reference, not the
/// model): a declared length under the prefix size costs the 8 prefix bytes,
/// a complete frame that is oversize or undecodable is an error and is
/// skipped, every other complete frame is a message; an incomplete tail
/// delivers nothing.
fn reference_frames(stream: &[u8], max: usize) -> Vec<WorkerRequest> {
    let mut out = vec![];
    let mut pos = 0usize;
    while pos + 8 <= stream.len() {
        let l = usize::from_le_bytes(stream[pos..pos + 8].try_into().unwrap());
        if l < 8 {
            pos += 8;
        } else if l > stream.len() - pos {
            break;
        } else {
            if l <= max {
                if let Ok(m) = WorkerRequest::decode(&stream[pos + 8..pos + l]) {
                    out.push(m);
                }
            }
            pos += l;
        }
    }
    out
}

fn gen_malformed(rng: &mut Rng, _thorough: bool) -> Vec<String> {
    let (init, max) = *rng.pick(&[(100usize, 200usize), (1000, 2000), (64, 512), (100, 100), (4096, 8192), (200, 100)]);
    let mut ops = vec![format!("new {init} {max}")];
    let max = max.max(init); // the ceiling `Channel::new` really uses
    let nframes = rng.range(2, 8);
    let mut frames: Vec<(bool, String, Vec<u8>)> = vec![]; // (declared good, id, bytes)
    let mut bad_done = 0;
    for i in 0..nframes {
        let bad = rng.chance(2, 5) || (i == 0 && bad_done == 0 && rng.chance(1, 2));
        if !bad {
            let size = if rng.chance(1, 8) { 8 } else { pick_size(rng, init, max / 2) };
            if size == 8 {
                frames.push((true, "~".into(), 8usize.to_le_bytes().to_vec()));
            } else if let Some(m) = build_msg(100 + i, size.min(max)) {
                frames.push((true, canon_id(&m.id), frame_of(&m.encode_to_vec())));
            }
            continue;
        }
        bad_done += 1;
        let kind = rng.below(7);
        let bytes = match kind {
            0 => (rng.below(8) as usize).to_le_bytes().to_vec(), // declared length under the prefix size
            1 => {
                // oversize declarations: complete frames for moderate lengths, absurd lengths with a few bytes
                let l = *rng.pick(&[max + 1, max + 2, 2 * max, max + 1, usize::MAX, 1usize << 63, 1usize << 32]);
                let mut f = l.to_le_bytes().to_vec();
                if l <= 2 * max {
                    f.extend(std::iter::repeat_n(0x61u8, l - 8));
                } else {
                    let nb = rng.range(0, 12) as usize;
                    f.extend(rng.bytes(nb));
                }
                f
            }
            2 => {
                // well-delimited, payload does not decode (the F9 shape)
                let n = rng.range(1, 24) as usize;
                frame_of(&vec![0xffu8; n])
            }
            3 => {
                // a good frame with one payload byte corrupted
                match build_msg(200 + i, rng.range(14, 60) as usize) {
                    Some(m) => {
                        let mut p = m.encode_to_vec();
                        let at = rng.below(p.len() as u64) as usize;
                        p[at] ^= 1 << rng.below(8);
                        frame_of(&p)
                    }
                    None => vec![0u8; 8],
                }
            }
            4 => {
                // a good payload under a prefix that is off by a few bytes
                match build_msg(300 + i, rng.range(14, 60) as usize) {
                    Some(m) => {
                        let p = m.encode_to_vec();
                        let l = (p.len() + 8) as i64 + *rng.pick(&[-3i64, -1, 1, 2, 9]);
                        let mut f = (l.max(0) as usize).to_le_bytes().to_vec();
                        f.extend_from_slice(&p);
                        f
                    }
                    None => vec![0u8; 8],
                }
            }
            5 => {
                let nb = rng.range(1, 30) as usize;
                rng.bytes(nb) // noise
            }
            _ => {
                let nb = rng.range(1, 20) as usize;
                frame_of(&rng.bytes(nb))
            }
        };
        frames.push((false, String::new(), bytes));
    }
    // decode truth table for every slice a reader can reach
    let stream: Vec<u8> = frames.iter().flat_map(|f| f.2.clone()).collect();
    let mut declared: Vec<Vec<u8>> = frames.iter().filter(|f| f.0).map(|f| f.2[8..].to_vec()).collect();
    for (p, id) in decodable_slices(&stream, max) {
        if !declared.contains(&p) {
            ops.push(format!("good {id} {}", segs(&p)));
            declared.push(p);
        }
    }
    for (good, id, bytes) in &frames {
        if *good {
            ops.push(format!("rawgood {id} {}", segs(bytes)));
        } else {
            ops.push(format!("raw {}", segs(bytes)));
        }
        // interleave partial deliveries and reads
        for _ in 0..rng.below(3) {
            match rng.below(4) {
                0 => ops.push(format!("deliver {}", pick_k(rng, max))),
                1 => ops.push("readable".into()),
                2 => ops.push("read".into()),
                _ => {
                    ops.push(format!("deliver {}", pick_k(rng, max)));
                    ops.push("readable".into());
                    ops.push("read".into());
                }
            }
        }
    }
    if rng.chance(1, 10) {
        ops.push("close".into());
    }
    ops.push("drain 400".into());
    ops
}

/// all 2-message streams with frame sizes in a boundary set, every split point
fn exhaustive_two_message() -> Vec<Vec<String>> {
    let mut cases = vec![];
    for (init, max, sizes) in [
        (100usize, 100usize, vec![13usize, 40, 50, 51, 60, 70, 92, 100]),
        (100, 200, vec![13, 50, 100, 101, 150, 200]),
    ] {
        for &a in &sizes {
            for &b in &sizes {
                let (ma, mb) = match (build_msg(1, a), build_msg(2, b)) {
                    (Some(x), Some(y)) => (x, y),
                    _ => continue,
                };
                for split in 0..=(a + b) {
                    cases.push(vec![
                        format!("new {init} {max}"),
                        format!("w {} {}", canon_id(&ma.id), segs(&ma.encode_to_vec())),
                        format!("flush {ALL}"),
                        format!("w {} {}", canon_id(&mb.id), segs(&mb.encode_to_vec())),
                        format!("flush {ALL}"),
                        format!("deliver {split}"),
                        "readable".into(),
                        "read".into(),
                        "read".into(),
                        format!("deliver {ALL}"),
                        "readable".into(),
                        "read".into(),
                        "read".into(),
                        "read".into(),
                        "drain 50".into(),
                    ]);
                }
            }
        }
    }
    cases
}

impl Area for ChannelArea {
    fn name(&self) -> &'static str {
        "channel"
    }
    fn rule(&self) -> String {
        "exhaustive: every split point of every 2-message stream with frame sizes in {13,40,50,51,60,70,92,100}^2 at (buffer,max)=(100,100) and {13,50,100,101,150,200}^2 at (100,200) (corpus, always run); generated: 75% valid streams = random interleavings of write_message (frame sizes from a boundary set around buffer_size, max/2, max, max+1 and random; production 1e6/2e6 with many small + one huge in thorough) / flush with an accept schedule (all, 1-3 partial accepts, would-block) / deliver k bytes to the reader (1,2,7,8,9,12,13, random, all) / readable / read_message / extract_messages, ending with a fair drain; 25% malformed raw streams = good frames mixed with length<8, length>max (max+1 .. usize::MAX), undecodable payloads, single-bit payload corruption, off-by-few prefixes and noise, with partial deliveries, ending with a fair drain; configs (buffer,max) in {(100,200),(100,100),(4096,8192),(64,512),(1000,2000),(50,50),(32,10000),(200,100)} + thorough {(1e6,2e6),(16384,65536),(1000,10000)}; non-trivial = at least 2 messages delivered and (a frame was split across reads or an error other than NothingRead occurred); distinct = distinct op sequence".into()
    }
    fn cases(&self, thorough: bool) -> u64 {
        if thorough {
            40_000
        } else {
            5_000
        }
    }
    fn corpus(&self) -> Vec<Vec<String>> {
        let s = |v: &[&str]| v.iter().map(|x| x.to_string()).collect::<Vec<_>>();
        let mut c = vec![
            // F9: undecodable frame (len 18, 10 x 0xff) then a good frame
            s(&["new 1000 2000", "raw 1200000000000000,10xff", "rawgood 7 0d00000000000000,0a01371200", "deliver 31", "readable", "read", "read", "drain 20"]),
            // F10: 40 B then 70 B frames, first 100 bytes at once, buffer = max = 100
            {
                let a = build_msg(1, 40).unwrap();
                let b = build_msg(2, 70).unwrap();
                vec![
                    "new 100 100".to_string(),
                    format!("w 1 {}", segs(&a.encode_to_vec())),
                    format!("flush {ALL}"),
                    format!("w 2 {}", segs(&b.encode_to_vec())),
                    format!("flush {ALL}"),
                    "deliver 100".into(),
                    "readable".into(),
                    "read".into(),
                    "read".into(),
                    "deliver 10".into(),
                    "readable".into(),
                    "read".into(),
                    "drain 20".into(),
                ]
            },
            // declared length above the ceiling, then a good frame
            s(&["new 100 200", "raw c900000000000000,193x61", "rawgood 7 0d00000000000000,0a01371200", "deliver 214", "readable", "read", "read", "drain 20"]),
            // the repository's own forged prefix (len = 5), then a good frame: must resync
            s(&["new 1000 10000", "raw 0500000000000000", "rawgood 7 0d00000000000000,0a01371200", "deliver 21", "readable", "read", "read", "read", "drain 20"]),
            // back-pressure: pending + frame > max is MessageTooLarge, later accepted after a flush
            {
                let a = build_msg(1, 150).unwrap();
                let b = build_msg(2, 100).unwrap();
                vec![
                    "new 100 200".to_string(),
                    format!("w 1 {}", segs(&a.encode_to_vec())),
                    format!("w 2 {}", segs(&b.encode_to_vec())),
                    "flush 60,0".into(),
                    format!("w 2 {}", segs(&b.encode_to_vec())),
                    format!("flush {ALL}"),
                    format!("w 2 {}", segs(&b.encode_to_vec())),
                    "drain 50".into(),
                ]
            },
            // ceiling clamp (buffer_size 200 > max_buffer_size 100): frames the writer accepts
            // (101, 150, 200 B) must be delivered, not refused by the reader for ever
            {
                let mut v = vec!["new 200 100".to_string()];
                for (i, sz) in [101usize, 150, 200].iter().enumerate() {
                    let m = build_msg(i as u64 + 1, *sz).unwrap();
                    v.push(format!("w {} {}", canon_id(&m.id), segs(&m.encode_to_vec())));
                    v.push(format!("flush {ALL}"));
                    v.push(format!("deliver {ALL}"));
                    v.push("readable".into());
                    v.push("read".into());
                }
                v.push("drain 20".into());
                v
            },
            // former class blocking-write-ok-with-unsent-remainder: the kernel takes 7 bytes, then a
            // send timeout: now Err(Write), remainder kept; a later complete blocking write sends both
            {
                let a = build_msg(1, 99).unwrap();
                let b = build_msg(2, 13).unwrap();
                vec![
                    "new 100 200".to_string(),
                    format!("bw 1 {} 7", segs(&a.encode_to_vec())),
                    "drain 20".into(),
                    format!("bw 2 {} {ALL}", segs(&b.encode_to_vec())),
                    "drain 20".into(),
                ]
            },
            // empty payload frame (8 bytes) decodes to the default message
            s(&["new 100 200", "rawgood ~ 0800000000000000", "deliver 3", "readable", "read", "deliver 5", "readable", "read", "read", "drain 10"]),
            // hang-up
            s(&["new 100 200", "rawgood 7 0d00000000000000,0a01371200", "deliver 13", "close", "readable", "read", "read", "readable", "drain 10"]),
        ];
        c.extend(exhaustive_two_message());
        c
    }
    fn gen(&self, rng: &mut Rng, thorough: bool) -> Vec<String> {
        if rng.chance(1, 14) {
            return gen_buffer(rng);
        }
        if rng.chance(1, 4) {
            gen_malformed(rng, thorough)
        } else {
            gen_valid(rng, thorough)
        }
    }
    fn run_impl(&self, ops: &[String]) -> ImplRun {
        if ops.first().is_some_and(|o| o.starts_with("buf ")) {
            return run_buffer(ops);
        }
        let mut run = ImplRun::default();
        let mut rig: Option<Rig> = None;
        let mut errors_seen = 0u64;
        // raw-only cases: what must be delivered is the reference reading of the whole raw stream
        let has_w = ops.iter().any(|o| o.starts_with("w ") || o.starts_with("bw "));
        let raw_stream: Vec<u8> = ops
            .iter()
            .filter(|o| o.starts_with("raw ") || o.starts_with("rawgood "))
            .filter_map(|o| o.split_whitespace().last().and_then(unsegs))
            .flatten()
            .collect();
        let mixed = has_w && !raw_stream.is_empty();
        if mixed {
            run.tags.push("mixed-raw-and-writes".into());
        }
        for op in ops {
            let ws: Vec<&str> = op.split_whitespace().collect();
            let kind = ws.first().copied().unwrap_or("");
            let line: String = match (kind, rig.as_mut()) {
                ("new", _) if ws.len() == 3 => match (ws[1].parse::<usize>(), ws[2].parse::<usize>()) {
                    (Ok(i), Ok(m)) => {
                        let mut g = Rig::new(i, m);
                        if !has_w {
                            g.expected = reference_frames(&raw_stream, m.max(i)).into();
                        }
                        g.fifo_oracle = !mixed;
                        rig = Some(g);
                        run.tags.push(format!("cfg:{i}/{m}"));
                        "new".into()
                    }
                    _ => "bad-op".into(),
                },
                (_, None) => "bad-op".into(),
                ("good", Some(g)) if ws.len() == 3 => match unsegs(ws[2]) {
                    Some(p) => {
                        g.declare(ws[1], p);
                        "ok".into()
                    }
                    None => "bad-op".into(),
                },
                ("w", Some(g)) if ws.len() == 3 => match unsegs(ws[2]).and_then(|p| WorkerRequest::decode(&p[..]).ok().map(|m| (p, m))) {
                    Some((p, m)) => {
                        if m.encode_to_vec() != p {
                            run.oracle.push(("harness-noncanonical-payload".into(), op.clone()));
                        }
                        let flen = p.len() + 8;
                        g.declare(ws[1], p);
                        run.tags.push(format!("w:{}", size_bucket(flen, g.init, g.eff())));
                        match g.w.write_message(&Probe(m.clone())) {
                            Ok(()) => {
                                g.expected.push_back(m);
                                "ok".into()
                            }
                            Err(e) => {
                                let s = err_str(&e);
                                run.tags.push(format!("werr:{}", s.split(' ').next().unwrap()));
                                // back-pressure (pending + frame > max) is legitimate; refusing a frame
                                // that fits the ceiling while nothing is pending is not
                                if flen <= g.eff() && g.w.back_buf.available_data() == 0 {
                                    run.oracle.push((
                                        "write-refused-frame-within-max".into(),
                                        format!("frame of {flen} B refused ({s}) with an empty back buffer, ceiling {}", g.eff()),
                                    ));
                                }
                                format!("err {s}")
                            }
                        }
                    }
                    None => "bad-op".into(),
                },
                ("bread", Some(g)) if ws.len() == 1 => match g.blocking_read(&mut run.oracle) {
                    Ok(id) => format!("msg {id}"),
                    Err(e) => {
                        let s = err_str(&e);
                        run.tags.push(format!("brerr:{}", s.split(' ').next().unwrap()));
                        format!("err {s}")
                    }
                },
                ("bw", Some(g)) if ws.len() == 4 => {
                    match (unsegs(ws[2]).and_then(|p| WorkerRequest::decode(&p[..]).ok().map(|m| (p, m))), parse_sched(ws[3])) {
                        (Some((p, m)), Some(sched)) => {
                            let flen = p.len() + 8;
                            g.declare(ws[1], p);
                            match g.blocking_write(&m, &sched) {
                                Ok(()) => {
                                    g.expected.push_back(m);
                                    "ok".into()
                                }
                                Err(ChannelError::Write(_)) => {
                                    // a reported send timeout: the frame is in the back buffer (accepted,
                                    // at most once), its remainder goes out with the next blocking write
                                    g.expected.push_back(m);
                                    g.reported_send_timeout = true;
                                    run.tags.push("bwerr:write".into());
                                    "err write".into()
                                }
                                Err(e) => {
                                    let s = err_str(&e);
                                    run.tags.push(format!("bwerr:{}", s.split(' ').next().unwrap()));
                                    if flen <= g.eff() && g.w.back_buf.available_data() == 0 {
                                        run.oracle.push(("write-refused-frame-within-max".into(), format!("blocking write of a {flen} B frame refused ({s}) with an empty back buffer, ceiling {}", g.eff())));
                                    }
                                    format!("err {s}")
                                }
                            }
                        }
                        _ => "bad-op".into(),
                    }
                }
                ("flush", Some(g)) if ws.len() == 2 => match parse_sched(ws[1]) {
                    Some(sched) => match g.flush(&sched) {
                        Ok(n) => format!("n {n}"),
                        Err(e) => format!("err {}", err_str(&e)),
                    },
                    None => "bad-op".into(),
                },
                ("raw", Some(g)) | ("rawgood", Some(g)) if (kind == "raw" && ws.len() == 2) || (kind == "rawgood" && ws.len() == 3) => {
                    match unsegs(ws[ws.len() - 1]) {
                        Some(bytes) => {
                            if kind == "rawgood" {
                                if bytes.len() < 8 {
                                    run.oracle.push(("harness-bad-rawgood".into(), op.clone()));
                                } else {
                                    g.declare(ws[1], bytes[8..].to_vec());
                                }
                            }
                            g.wire.extend(bytes.iter());
                            format!("n {}", bytes.len())
                        }
                        None => "bad-op".into(),
                    }
                }
                ("deliver", Some(g)) if ws.len() == 2 => match ws[1].parse::<u64>() {
                    Ok(k) => format!("n {}", g.deliver(k)),
                    Err(_) => "bad-op".into(),
                },
                ("readable", Some(g)) if ws.len() == 1 => {
                    let before = g.r.front_buf.capacity();
                    let res = g.readable();
                    if g.r.front_buf.capacity() > before {
                        run.tags.push("front-grew-in-readable".into());
                    }
                    match res {
                        Ok(n) => format!("n {n}"),
                        Err(e) => format!("err {}", err_str(&e)),
                    }
                }
                ("read", Some(g)) if ws.len() == 1 => {
                    let before = g.r.front_buf.capacity();
                    let res = g.read(&mut run.oracle);
                    let after = g.r.front_buf.capacity();
                    if after > before {
                        run.tags.push("front-grew-in-read".into());
                    }
                    if after < before {
                        run.tags.push("front-shrank".into());
                    }
                    match res {
                        Ok(id) => format!("msg {id}"),
                        Err(e) => {
                            let s = err_str(&e);
                            if s != "nothing" {
                                errors_seen += 1;
                            }
                            run.tags.push(format!("rerr:{}", s.split(' ').next().unwrap()));
                            format!("err {s}")
                        }
                    }
                }
                ("extract", Some(g)) if ws.len() == 1 => {
                    g.r.handle_events(Ready::READABLE);
                    let ms = extract_messages(&mut g.r);
                    let mut ids = vec![];
                    for Probe(m) in &ms {
                        g.account(m, &mut run.oracle);
                        ids.push(canon_id(&m.id));
                    }
                    // the owner is only called again on a new socket event: on a well-formed
                    // stream extract_messages must not return while a complete frame that fits
                    // the ceiling is sitting unread in the front buffer + the socket
                    if g.fifo_oracle && has_w && !g.closed {
                        if let Some(next) = g.expected.front().map(|m| m.encoded_len() + 8) {
                            let avail = g.r.front_buf.available_data() + fionread(g.r.sock.as_raw_fd());
                            if next <= g.eff() && avail >= next {
                                run.oracle.push((
                                    "extract-left-complete-frame".into(),
                                    format!(
                                        "extract_messages returned with the next frame ({next} B, ceiling {}) completely received but unread: front data {} + socket {} bytes, front capacity {}",
                                        g.eff(), g.r.front_buf.available_data(), fionread(g.r.sock.as_raw_fd()), g.r.front_buf.capacity()
                                    ),
                                ));
                            }
                        }
                    }
                    format!("msgs {}", if ids.is_empty() { "-".into() } else { ids.join(",") })
                }
                ("close", Some(g)) if ws.len() == 1 => {
                    unsafe { libc::shutdown(g.hr.as_raw_fd(), libc::SHUT_WR) };
                    g.closed = true;
                    "ok".into()
                }
                ("drain", Some(g)) if ws.len() == 2 => match ws[1].parse::<u64>() {
                    Ok(rounds) => {
                        let (ids, last) = g.drain(rounds, &mut run.oracle);
                        let kind = last.split(' ').next().unwrap_or("").to_string();
                        if kind != "nothing" {
                            errors_seen += 1;
                        }
                        run.tags.push(format!("drain-last:{kind}"));
                        // the fair schedule ran to quiescence: nothing may be outstanding
                        if g.fifo_oracle && !g.expected.is_empty() && !g.closed {
                            let (class, detail) = g.stuck_class(&last);
                            if class == "blocking-write-ok-with-unsent-remainder" && g.reported_send_timeout {
                                // the caller was told (Err(Write)): the remainder waits for the next blocking write
                                run.tags.push("remainder-after-reported-send-timeout".into());
                            } else {
                                run.oracle.push((class, detail));
                            }
                        }
                        format!("drained {} {}", if ids.is_empty() { "-".into() } else { ids.join(",") }, last)
                    }
                    Err(_) => "bad-op".into(),
                },
                _ => "bad-op".into(),
            };
            run.tags.push(format!("op:{kind}"));
            run.out.push(line);
            if let Some(g) = rig.as_mut() {
                g.invariants(&mut run.oracle);
                if let Some(hit) = g.late_oracle.drain(..).next() {
                    run.oracle.push(hit);
                }
            }
        }
        if let Some(g) = rig.as_ref() {
            // the decode table shipped to the model must agree with what prost really did
            let attempts = DECODES.with(|d| std::mem::take(&mut *d.borrow_mut()));
            for (payload, res) in attempts {
                let declared = g.table.iter().find(|(p, _)| *p == payload).map(|(_, id)| id.clone());
                if declared != res {
                    run.oracle.push((
                        "harness-decode-table".into(),
                        format!("payload of {} B: prost says {:?}, the table shipped to the model says {:?}", payload.len(), res, declared),
                    ));
                    break;
                }
            }
            let (wb, partial) = CTL.with(|c| {
                let c = c.borrow();
                (c.wouldblock, c.partial)
            });
            if wb > 0 {
                run.tags.push("writer-wouldblock".into());
            }
            if partial > 0 {
                run.tags.push("writer-partial-accept".into());
            }
            if g.split_reads > 0 {
                run.tags.push("frame-split-across-reads".into());
            }
            run.nontrivial = g.delivered >= 2 && (g.split_reads > 0 || errors_seen > 0);
        }
        run
    }
}

fn size_bucket(f: usize, init: usize, max: usize) -> &'static str {
    if f > max {
        ">max"
    } else if f == max {
        "=max"
    } else if 2 * f > max {
        ">max/2"
    } else if f > init {
        ">init"
    } else if f <= 16 {
        "tiny"
    } else {
        "<=init"
    }
}

fn main() {
    std::panic::set_hook(Box::new(|_| {}));
    let args = parse_args();
    std::process::exit(run_area(&ChannelArea, &args));
}
