//! C01 / C14 end-to-end: a real sozu worker (rig), a scripted HTTP/1.1 client and
//! a scripted backend (HTTP/1.1, or h2c with its own flow-control ledger).
//! Oracles: request body bytes at the backend == bytes the client sent, response
//! body bytes at the client == bytes the backend sent, clean end both ways; and,
//! for the h2c backend, every DATA frame sozu sends stays inside the stream and
//! connection windows the backend advertised and inside its max frame size.
use std::collections::BTreeMap;
use std::time::{Duration, Instant};

use serde_json::{json, Value};
use verif_harness::rig::*;
use verif_harness::{parse_args, Rng};

const T: Duration = Duration::from_secs(4);

fn pattern(k: usize, n: usize) -> Vec<u8> {
    (0..n).map(|i| ((i * 31 + k * 7 + i / 251) % 253) as u8).collect()
}

#[derive(Clone, Debug)]
struct Fail {
    class: String,
    detail: String,
    case: String,
}

// ------------------------------------------------------------ h2c backend --

#[derive(Clone, Debug)]
struct H2Plan {
    /// SETTINGS_INITIAL_WINDOW_SIZE sent in the backend's first SETTINGS (None: RFC default 65535)
    init_window: Option<u32>,
    /// connection-level WINDOW_UPDATE sent right after SETTINGS
    conn_bump: u32,
    /// stream credit policy: stingy = grant `drip` more bytes only when the stream window is
    /// used up (a byte-accounting peer at its strictest); otherwise refill to the initial
    /// window as soon as half of it is consumed (what ordinary servers do)
    stingy: bool,
    drip: u32,
    /// read at most this many bytes per socket read, pausing in between (slow reader)
    read_max: usize,
    read_pause: Duration,
    /// response
    resp_body: Vec<u8>,
    resp_content_length: bool,
}

#[derive(Default, Debug)]
struct H2Report {
    /// request body bytes per stream
    bodies: BTreeMap<u32, Vec<u8>>,
    ended: BTreeMap<u32, bool>,
    violations: Vec<(String, String)>,
    frames: usize,
    goaway: Option<u32>,
    rst: Vec<(u32, u32)>,
    error: Option<String>,
    max_over_stream: i64,
}

fn frame(ty: u8, flags: u8, sid: u32, payload: &[u8]) -> Vec<u8> {
    let mut v = vec![(payload.len() >> 16) as u8, (payload.len() >> 8) as u8, payload.len() as u8, ty, flags];
    v.extend_from_slice(&sid.to_be_bytes());
    v.extend_from_slice(payload);
    v
}

fn serve_h2c(be: MockBackend, plan: H2Plan, streams_expected: usize) -> H2Report {
    let mut rep = H2Report::default();
    let mut c = match be.accept(T) {
        Ok(c) => c,
        Err(e) => {
            rep.error = Some(format!("accept: {e:?}"));
            return rep;
        }
    };
    let deadline = Instant::now() + Duration::from_secs(5);
    // our SETTINGS (+ connection window bump)
    let mut first = vec![];
    let mut settings = vec![];
    if let Some(iw) = plan.init_window {
        settings.extend_from_slice(&4u16.to_be_bytes());
        settings.extend_from_slice(&iw.to_be_bytes());
    }
    first.extend_from_slice(&frame(4, 0, 0, &settings));
    if plan.conn_bump > 0 {
        first.extend_from_slice(&frame(8, 0, 0, &plan.conn_bump.to_be_bytes()));
    }
    // speak only after sozu's preface (a backend that sends SETTINGS before the preface arrives
    // sometimes gets "Unexpected combination: (Writable, ServerSettings, Client)" and a 503: noted, not this property)
    let mut first = Some(first);
    let init = plan.init_window.unwrap_or(65535) as i64;
    let mut conn_avail: i64 = 65535 + plan.conn_bump as i64;
    let mut stream_avail: BTreeMap<u32, i64> = BTreeMap::new();
    // what sozu lets us send
    let mut peer_init: i64 = 65535;
    let mut send_conn: i64 = 65535;
    let mut send_stream: BTreeMap<u32, i64> = BTreeMap::new();
    let mut pos = 0usize;
    let mut preface_done = false;
    let mut in_headers: Option<u32> = None;
    let mut done_streams = 0usize;
    let mut pending_resp: Vec<(u32, usize)> = vec![]; // (sid, offset into resp_body)
    let mut enc = loona_hpack::Encoder::new();
    loop {
        if Instant::now() > deadline {
            rep.error = Some("backend deadline".into());
            break;
        }
        // parse what we have
        loop {
            if !preface_done {
                if c.received.len() - pos < 24 {
                    break;
                }
                if &c.received[pos..pos + 24] != b"PRI * HTTP/2.0\r\n\r\nSM\r\n\r\n" {
                    rep.error = Some("bad preface".into());
                    return rep;
                }
                pos += 24;
                preface_done = true;
                if let Some(f) = first.take() {
                    if c.write_all(&f, T).is_err() {
                        rep.error = Some("write settings".into());
                        return rep;
                    }
                }
                continue;
            }
            if c.received.len() - pos < 9 {
                break;
            }
            let h = &c.received[pos..pos + 9];
            let len = ((h[0] as usize) << 16) | ((h[1] as usize) << 8) | h[2] as usize;
            let (ty, fl) = (h[3], h[4]);
            let sid = u32::from_be_bytes([h[5], h[6], h[7], h[8]]) & 0x7fff_ffff;
            if c.received.len() - pos - 9 < len {
                break;
            }
            let payload = c.received[pos + 9..pos + 9 + len].to_vec();
            pos += 9 + len;
            rep.frames += 1;
            if std::env::var("E2E_TRACE").is_ok() {
                eprintln!("backend <- type={ty} flags={fl} sid={sid} len={len} {}", if ty == 8 || ty == 4 { verif_harness::hex(&payload) } else { String::new() });
            }
            if len > 16384 {
                rep.violations.push(("h2c-frame-exceeds-max-frame-size".into(), format!("type {ty} length {len} > 16384")));
            }
            if let Some(hs) = in_headers {
                if ty != 9 || sid != hs {
                    rep.violations.push(("h2c-continuation-sequence".into(), format!("type {ty} stream {sid} inside header block of {hs}")));
                }
            }
            match ty {
                4 => {
                    if fl & 1 == 0 {
                        for e in payload.chunks(6) {
                            if e.len() == 6 && u16::from_be_bytes([e[0], e[1]]) == 4 {
                                let v = u32::from_be_bytes([e[2], e[3], e[4], e[5]]) as i64;
                                for w in send_stream.values_mut() {
                                    *w += v - peer_init;
                                }
                                peer_init = v;
                            }
                        }
                        let _ = c.write_all(&frame(4, 1, 0, &[]), T);
                    }
                }
                8 => {
                    let inc = (u32::from_be_bytes([payload[0], payload[1], payload[2], payload[3]]) & 0x7fff_ffff) as i64;
                    if sid == 0 {
                        send_conn += inc;
                    } else {
                        *send_stream.entry(sid).or_insert(peer_init) += inc;
                    }
                }
                6 => {
                    if fl & 1 == 0 {
                        let _ = c.write_all(&frame(6, 1, 0, &payload), T);
                    }
                }
                1 | 9 => {
                    if ty == 1 {
                        if sid % 2 == 0 || sid == 0 {
                            rep.violations.push(("h2c-illegal-stream-id".into(), format!("HEADERS on stream {sid}")));
                        }
                        if let Some(last) = stream_avail.keys().next_back() {
                            if sid <= *last && !stream_avail.contains_key(&sid) {
                                rep.violations.push(("h2c-illegal-stream-id".into(), format!("stream {sid} opened after {last}")));
                            }
                        }
                        stream_avail.entry(sid).or_insert(init);
                        send_stream.entry(sid).or_insert(peer_init);
                        rep.bodies.entry(sid).or_default();
                    }
                    in_headers = if fl & 4 != 0 { None } else { Some(sid) };
                    if ty == 1 && fl & 1 != 0 {
                        rep.ended.insert(sid, true);
                        pending_resp.push((sid, 0));
                    }
                }
                0 => {
                    let n = len as i64;
                    let sa = stream_avail.entry(sid).or_insert(init);
                    *sa -= n;
                    conn_avail -= n;
                    if *sa < 0 && n > 0 {
                        rep.max_over_stream = rep.max_over_stream.max(-*sa);
                        // the known defect (Stream.window = 1<<16 shifted by the SETTINGS delta) is always
                        // exactly one byte over on the first stream of a connection: anything larger is
                        // a different violation
                        let class = if -*sa == 1 { "h2c-backend-stream-window-exceeded-by-one" } else { "h2c-backend-stream-window-exceeded" };
                        rep.violations.push((class.into(), format!("stream {sid}: DATA of {n} bytes leaves the stream window at {} (initial {init}, {} received)", *sa, rep.bodies.get(&sid).map(|b| b.len()).unwrap_or(0) + len)));
                    }
                    if conn_avail < 0 && n > 0 {
                        rep.violations.push(("h2c-backend-connection-window-exceeded".into(), format!("DATA of {n} bytes leaves the connection window at {conn_avail}")));
                    }
                    rep.bodies.entry(sid).or_default().extend_from_slice(&payload);
                    // credit policy: refill only when used up
                    let mut out = vec![];
                    if plan.stingy {
                        if *sa <= 0 && fl & 1 == 0 {
                            let grant = plan.drip as i64 - *sa.min(&mut 0);
                            let grant = grant.max(1).min(0x7fff_ffff);
                            *sa += grant;
                            out.extend_from_slice(&frame(8, 0, sid, &(grant as u32).to_be_bytes()));
                        }
                    } else if *sa <= init / 2 && fl & 1 == 0 {
                        let grant = (init - *sa).max(1).min(0x7fff_ffff);
                        *sa += grant;
                        out.extend_from_slice(&frame(8, 0, sid, &(grant as u32).to_be_bytes()));
                    }
                    if conn_avail < 65536 {
                        conn_avail += 1 << 20;
                        out.extend_from_slice(&frame(8, 0, 0, &(1u32 << 20).to_be_bytes()));
                    }
                    if !out.is_empty() {
                        let _ = c.write_all(&out, T);
                    }
                    if fl & 1 != 0 {
                        if rep.ended.get(&sid).copied().unwrap_or(false) {
                            rep.violations.push(("h2c-end-stream-twice".into(), format!("stream {sid}")));
                        }
                        rep.ended.insert(sid, true);
                        pending_resp.push((sid, 0));
                    }
                }
                3 => rep.rst.push((sid, u32::from_be_bytes([payload[0], payload[1], payload[2], payload[3]]))),
                7 => {
                    rep.goaway = Some(u32::from_be_bytes([payload[4], payload[5], payload[6], payload[7]]));
                }
                _ => {}
            }
        }
        // answer completed requests, inside sozu's windows
        let mut still = vec![];
        for (sid, mut off) in pending_resp.drain(..) {
            if off == 0 {
                let mut hs: Vec<(Vec<u8>, Vec<u8>)> = vec![(b":status".to_vec(), b"200".to_vec())];
                if plan.resp_content_length {
                    hs.push((b"content-length".to_vec(), plan.resp_body.len().to_string().into_bytes()));
                }
                let block = enc.encode(hs.iter().map(|(k, v)| (&k[..], &v[..])));
                let fl = 4 | if plan.resp_body.is_empty() { 1 } else { 0 };
                let _ = c.write_all(&frame(1, fl, sid, &block), T);
                if plan.resp_body.is_empty() {
                    done_streams += 1;
                    continue;
                }
            }
            let mut finished = false;
            loop {
                let sw = *send_stream.get(&sid).unwrap_or(&peer_init);
                let room = sw.min(send_conn).min(16384);
                let left = plan.resp_body.len() - off;
                if left == 0 {
                    finished = true;
                    break;
                }
                if room <= 0 {
                    break;
                }
                let n = (room as usize).min(left);
                let last = n == left;
                if c.write_all(&frame(0, last as u8, sid, &plan.resp_body[off..off + n]), T).is_err() {
                    rep.error = Some("write DATA".into());
                    return rep;
                }
                off += n;
                *send_stream.entry(sid).or_insert(peer_init) -= n as i64;
                send_conn -= n as i64;
                if last {
                    finished = true;
                    break;
                }
            }
            if finished {
                done_streams += 1;
            } else {
                if std::env::var("E2E_TRACE").is_ok() {
                    eprintln!("backend: response stalled at {off} stream window {:?} conn {send_conn}", send_stream.get(&sid));
                }
                still.push((sid, off.max(1)));
            }
        }
        pending_resp = still;
        if done_streams >= streams_expected && pending_resp.is_empty() {
            // linger a little for late frames, then leave
            let _ = c.read_some_max(plan.read_max, Duration::from_millis(30));
            break;
        }
        if rep.goaway.is_some() {
            break;
        }
        if !plan.read_pause.is_zero() {
            std::thread::sleep(plan.read_pause);
        }
        match c.read_some_max(plan.read_max, Duration::from_millis(500)) {
            ReadEnd::Done | ReadEnd::Timeout => {}
            ReadEnd::Closed | ReadEnd::Reset => {
                rep.error = Some("connection closed by sozu".into());
                break;
            }
        }
    }
    rep
}

// --------------------------------------------------------------- scenarios --

struct Ctx {
    w: Worker,
    front: std::net::SocketAddr,
    n: usize,
}

// ------------------------------------------------- harness-side robustness --
//
// Every rig / worker / backend *set-up* step (listen, worker configuration, the
// local side of a connect) is fallible: it is retried with fresh names and ports,
// and when it still does not succeed the transfer is `inconclusive` - counted, not
// a failure. The run fails with class `harness-inconclusive` only when more than
// 5 % of its transfers are inconclusive. What sozu itself shows (its listener
// refusing / resetting / not answering a connection, anything during a transfer)
// stays a real failure. Each case runs under `guarded`, so that a residual panic
// in harness code becomes an inconclusive case with its text, never a missing
// result file.

/// panic payload: a set-up step of the harness could not be completed
struct Inconclusive(String);
/// panic payload: a real observation made where no `fails` is at hand
struct RealFailure {
    class: &'static str,
    detail: String,
}

const SETUP_ATTEMPTS: usize = 4;

fn inconclusive(what: &str, err: impl std::fmt::Debug) -> ! {
    std::panic::panic_any(Inconclusive(format!("{what}: {err:?}")))
}

/// errors of the harness's own resources (ephemeral ports, descriptors, memory), as opposed
/// to what the peer did
fn local_resource(e: &RigError) -> bool {
    let t = format!("{e:?}");
    matches!(e, RigError::Setup(_))
        || ["AddrInUse", "AddrNotAvailable", "Too many open files", "OutOfMemory", "No buffer space", "os error 24", "os error 23", "os error 105", "os error 12"].iter().any(|m| t.contains(m))
}

static INJECT_SETUP: std::sync::atomic::AtomicU64 = std::sync::atomic::AtomicU64::new(0);
static INJECT_PANIC: std::sync::atomic::AtomicU64 = std::sync::atomic::AtomicU64::new(0);

/// self-test of this machinery: `E2E_INJECT_SETUP_FAIL=N` makes every Nth HTTP route set-up fail,
/// `E2E_INJECT_PANIC=N` makes every Nth case panic in harness code
fn injected(var: &str, counter: &std::sync::atomic::AtomicU64) -> bool {
    match std::env::var(var).ok().and_then(|v| v.parse::<u64>().ok()) {
        Some(n) if n > 0 => (counter.fetch_add(1, std::sync::atomic::Ordering::Relaxed) + 1) % n == 0,
        _ => false,
    }
}

/// a set-up step without side effects on the worker: retried as it is
fn setup<X>(what: &str, mut f: impl FnMut() -> RigResult<X>) -> X {
    let mut last = None;
    for attempt in 0..SETUP_ATTEMPTS {
        match f() {
            Ok(v) => return v,
            Err(e) => last = Some(e),
        }
        std::thread::sleep(Duration::from_millis(40 * (attempt as u64 + 1)));
    }
    inconclusive(what, last)
}

/// backend + cluster + frontend + backend entry on the HTTP listener, under a fresh host name
/// (`<prefix><n>.test`) at every attempt, so that a half-applied attempt cannot disturb the next
fn route_h1(ctx: &mut Ctx, prefix: &str, h2_backend: bool, opts: ConnOpts) -> (String, MockBackend) {
    if injected("E2E_INJECT_SETUP_FAIL", &INJECT_SETUP) {
        inconclusive("backend listen + http route", "injected by E2E_INJECT_SETUP_FAIL");
    }
    let mut last = String::new();
    for attempt in 0..SETUP_ATTEMPTS {
        ctx.n += 1;
        let host = format!("{prefix}{}.test", ctx.n);
        let r = MockBackend::listen_with(opts.clone()).and_then(|be| {
            ctx.w.add_http_route(ctx.front, &host, "/", &format!("{prefix}c{}", ctx.n), be.addr, h2_backend).map(|_| be)
        });
        match r {
            Ok(be) => return (host, be),
            Err(e) => last = format!("{e:?}"),
        }
        if !ctx.w.alive().is_alive() {
            // the worker is gone: nothing a retry can do, and `worker-died` is reported by the caller
            break;
        }
        std::thread::sleep(Duration::from_millis(40 * (attempt as u64 + 1)));
    }
    inconclusive("backend listen + http route", last)
}

/// the same on the HTTPS listener: path `/<prefix><n>`, cluster `<prefix>x<n>`
fn route_tls(ctx: &mut Ctx, tls: &mut TlsCtx, prefix: &str, h2_backend: bool) -> (String, String, MockBackend) {
    let mut last = String::new();
    for attempt in 0..SETUP_ATTEMPTS {
        tls.n += 1;
        let path = format!("/{prefix}{}", tls.n);
        let cid = format!("{prefix}x{}", tls.n);
        let r = MockBackend::listen().and_then(|be| {
            let mut cl = cluster(&cid);
            if h2_backend {
                cl.http2 = Some(true);
            }
            ctx.w.add_cluster(cl)?;
            ctx.w.add_https_frontend(tls.front, "localhost", &path, &cid)?;
            ctx.w.add_backend(&cid, &format!("{cid}-0"), be.addr)?;
            Ok(be)
        });
        match r {
            Ok(be) => return (path, cid, be),
            Err(e) => last = format!("{e:?}"),
        }
        if !ctx.w.alive().is_alive() {
            break;
        }
        std::thread::sleep(Duration::from_millis(40 * (attempt as u64 + 1)));
    }
    inconclusive("backend listen + https route", last)
}

/// client connection to sozu's HTTP listener. No local port / descriptor: inconclusive.
/// Refused, reset, timed out: that is sozu, a real failure.
fn connect_front(addr: std::net::SocketAddr) -> RawConn {
    match RawConn::connect(addr) {
        Ok(c) => c,
        Err(e) if local_resource(&e) => inconclusive("client connect (local resources)", e),
        Err(e) => std::panic::panic_any(RealFailure { class: "listener-connect-failed", detail: format!("connect to sozu's listener {addr}: {e:?}") }),
    }
}

/// TLS client connection to sozu's HTTPS listener: local-resource errors are inconclusive, every
/// other error goes back to the case (which reports it as a failed transfer)
fn tls_front(addr: std::net::SocketAddr, io_timeout: Duration) -> RigResult<TlsStream> {
    // The handshake gets its own generous deadline: `io_timeout` (often a few milliseconds, it paces the
    // scripted client's read loop) must not apply to it - a handshake that the busy worker answers
    // after 10 ms is no observation about a transfer. A handshake that still times out is a set-up
    // failure: retried, then the case is inconclusive. Everything else the listener does (refusing,
    // resetting, a TLS alert) goes back to the case, which reports it.
    let mut last = None;
    for attempt in 0..SETUP_ATTEMPTS {
        match tls_connect(addr, "localhost", &["h2"], Duration::from_secs(3)) {
            Ok(s) => {
                let t = Some(io_timeout);
                if s.sock.set_read_timeout(t).and_then(|_| s.sock.set_write_timeout(t)).is_err() {
                    inconclusive("tls client socket options", "set_read_timeout / set_write_timeout failed");
                }
                return Ok(s);
            }
            Err(e) if local_resource(&e) => inconclusive("tls client connect (local resources)", e),
            Err(e) => {
                let t = format!("{e:?}");
                let timed_out = t.contains("WouldBlock") || t.contains("TimedOut") || matches!(e, RigError::Timeout(_));
                if !timed_out {
                    return Err(e);
                }
                last = Some(e);
                std::thread::sleep(Duration::from_millis(50 * (attempt as u64 + 1)));
            }
        }
    }
    inconclusive("tls handshake timed out", last)
}

#[derive(Default)]
struct Guard {
    inconclusive: u64,
    notes: Vec<String>,
}

static LAST_PANIC: std::sync::Mutex<Option<String>> = std::sync::Mutex::new(None);

/// main-thread panics: remember text and place, print nothing for the two payload types above
fn install_panic_recorder() {
    let prev = std::panic::take_hook();
    std::panic::set_hook(Box::new(move |info| {
        let p = info.payload();
        if p.is::<Inconclusive>() || p.is::<RealFailure>() {
            return;
        }
        if std::thread::current().name() == Some("main") {
            let msg = p.downcast_ref::<&str>().map(|s| s.to_string()).or_else(|| p.downcast_ref::<String>().cloned()).unwrap_or_else(|| "(non-string payload)".into());
            let at = info.location().map(|l| format!("{}:{}:{}", l.file(), l.line(), l.column())).unwrap_or_default();
            if let Ok(mut g) = LAST_PANIC.lock() {
                *g = Some(format!("{msg} at {at}"));
            }
        }
        prev(info);
    }));
}

/// Run one case. `None`: the case ended on a harness-side problem (counted as inconclusive) or on a
/// `RealFailure` (pushed to `fails`).
fn guarded<R>(g: &mut Guard, what: &str, fails: &mut Vec<Fail>, dist: &mut BTreeMap<String, u64>, f: impl FnOnce(&mut Vec<Fail>, &mut BTreeMap<String, u64>) -> R) -> Option<R> {
    if let Ok(mut l) = LAST_PANIC.lock() {
        *l = None;
    }
    let r = std::panic::catch_unwind(std::panic::AssertUnwindSafe(|| {
        if injected("E2E_INJECT_PANIC", &INJECT_PANIC) {
            let v: Vec<u8> = vec![];
            let i = v.len() + 3;
            let _ = v[i]; // an ordinary harness bug
        }
        f(&mut *fails, &mut *dist)
    }));
    match r {
        Ok(v) => Some(v),
        Err(p) => {
            if let Some(rf) = p.downcast_ref::<RealFailure>() {
                fails.push(Fail { class: rf.class.into(), detail: rf.detail.clone(), case: what.into() });
                return None;
            }
            let text = match p.downcast_ref::<Inconclusive>() {
                Some(i) => format!("set-up: {}", i.0),
                None => {
                    let rec = LAST_PANIC.lock().ok().and_then(|mut l| l.take());
                    format!("harness panic: {}", rec.unwrap_or_else(|| "(no text)".into()))
                }
            };
            g.inconclusive += 1;
            *dist.entry("inconclusive".into()).or_insert(0) += 1;
            if g.notes.len() < 20 {
                g.notes.push(format!("{what}: {text}"));
            }
            None
        }
    }
}

static CLOSE_DELIMITED_SEEN: std::sync::atomic::AtomicUsize = std::sync::atomic::AtomicUsize::new(0);

fn new_ctx() -> Result<Ctx, String> {
    let mut last = String::new();
    for attempt in 0..SETUP_ATTEMPTS {
        let r = Worker::start(WorkerOpts::default()).map_err(|e| format!("start: {e:?}")).and_then(|mut w| match w.add_http_listener() {
            Ok(front) => Ok(Ctx { w, front, n: 0 }),
            Err(e) => {
                w.stop();
                Err(format!("listener: {e:?}"))
            }
        });
        match r {
            Ok(c) => return Ok(c),
            Err(e) => last = e,
        }
        std::thread::sleep(Duration::from_millis(100 * (attempt as u64 + 1)));
    }
    Err(last)
}

fn request_bytes(host: &str, body: &[u8], chunked: bool, rng: &mut Rng) -> Vec<u8> {
    let mut v = format!("POST /up HTTP/1.1\r\nHost: {host}\r\n").into_bytes();
    if chunked {
        v.extend_from_slice(b"Transfer-Encoding: chunked\r\n\r\n");
        let mut i = 0;
        while i < body.len() {
            let c = match rng.below(5) {
                0 => 1,
                1 => 16384,
                2 => body.len() - i,
                _ => rng.range(1, 9000) as usize,
            }
            .min(body.len() - i);
            v.extend_from_slice(format!("{c:x}\r\n").as_bytes());
            v.extend_from_slice(&body[i..i + c]);
            v.extend_from_slice(b"\r\n");
            i += c;
        }
        v.extend_from_slice(b"0\r\n\r\n");
    } else {
        v.extend_from_slice(format!("Content-Length: {}\r\n\r\n", body.len()).as_bytes());
        v.extend_from_slice(body);
    }
    v
}

fn client_send(c: &mut RawConn, bytes: &[u8], rng: &mut Rng) -> Result<(), String> {
    // imposed segmentation
    let mut i = 0;
    let mode = rng.below(4);
    while i < bytes.len() {
        let n = match mode {
            0 => bytes.len() - i,
            1 => rng.range(1, 2000) as usize,
            2 => 16384,
            _ => rng.range(1, 40000) as usize,
        }
        .min(bytes.len() - i);
        c.write_all(&bytes[i..i + n], Duration::from_secs(10)).map_err(|e| format!("client write at {i}: {e:?}"))?;
        i += n;
        if mode == 1 && rng.chance(1, 20) {
            std::thread::sleep(Duration::from_millis(1));
        }
    }
    Ok(())
}

fn cmp_body(what: &str, got: &[u8], want: &[u8], class: &str, case: &str, fails: &mut Vec<Fail>) {
    if got != want {
        let at = got.iter().zip(want.iter()).position(|(a, b)| a != b).unwrap_or(got.len().min(want.len()));
        fails.push(Fail { class: class.into(), detail: format!("{what}: {} bytes arrived, {} sent, first difference at {at}", got.len(), want.len()), case: case.into() });
    }
}

/// H1 client -> sozu -> H1 backend, `reqs` requests on one keep-alive connection
fn case_h1_h1(ctx: &mut Ctx, rng: &mut Rng, sizes: &[usize], fails: &mut Vec<Fail>, dist: &mut BTreeMap<String, u64>) -> String {
    let (host, be) = route_h1(ctx, "a", false, ConnOpts::default());
    let reqs = rng.range(1, 3) as usize;
    let mut plan = vec![];
    for _ in 0..reqs {
        let n = *rng.pick(sizes);
        let m = *rng.pick(sizes);
        let mut fr = rng.below(3);
        if fr == 2 && CLOSE_DELIMITED_SEEN.load(std::sync::atomic::Ordering::Relaxed) >= 2 {
            fr = rng.below(2);
        }
        plan.push((pattern(rng.below(200) as usize, n), rng.chance(1, 2), pattern(rng.below(200) as usize, m), fr));
    }
    let case = format!("h1-h1 host={host} plan={:?}", plan.iter().map(|p| (p.0.len(), p.1, p.2.len(), p.3)).collect::<Vec<_>>());
    let plan_b = plan.clone();
    let last = reqs - 1;
    let bt = std::thread::spawn(move || {
        let mut got = vec![];
        let mut b = match be.accept(T) {
            Ok(b) => b,
            Err(e) => return Err(format!("accept {e:?}")),
        };
        for (i, (_, _, resp, fr)) in plan_b.iter().enumerate() {
            let req = read_http_message(&mut b, Duration::from_secs(10)).map_err(|e| format!("backend read {i}: {e:?}"))?;
            got.push(req.body);
            let mut out = b"HTTP/1.1 200 OK\r\n".to_vec();
            // close-delimited only on the last response
            let fr = if *fr == 2 && i != last { 0 } else { *fr };
            match fr {
                0 => {
                    out.extend_from_slice(format!("Content-Length: {}\r\n\r\n", resp.len()).as_bytes());
                    out.extend_from_slice(resp);
                }
                1 => {
                    out.extend_from_slice(b"Transfer-Encoding: chunked\r\n\r\n");
                    for ch in resp.chunks(7000) {
                        out.extend_from_slice(format!("{:x}\r\n", ch.len()).as_bytes());
                        out.extend_from_slice(ch);
                        out.extend_from_slice(b"\r\n");
                    }
                    out.extend_from_slice(b"0\r\n\r\n");
                }
                _ => {
                    out.extend_from_slice(b"Connection: close\r\n\r\n");
                    out.extend_from_slice(resp);
                }
            }
            b.write_all(&out, Duration::from_secs(10)).map_err(|e| format!("backend write {i}: {e:?}"))?;
            if fr == 2 {
                b.shutdown_write();
                let _ = b.read_until_closed_or(Duration::from_millis(500));
                break;
            }
        }
        Ok(got)
    });
    let mut c = connect_front(ctx.front);
    let mut resp_bodies = vec![];
    let mut err = None;
    for (i, (body, chunked, _, _)) in plan.iter().enumerate() {
        let bytes = request_bytes(&host, body, *chunked, rng);
        if let Err(e) = client_send(&mut c, &bytes, rng) {
            err = Some(e);
            break;
        }
        match read_http_message(&mut c, Duration::from_secs(if plan[i].3 == 2 { 2 } else { 5 })) {
            Ok(m) => {
                if m.status() != Some(200) {
                    err = Some(format!("response {i}: {}", m.start_line));
                    break;
                }
                resp_bodies.push(m.body);
            }
            Err(e) => {
                let head_end = find(&c.received[c.parsed..], b"\r\n\r\n").map(|p| p + 4).unwrap_or(0);
                let got = c.received.len() - c.parsed - head_end;
                if plan[i].3 == 2 && got == plan[i].2.len() && c.received[c.parsed + head_end..] == plan[i].2[..] {
                    CLOSE_DELIMITED_SEEN.fetch_add(1, std::sync::atomic::Ordering::Relaxed);
                    fails.push(Fail { class: "h1-h1-close-delimited-response-no-end".into(), detail: format!("response {i}: all {got} body bytes arrived but sozu neither closes the connection nor delimits the body ({e:?})"), case: case.clone() });
                } else {
                    err = Some(format!("client read {i}: {e:?} ({got} body bytes of {})", plan[i].2.len()));
                }
                break;
            }
        }
    }
    let got = bt.join().unwrap_or(Err("backend thread".into()));
    *dist.entry("pair:h1-h1".into()).or_insert(0) += 1;
    if let Some(e) = err {
        fails.push(Fail { class: "h1-h1-transfer-failed".into(), detail: e, case: case.clone() });
    }
    match got {
        Err(e) => fails.push(Fail { class: "h1-h1-transfer-failed".into(), detail: e, case: case.clone() }),
        Ok(got) => {
            for (i, g) in got.iter().enumerate() {
                cmp_body(&format!("request body {i}"), g, &plan[i].0, "h1-h1-request-body-differs", &case, fails);
            }
        }
    }
    for (i, g) in resp_bodies.iter().enumerate() {
        cmp_body(&format!("response body {i}"), g, &plan[i].2, "h1-h1-response-body-differs", &case, fails);
    }
    c.close();
    case
}

/// H1 client -> sozu -> h2c backend
#[allow(clippy::too_many_arguments)]
fn case_h1_h2c(ctx: &mut Ctx, rng: &mut Rng, req_len: usize, plan: H2Plan, slow: bool, fails: &mut Vec<Fail>, dist: &mut BTreeMap<String, u64>, tag: &str) -> (String, H2Report) {
    // sozu intermittently answers 503 when a request reaches a fresh h2c backend connection
    // ("Unexpected combination: (Writable, ServerSettings, Client)", three connection attempts, then
    // "backend retry budget exhausted"): reported once under its own class, then the case is retried
    for attempt in 0..4 {
        let mut local: Vec<Fail> = vec![];
        let (case, rep) = case_h1_h2c_once(ctx, rng, req_len, plan.clone(), slow, &mut local, dist, tag);
        let is_503 = local.iter().any(|f| f.detail.contains("503 Service Unavailable")) && rep.bodies.values().all(|b| b.is_empty());
        if is_503 {
            *dist.entry("h2c-fresh-connection-503".into()).or_insert(0) += 1;
            if !fails.iter().any(|f| f.class == "h1-h2c-fresh-backend-connection-503") {
                fails.push(Fail { class: "h1-h2c-fresh-backend-connection-503".into(), detail: "503 although the h2c backend is up and answers its SETTINGS; no request frame was sent to it".into(), case: case.clone() });
            }
            if attempt < 3 {
                continue;
            }
            // four 503s in a row: still the same phenomenon, nothing else to judge in this case
            *dist.entry("h2c-fresh-connection-503-persistent".into()).or_insert(0) += 1;
            return (case, rep);
        }
        fails.extend(local);
        return (case, rep);
    }
    unreachable!()
}

#[allow(clippy::too_many_arguments)]
fn case_h1_h2c_once(ctx: &mut Ctx, rng: &mut Rng, req_len: usize, plan: H2Plan, slow: bool, fails: &mut Vec<Fail>, dist: &mut BTreeMap<String, u64>, tag: &str) -> (String, H2Report) {
    let (host, be) = route_h1(ctx, "b", true, ConnOpts { rcvbuf: if slow { Some(4096) } else { None }, ..ConnOpts::default() });
    let body = pattern(rng.below(200) as usize, req_len);
    let chunked = rng.chance(1, 2);
    let case = format!("h1-h2c[{tag}] host={host} req={req_len} chunked={chunked} init_window={:?} conn_bump={} stingy={} drip={} read_max={} resp={}", plan.init_window, plan.conn_bump, plan.stingy, plan.drip, plan.read_max, plan.resp_body.len());
    let resp_want = plan.resp_body.clone();
    let bt = std::thread::spawn(move || serve_h2c(be, plan, 1));
    let mut c = connect_front(ctx.front);
    let bytes = request_bytes(&host, &body, chunked, rng);
    let send_err = client_send(&mut c, &bytes, rng).err();
    let resp = read_http_message(&mut c, Duration::from_secs(4));
    let rep = bt.join().unwrap_or_default();
    *dist.entry(format!("pair:h1-h2c:{tag}")).or_insert(0) += 1;
    let mut seen_classes: Vec<&String> = vec![];
    for (class, detail) in &rep.violations {
        if !seen_classes.contains(&class) {
            seen_classes.push(class);
            fails.push(Fail { class: class.clone(), detail: format!("{detail} ({} such frames in this transfer)", rep.violations.iter().filter(|v| &v.0 == class).count()), case: case.clone() });
        }
    }
    let flow_violation = !rep.violations.is_empty();
    let got_req = rep.bodies.values().next().cloned().unwrap_or_default();
    if !flow_violation {
        let no_frames_reached_backend = rep.bodies.is_empty();
        if no_frames_reached_backend && (send_err.is_some() || matches!(&resp, Err(_))) && !matches!(&resp, Ok(m) if m.status() == Some(503)) {
            // sozu dropped the client connection (RST) without a single request frame to the backend
            fails.push(Fail { class: "h1-h2c-request-aborted-no-answer".into(), detail: format!("client: {:?} / {:?}; backend: {:?}, 0 request frames", send_err, resp.as_ref().err(), rep.error), case: case.clone() });
        } else {
            if let Some(e) = send_err {
                fails.push(Fail { class: "h1-h2c-transfer-failed".into(), detail: e, case: case.clone() });
            }
            match resp {
                Ok(m) => {
                    if m.status() != Some(200) {
                        fails.push(Fail { class: "h1-h2c-transfer-failed".into(), detail: format!("status {}", m.start_line), case: case.clone() });
                    } else {
                        cmp_body("request body at the h2c backend", &got_req, &body, "h1-h2c-request-body-differs", &case, fails);
                        cmp_body("response body at the client", &m.body, &resp_want, "h1-h2c-response-body-differs", &case, fails);
                    }
                }
                Err(e) => {
                    let head_end = find(&c.received, b"\r\n\r\n").map(|p| p + 4).unwrap_or(c.received.len());
                    let got = c.received.len() - head_end;
                    let sent_all = rep.error.is_none();
                    let timed_out = format!("{e:?}").contains("Timeout");
                    let es = format!("{e:?}");
                    let cut = es.contains("Closed after") || es.contains("502 Bad Gateway");
                    // truncated: sozu closes the client connection (or splices a 502 into the body) although the
                    // backend sent the complete, well-formed response; seen with very large backend initial
                    // windows (>= 2^30), explored in the thorough tier only
                    let class = if got_req == body && sent_all && timed_out {
                        "h1-h2c-response-stalled"
                    } else if got_req == body && sent_all && cut {
                        "h1-h2c-response-truncated"
                    } else {
                        "h1-h2c-transfer-failed"
                    };
                    fails.push(Fail { class: class.into(), detail: format!("client read: {e:?}; {got} response body bytes at the client of {} the backend sent completely={sent_all}; request body complete at backend={}", resp_want.len(), got_req == body), case: case.clone() });
                }
            }
        }
    } else if got_req.len() <= body.len() && got_req[..] != body[..got_req.len()] {
        cmp_body("request body prefix at the h2c backend", &got_req, &body[..got_req.len()], "h1-h2c-request-body-differs", &case, fails);
    }
    c.close();
    (case, rep)
}

/// Two requests, one after the other, on ONE HTTP/1.1 keep-alive client connection, towards an
/// h2c backend that is healthy and generous (1 MiB windows, answers every stream with 200 and a
/// small body). The first exchange is complete (response read to its last byte) before the second
/// request is written, and the second request is written in full. sozu has everything it needs to
/// forward it: a 502 (or any other answer made up by sozu) for it is
/// `h1-h2c-keepalive-second-request-502`.
fn case_h1_h2c_keepalive(ctx: &mut Ctx, req_len: usize, fails: &mut Vec<Fail>, dist: &mut BTreeMap<String, u64>) -> String {
    let (host, be) = route_h1(ctx, "ka", true, ConnOpts::default());
    let case = format!("h1-h2c-keepalive host={host} requests=2 req={req_len} on one client connection");
    *dist.entry("pair:h1-h2c:keepalive".into()).or_insert(0) += 1;
    let plan = H2Plan { init_window: Some(1 << 20), conn_bump: 1 << 20, stingy: false, drip: 1 << 20, read_max: 1 << 16, read_pause: Duration::ZERO, resp_body: b"pong".to_vec(), resp_content_length: true };
    let bt = std::thread::spawn(move || serve_h2c(be, plan, 2));
    let mut c = connect_front(ctx.front);
    let mut outcome: Vec<String> = vec![];
    let mut second: Option<Result<HttpMessage, String>> = None;
    let mut first_ok = false;
    for i in 0..2usize {
        let body = pattern(7 + i, req_len);
        let mut bytes = format!("POST /r{i} HTTP/1.1\r\nHost: {host}\r\nContent-Length: {}\r\n\r\n", body.len()).into_bytes();
        bytes.extend_from_slice(&body);
        let before = c.parsed;
        if let Err(e) = c.write_all(&bytes, T) {
            outcome.push(format!("request {}: write failed: {e:?}", i + 1));
            if i == 1 {
                second = Some(Err(format!("write: {e:?}")));
            }
            break;
        }
        let r = read_http_message(&mut c, T);
        outcome.push(match &r {
            Ok(m) => format!("request {}: {} ({} body bytes)", i + 1, m.start_line, m.body.len()),
            Err(e) => format!("request {}: {e:?} ({} bytes received)", i + 1, c.received.len() - before.min(c.received.len())),
        });
        if i == 0 {
            first_ok = matches!(&r, Ok(m) if m.status() == Some(200) && m.body == b"pong");
            if !first_ok {
                break;
            }
        } else {
            second = Some(r.map_err(|e| format!("{e:?}")));
        }
    }
    c.close();
    let rep = bt.join().unwrap_or_default();
    let backend = format!("backend saw streams {:?} (complete: {:?}), rst {:?}, goaway {:?}, end: {:?}", rep.bodies.keys().collect::<Vec<_>>(), rep.ended.keys().collect::<Vec<_>>(), rep.rst, rep.goaway, rep.error);
    if !first_ok {
        // not this scenario's subject: the plain single transfer is covered by the h1-h2c cases
        fails.push(Fail { class: "h1-h2c-transfer-failed".into(), detail: format!("first request of the keep-alive pair: {}; {backend}", outcome.join("; ")), case: case.clone() });
        return case;
    }
    match second {
        Some(Ok(m)) if m.status() == Some(200) && m.body == b"pong" => {
            let want = pattern(8, req_len);
            let got = rep.bodies.values().nth(1).cloned().unwrap_or_default();
            cmp_body("second request body at the h2c backend", &got, &want, "h1-h2c-request-body-differs", &case, fails);
        }
        Some(Ok(m)) => {
            let by_sozu = matches!(m.status(), Some(502) | Some(503) | Some(504) | Some(500));
            let class = if by_sozu { "h1-h2c-keepalive-second-request-502" } else { "h1-h2c-transfer-failed" };
            fails.push(Fail { class: class.into(), detail: format!("the second request on a kept-alive HTTP/1.1 connection, written in full after the first exchange had ended with 200, was answered `{}` although the h2c backend is up and answered the first one; {}; {backend}", m.start_line, outcome.join("; ")), case: case.clone() });
        }
        Some(Err(e)) => {
            fails.push(Fail { class: "h1-h2c-keepalive-second-request-502".into(), detail: format!("the second request on a kept-alive HTTP/1.1 connection, written after the first exchange had ended with 200, got no answer ({e}) although the h2c backend is up; {}; {backend}", outcome.join("; ")), case: case.clone() });
        }
        None => {}
    }
    case
}

// ------------------------------------------------- TLS HTTP/2 client (thorough) --

struct TlsCtx {
    front: std::net::SocketAddr,
    n: usize,
}

fn new_tls_listener(ctx: &mut Ctx) -> Result<TlsCtx, String> {
    let mut last = String::new();
    for attempt in 0..SETUP_ATTEMPTS {
        // a fresh listener (fresh port) at every attempt
        let r = (|| -> Result<TlsCtx, String> {
            let front = ctx.w.add_https_listener().map_err(|e| format!("https listener: {e:?}"))?;
            ctx.w
                .add_certificate(front, asset("local-certificate.pem").map_err(|e| format!("{e:?}"))?, asset("local-key.pem").map_err(|e| format!("{e:?}"))?, vec![])
                .map_err(|e| format!("certificate: {e:?}"))?;
            Ok(TlsCtx { front, n: 0 })
        })();
        match r {
            Ok(t) => return Ok(t),
            Err(e) => last = e,
        }
        if !ctx.w.alive().is_alive() {
            break;
        }
        std::thread::sleep(Duration::from_millis(100 * (attempt as u64 + 1)));
    }
    Err(last)
}

/// HTTP/2-over-TLS client -> sozu -> HTTP/1.1 backend. The client keeps the ledger of the windows
/// it advertised (initial window `iw`, refilled only when used up if `stingy`).
#[allow(clippy::too_many_arguments)]
fn case_h2_h1(ctx: &mut Ctx, tls: &mut TlsCtx, rng: &mut Rng, req_len: usize, resp_len: usize, iw: u32, stingy: bool, fails: &mut Vec<Fail>, dist: &mut BTreeMap<String, u64>) -> String {
    use std::io::{Read, Write};
    let (path, _cid, be) = route_tls(ctx, tls, "t", false);
    let body = pattern(rng.below(200) as usize, req_len);
    let resp_body = pattern(rng.below(200) as usize, resp_len);
    let resp_chunked = rng.chance(1, 2);
    let case = format!("h2tls-h1 path={path} req={req_len} resp={resp_len} resp_chunked={resp_chunked} client_init_window={iw} stingy={stingy}");
    *dist.entry("pair:h2tls-h1".into()).or_insert(0) += 1;
    let resp_b = resp_body.clone();
    let bt = std::thread::spawn(move || -> Result<Vec<u8>, String> {
        let mut b = be.accept(T).map_err(|e| format!("accept {e:?}"))?;
        let req = read_http_message(&mut b, Duration::from_secs(8)).map_err(|e| format!("backend read: {e:?}"))?;
        let mut out = b"HTTP/1.1 200 OK\r\n".to_vec();
        if resp_chunked {
            out.extend_from_slice(b"Transfer-Encoding: chunked\r\n\r\n");
            for ch in resp_b.chunks(5000) {
                out.extend_from_slice(format!("{:x}\r\n", ch.len()).as_bytes());
                out.extend_from_slice(ch);
                out.extend_from_slice(b"\r\n");
            }
            out.extend_from_slice(b"0\r\n\r\n");
        } else {
            out.extend_from_slice(format!("Content-Length: {}\r\n\r\n", resp_b.len()).as_bytes());
            out.extend_from_slice(&resp_b);
        }
        b.write_all(&out, Duration::from_secs(8)).map_err(|e| format!("backend write: {e:?}"))?;
        let _ = b.read_until_closed_or(Duration::from_millis(300));
        Ok(req.body)
    });
    let mut st = match tls_front(tls.front, Duration::from_millis(100)) {
        Ok(s) => s,
        Err(e) => {
            fails.push(Fail { class: "h2tls-h1-transfer-failed".into(), detail: format!("tls connect: {e:?}"), case: case.clone() });
            return case;
        }
    };
    let mut hello = b"PRI * HTTP/2.0\r\n\r\nSM\r\n\r\n".to_vec();
    let mut settings = vec![];
    settings.extend_from_slice(&4u16.to_be_bytes());
    settings.extend_from_slice(&iw.to_be_bytes());
    hello.extend_from_slice(&frame(4, 0, 0, &settings));
    let mut enc = loona_hpack::Encoder::new();
    let cl = req_len.to_string();
    let hs: Vec<(&[u8], &[u8])> = vec![(b":method", b"POST"), (b":scheme", b"https"), (b":path", path.as_bytes()), (b":authority", b"localhost"), (b"content-length", cl.as_bytes())];
    let block = enc.encode(hs);
    hello.extend_from_slice(&frame(1, 4 | if req_len == 0 { 1 } else { 0 }, 1, &block));
    let mut err: Option<String> = st.write_all(&hello).and_then(|_| st.flush()).err().map(|e| format!("write hello: {e}"));
    // what sozu lets us send / what we let sozu send
    let (mut peer_init, mut send_conn, mut send_stream): (i64, i64, i64) = (65535, 65535, 65535);
    let (mut recv_stream, mut recv_conn): (i64, i64) = (iw as i64, 65535);
    let mut off = 0usize;
    let mut rx: Vec<u8> = vec![];
    let mut pos = 0usize;
    let mut got: Vec<u8> = vec![];
    let mut end_streams = 0;
    let mut status_seen = false;
    let mut violations: Vec<(String, String)> = vec![];
    let deadline = Instant::now() + Duration::from_secs(8);
    while err.is_none() && end_streams == 0 && Instant::now() < deadline {
        // send request body inside sozu's windows
        while off < body.len() {
            let room = send_stream.min(send_conn).min(16384);
            if room <= 0 {
                break;
            }
            let n = (room as usize).min(body.len() - off);
            let last = off + n == body.len();
            if let Err(e) = st.write_all(&frame(0, last as u8, 1, &body[off..off + n])).and_then(|_| st.flush()) {
                if e.kind() == std::io::ErrorKind::WouldBlock || e.kind() == std::io::ErrorKind::TimedOut {
                    // the frame may be partially buffered by rustls: keep flushing
                    let _ = st.flush();
                } else {
                    err = Some(format!("write DATA at {off}: {e}"));
                    break;
                }
            }
            off += n;
            send_stream -= n as i64;
            send_conn -= n as i64;
        }
        let mut buf = [0u8; 16384];
        match st.read(&mut buf) {
            Ok(0) => {
                err = Some("connection closed by sozu".into());
            }
            Ok(n) => rx.extend_from_slice(&buf[..n]),
            Err(e) if e.kind() == std::io::ErrorKind::WouldBlock || e.kind() == std::io::ErrorKind::TimedOut => {}
            Err(e) => err = Some(format!("read: {e}")),
        }
        while rx.len() - pos >= 9 {
            let h = &rx[pos..pos + 9];
            let len = ((h[0] as usize) << 16) | ((h[1] as usize) << 8) | h[2] as usize;
            let (ty, fl) = (h[3], h[4]);
            let sid = u32::from_be_bytes([h[5], h[6], h[7], h[8]]) & 0x7fff_ffff;
            if rx.len() - pos - 9 < len {
                break;
            }
            let payload = rx[pos + 9..pos + 9 + len].to_vec();
            pos += 9 + len;
            if len > 16384 {
                violations.push(("h2-front-frame-exceeds-max-frame-size".into(), format!("type {ty} length {len}")));
            }
            let mut out = vec![];
            match ty {
                4 if fl & 1 == 0 => {
                    for e in payload.chunks(6) {
                        if e.len() == 6 && u16::from_be_bytes([e[0], e[1]]) == 4 {
                            let v = u32::from_be_bytes([e[2], e[3], e[4], e[5]]) as i64;
                            send_stream += v - peer_init;
                            peer_init = v;
                        }
                    }
                    out.extend_from_slice(&frame(4, 1, 0, &[]));
                }
                8 => {
                    let inc = (u32::from_be_bytes([payload[0], payload[1], payload[2], payload[3]]) & 0x7fff_ffff) as i64;
                    if sid == 0 {
                        send_conn += inc;
                    } else {
                        send_stream += inc;
                    }
                }
                6 if fl & 1 == 0 => out.extend_from_slice(&frame(6, 1, 0, &payload)),
                1 => {
                    status_seen = true;
                    if fl & 1 != 0 {
                        end_streams += 1;
                    }
                }
                0 => {
                    let n = len as i64;
                    recv_stream -= n;
                    recv_conn -= n;
                    if recv_stream < 0 && n > 0 {
                        violations.push(("h2-front-stream-window-exceeded".into(), format!("DATA of {n} bytes leaves the client's stream window at {recv_stream} (initial {iw})")));
                    }
                    if recv_conn < 0 && n > 0 {
                        violations.push(("h2-front-connection-window-exceeded".into(), format!("DATA of {n} bytes leaves the client's connection window at {recv_conn}")));
                    }
                    got.extend_from_slice(&payload);
                    if fl & 1 != 0 {
                        end_streams += 1;
                    } else {
                        let refill = if stingy { recv_stream <= 0 } else { recv_stream <= iw as i64 / 2 };
                        if refill {
                            let grant = (iw as i64 - recv_stream).clamp(1, 0x7fff_ffff);
                            recv_stream += grant;
                            out.extend_from_slice(&frame(8, 0, 1, &(grant as u32).to_be_bytes()));
                        }
                        if recv_conn <= 32768 {
                            recv_conn += 1 << 20;
                            out.extend_from_slice(&frame(8, 0, 0, &(1u32 << 20).to_be_bytes()));
                        }
                    }
                }
                3 => err = Some(format!("RST_STREAM {:?}", payload)),
                7 => err = Some(format!("GOAWAY {:?}", &payload[4..8.min(payload.len())])),
                _ => {}
            }
            if !out.is_empty() {
                let _ = st.write_all(&out).and_then(|_| st.flush());
            }
        }
    }
    let back = bt.join().unwrap_or(Err("backend thread".into()));
    let mut seen: Vec<&String> = vec![];
    for (c, d) in &violations {
        if !seen.contains(&c) {
            seen.push(c);
            fails.push(Fail { class: c.clone(), detail: d.clone(), case: case.clone() });
        }
    }
    if let Some(e) = err {
        fails.push(Fail { class: "h2tls-h1-transfer-failed".into(), detail: format!("{e}; {} response bytes, status seen {status_seen}", got.len()), case: case.clone() });
    } else if end_streams == 0 {
        fails.push(Fail { class: "h2tls-h1-response-stalled".into(), detail: format!("{} of {} response body bytes, request sent {off}/{}", got.len(), resp_body.len(), body.len()), case: case.clone() });
    } else {
        cmp_body("response body at the TLS h2 client", &got, &resp_body, "h2tls-h1-response-body-differs", &case, fails);
        match back {
            Ok(b) => cmp_body("request body at the h1 backend", &b, &body, "h2tls-h1-request-body-differs", &case, fails),
            Err(e) => fails.push(Fail { class: "h2tls-h1-transfer-failed".into(), detail: e, case: case.clone() }),
        }
    }
    case
}

// ------------------------------------ h2front: TLS HTTP/2 client -> HTTP/1.1 backend (quick) --

/// one DATA frame of the scripted client
#[derive(Clone, Debug)]
struct DataSpec {
    content: Vec<u8>,
    /// `Some(n)`: PADDED flag, pad-length byte `n`, `n` zero bytes of padding
    pad: Option<u8>,
    end_stream: bool,
}

#[derive(Clone, Debug)]
enum WinScript {
    None,
    /// initial window `iw0`; once the response has stalled on it: SETTINGS `iw1` (< iw0), wait for
    /// the ACK, then WINDOW_UPDATE(stream, `wu`) - the true window is then `iw1 - iw0 + wu`
    Shrink { iw0: u32, iw1: u32, wu: u32 },
    /// initial window 0; once the response HEADERS arrived: SETTINGS `iw1`
    Grow { iw1: u32 },
}

#[derive(Clone, Debug)]
struct H2Spec {
    name: &'static str,
    declare_length: bool,
    frames: Vec<DataSpec>,
    trailers: bool,
    win: WinScript,
    resp_len: usize,
}

struct Judged {
    requests: Vec<(String, Vec<u8>)>,
    /// `(class, detail)` of the first framing error, if any
    error: Option<(String, String)>,
    /// bytes after the last complete request
    leftover: Vec<u8>,
}

/// strict RFC 9112 reading of everything the backend received on one connection
fn judge_h1_requests(raw: &[u8]) -> Judged {
    let mut j = Judged { requests: vec![], error: None, leftover: vec![] };
    let mut pos = 0usize;
    let line_end = |from: usize| find(&raw[from..], b"\r\n").map(|p| from + p);
    while pos < raw.len() {
        let Some(he) = find(&raw[pos..], b"\r\n\r\n") else {
            j.leftover = raw[pos..].to_vec();
            return j;
        };
        let head = String::from_utf8_lossy(&raw[pos..pos + he]).to_string();
        let mut lines = head.split("\r\n");
        let start = lines.next().unwrap_or("").to_string();
        let parts: Vec<&str> = start.split(' ').collect();
        if parts.len() != 3 || !parts[2].starts_with("HTTP/1.") || parts[0].is_empty() || !parts[0].bytes().all(|b| b.is_ascii_uppercase()) {
            j.leftover = raw[pos..].to_vec();
            return j;
        }
        let mut chunked = false;
        let mut length: Option<usize> = None;
        for l in lines {
            let Some((n, v)) = l.split_once(':') else {
                j.error = Some(("h2-h1-malformed-header-line".into(), format!("{l:?}")));
                return j;
            };
            let v = v.trim();
            if n.eq_ignore_ascii_case("transfer-encoding") {
                chunked = v.eq_ignore_ascii_case("chunked");
            } else if n.eq_ignore_ascii_case("content-length") {
                length = v.parse().ok();
            }
        }
        let mut p = pos + he + 4;
        let mut body = vec![];
        if chunked {
            loop {
                let Some(le) = line_end(p) else {
                    j.error = Some(("h2-h1-request-incomplete-at-backend".into(), format!("no chunk-size line at offset {p} of {}", raw.len())));
                    return j;
                };
                let size_line = &raw[p..le];
                if size_line.is_empty() || !size_line.iter().all(|b| b.is_ascii_hexdigit()) {
                    j.error = Some(("h2-h1-chunk-size-mismatch".into(), format!("offset {p}: expected a chunk-size line, found {:?}", String::from_utf8_lossy(&size_line[..size_line.len().min(40)]))));
                    return j;
                }
                let n = std::str::from_utf8(size_line).ok().and_then(|t| usize::from_str_radix(t, 16).ok()).unwrap_or(usize::MAX);
                p = le + 2;
                if n == 0 {
                    // trailer section, then the empty line
                    loop {
                        let Some(te) = line_end(p) else {
                            j.error = Some(("h2-h1-request-incomplete-at-backend".into(), "no end of trailer section".into()));
                            return j;
                        };
                        if te == p {
                            p += 2;
                            break;
                        }
                        if !raw[p..te].contains(&b':') {
                            j.error = Some(("h2-h1-malformed-header-line".into(), format!("trailer {:?}", String::from_utf8_lossy(&raw[p..te]))));
                            return j;
                        }
                        p = te + 2;
                    }
                    break;
                }
                if raw.len() < p + n + 2 {
                    j.error = Some(("h2-h1-chunk-size-mismatch".into(), format!("chunk-size line says {n} bytes, only {} bytes follow in all", raw.len().saturating_sub(p))));
                    return j;
                }
                if &raw[p + n..p + n + 2] != b"\r\n" {
                    j.error = Some(("h2-h1-chunk-size-mismatch".into(), format!("chunk-size line says {n} bytes but they are not followed by CRLF (found {:?})", String::from_utf8_lossy(&raw[p + n..p + n + 2]))));
                    return j;
                }
                body.extend_from_slice(&raw[p..p + n]);
                p += n + 2;
            }
        } else if let Some(n) = length {
            if raw.len() < p + n {
                j.error = Some(("h2-h1-request-incomplete-at-backend".into(), format!("Content-Length {n}, {} body bytes", raw.len() - p)));
                return j;
            }
            body.extend_from_slice(&raw[p..p + n]);
            p += n;
        }
        j.requests.push((start, body));
        pos = p;
    }
    j
}

fn padded_frame(sid: u32, d: &DataSpec) -> Vec<u8> {
    match d.pad {
        None => frame(0, d.end_stream as u8, sid, &d.content),
        Some(n) => {
            let mut p = vec![n];
            p.extend_from_slice(&d.content);
            p.extend(std::iter::repeat(0u8).take(n as usize));
            frame(0, 8 | d.end_stream as u8, sid, &p)
        }
    }
}

/// run one scripted exchange; returns the case description
fn case_h2front(ctx: &mut Ctx, tls: &mut TlsCtx, spec: &H2Spec, prop: &str, fails: &mut Vec<Fail>, dist: &mut BTreeMap<String, u64>) -> String {
    use std::io::{Read, Write};
    let (path, _cid, be) = route_tls(ctx, tls, "f", false);
    let expected_body: Vec<u8> = spec.frames.iter().flat_map(|f| f.content.iter().copied()).collect();
    let case = format!(
        "h2front[{}] path={path} content-length={} frames={:?} trailers={} win={:?} resp={}",
        spec.name,
        spec.declare_length,
        spec.frames.iter().map(|f| (f.content.len(), f.pad, f.end_stream)).collect::<Vec<_>>(),
        spec.trailers,
        spec.win,
        spec.resp_len
    );
    *dist.entry(format!("h2front:{}", spec.name)).or_insert(0) += 1;
    let resp_body = pattern(tls.n, spec.resp_len);
    let resp_b = resp_body.clone();
    let total = expected_body.len();
    let declared = spec.declare_length;
    let client_done = std::sync::Arc::new(std::sync::atomic::AtomicBool::new(false));
    let done_b = client_done.clone();
    // the backend records raw bytes; it answers once the request looks complete to a lenient eye
    let bt = std::thread::spawn(move || -> Result<Vec<u8>, String> {
        let mut b = be.accept(T).map_err(|e| format!("accept {e:?}"))?;
        let until = Instant::now() + Duration::from_millis(1200);
        loop {
            let _ = b.read_some(Duration::from_millis(40));
            let r = &b.received;
            let done = match find(r, b"\r\n\r\n") {
                None => false,
                Some(h) => {
                    if declared {
                        r.len() >= h + 4 + total
                    } else {
                        r.ends_with(b"0\r\n\r\n") || (total == 0 && !String::from_utf8_lossy(&r[..h]).to_ascii_lowercase().contains("transfer-encoding"))
                    }
                }
            };
            if done || Instant::now() > until || b.eof || b.error.is_some() {
                break;
            }
        }
        let _ = b.read_until_quiet(Duration::from_millis(60), Duration::from_millis(300));
        let mut out = format!("HTTP/1.1 200 OK\r\nContent-Length: {}\r\n\r\n", resp_b.len()).into_bytes();
        out.extend_from_slice(&resp_b);
        b.write_all(&out, Duration::from_secs(5)).map_err(|e| format!("backend write: {e:?}"))?;
        let _ = b.read_until_quiet(Duration::from_millis(120), Duration::from_millis(600));
        // keep the connection open until the client has its answer (a backend that closes while the
        // client's window is shut is another scenario)
        let until = Instant::now() + Duration::from_secs(7);
        while !done_b.load(std::sync::atomic::Ordering::Relaxed) && Instant::now() < until {
            let _ = b.read_some(Duration::from_millis(20));
        }
        Ok(b.received.clone())
    });
    let mut st = match tls_front(tls.front, Duration::from_millis(60)) {
        Ok(s) => s,
        Err(e) => {
            client_done.store(true, std::sync::atomic::Ordering::Relaxed);
            fails.push(Fail { class: "h2front-transfer-failed".into(), detail: format!("tls connect: {e:?}"), case: case.clone() });
            return case;
        }
    };
    let iw0: u32 = match spec.win {
        WinScript::None => 1 << 20,
        WinScript::Shrink { iw0, .. } => iw0,
        WinScript::Grow { .. } => 0,
    };
    let mut hello = b"PRI * HTTP/2.0\r\n\r\nSM\r\n\r\n".to_vec();
    let mut settings = vec![];
    settings.extend_from_slice(&4u16.to_be_bytes());
    settings.extend_from_slice(&iw0.to_be_bytes());
    hello.extend_from_slice(&frame(4, 0, 0, &settings));
    let mut enc = loona_hpack::Encoder::new();
    let cl = total.to_string();
    let mut hs: Vec<(&[u8], &[u8])> = vec![(b":method", b"POST"), (b":scheme", b"https"), (b":path", path.as_bytes()), (b":authority", b"localhost")];
    if spec.declare_length {
        hs.push((b"content-length", cl.as_bytes()));
    }
    if spec.trailers {
        hs.push((b"te", b"trailers"));
    }
    let block = enc.encode(hs);
    let no_frames = spec.frames.is_empty() && !spec.trailers;
    hello.extend_from_slice(&frame(1, 4 | no_frames as u8, 1, &block));
    for f in &spec.frames {
        hello.extend_from_slice(&padded_frame(1, f));
    }
    if spec.trailers {
        let tb = enc.encode(vec![(&b"x-checksum"[..], &b"abc123"[..])]);
        hello.extend_from_slice(&frame(1, 4 | 1, 1, &tb));
    }
    let mut err: Option<String> = st.write_all(&hello).and_then(|_| st.flush()).err().map(|e| format!("write request: {e}"));
    let mut recv_stream: i64 = iw0 as i64;
    let mut cur_iw: i64 = iw0 as i64;
    let mut pending_iw: Option<i64> = None;
    let mut rx: Vec<u8> = vec![];
    let mut pos = 0usize;
    let mut got: Vec<u8> = vec![];
    let mut end_streams = 0;
    let mut headers_seen = false;
    let mut status_ok = false;
    // script state: 0 = waiting for the trigger, 1 = SETTINGS sent (waiting for ACK), 2 = done
    let mut phase = 0;
    let mut last_data = Instant::now();
    let mut settings_acked_at: Option<Instant> = None;
    let mut got_after_ack = 0usize;
    let mut window_fail: Option<String> = None;
    let deadline = Instant::now() + Duration::from_secs(6);
    while err.is_none() && end_streams == 0 && Instant::now() < deadline {
        let mut buf = [0u8; 16384];
        match st.read(&mut buf) {
            Ok(0) => err = Some("connection closed by sozu".into()),
            Ok(n) => rx.extend_from_slice(&buf[..n]),
            Err(e) if e.kind() == std::io::ErrorKind::WouldBlock || e.kind() == std::io::ErrorKind::TimedOut => {}
            Err(e) => err = Some(format!("read: {e}")),
        }
        let mut out = vec![];
        while rx.len() - pos >= 9 {
            let h = &rx[pos..pos + 9];
            let len = ((h[0] as usize) << 16) | ((h[1] as usize) << 8) | h[2] as usize;
            let (ty, fl) = (h[3], h[4]);
            if rx.len() - pos - 9 < len {
                break;
            }
            let payload = rx[pos + 9..pos + 9 + len].to_vec();
            pos += 9 + len;
            match ty {
                4 if fl & 1 == 0 => out.extend_from_slice(&frame(4, 1, 0, &[])),
                4 => {
                    // ACK: our pending SETTINGS are in force at sozu from here on
                    if let Some(v) = pending_iw.take() {
                        recv_stream += v - cur_iw;
                        cur_iw = v;
                        settings_acked_at = Some(Instant::now());
                        if let WinScript::Shrink { wu, .. } = spec.win {
                            recv_stream += wu as i64;
                            out.extend_from_slice(&frame(8, 0, 1, &wu.to_be_bytes()));
                        }
                        phase = 2;
                    }
                }
                6 if fl & 1 == 0 => out.extend_from_slice(&frame(6, 1, 0, &payload)),
                1 => {
                    headers_seen = true;
                    let mut dec = loona_hpack::Decoder::new();
                    if let Ok(list) = dec.decode(&payload) {
                        status_ok = list.iter().any(|(k, v)| k == b":status" && v == b"200");
                    }
                    if fl & 1 != 0 {
                        end_streams += 1;
                    }
                }
                0 => {
                    let n = len as i64;
                    recv_stream -= n;
                    last_data = Instant::now();
                    if settings_acked_at.is_some() {
                        got_after_ack += len;
                    }
                    if recv_stream < 0 && n > 0 && window_fail.is_none() {
                        let class_detail = format!("DATA of {n} bytes leaves the client's stream window at {recv_stream} (script {:?}, {} body bytes so far)", spec.win, got.len() + len);
                        window_fail = Some(class_detail);
                    }
                    got.extend_from_slice(&payload);
                    if fl & 1 != 0 {
                        end_streams += 1;
                    }
                }
                3 => err = Some(format!("RST_STREAM {payload:?}")),
                7 => err = Some(format!("GOAWAY {:?}", &payload[4..8.min(payload.len())])),
                _ => {}
            }
        }
        // the window script
        match spec.win {
            WinScript::Shrink { iw1, .. } if phase == 0 && headers_seen && recv_stream == 0 && last_data.elapsed() > Duration::from_millis(80) => {
                let mut sp = vec![];
                sp.extend_from_slice(&4u16.to_be_bytes());
                sp.extend_from_slice(&iw1.to_be_bytes());
                out.extend_from_slice(&frame(4, 0, 0, &sp));
                pending_iw = Some(iw1 as i64);
                phase = 1;
            }
            WinScript::Grow { iw1 } if phase == 0 && headers_seen => {
                let mut sp = vec![];
                sp.extend_from_slice(&4u16.to_be_bytes());
                sp.extend_from_slice(&iw1.to_be_bytes());
                out.extend_from_slice(&frame(4, 0, 0, &sp));
                pending_iw = Some(iw1 as i64);
                phase = 1;
            }
            _ => {}
        }
        // after the scripted step has been observed for a while: open the window for good
        if phase == 2 && settings_acked_at.map(|t| t.elapsed() > Duration::from_millis(1500)).unwrap_or(false) {
            if let WinScript::Grow { .. } = spec.win {
                if got_after_ack == 0 && window_fail.is_none() {
                    window_fail = Some("grow".into());
                }
            }
            recv_stream += 1 << 24;
            out.extend_from_slice(&frame(8, 0, 1, &(1u32 << 24).to_be_bytes()));
            phase = 3;
        } else if phase == 2 && recv_stream == 0 && last_data.elapsed() > Duration::from_millis(150) && got_after_ack > 0 {
            // the granted part arrived and sozu stopped at the limit: finish the transfer
            recv_stream += 1 << 24;
            out.extend_from_slice(&frame(8, 0, 1, &(1u32 << 24).to_be_bytes()));
            phase = 3;
        }
        if !out.is_empty() {
            let _ = st.write_all(&out).and_then(|_| st.flush());
        }
    }
    client_done.store(true, std::sync::atomic::Ordering::Relaxed);
    drop(st);
    let raw = bt.join().unwrap_or(Err("backend thread".into()));
    // ---- client-side window ledger
    if let Some(d) = window_fail {
        if d == "grow" {
            fails.push(Fail { class: "h2-front-stalled-after-settings-grow".into(), detail: format!("initial window 0 raised by SETTINGS (acknowledged): no DATA within 1.5 s ({} body bytes before)", got.len()), case: case.clone() });
        } else {
            let class = if matches!(spec.win, WinScript::None) { "h2-front-stream-window-exceeded" } else { "h2-front-window-exceeded-after-settings" };
            fails.push(Fail { class: class.into(), detail: d, case: case.clone() });
        }
    }
    let framing_scope = prop != "C14";
    // ---- what the backend saw
    if framing_scope {
        match &raw {
            Err(e) => fails.push(Fail { class: "h2front-transfer-failed".into(), detail: e.clone(), case: case.clone() }),
            Ok(raw) => {
                let j = judge_h1_requests(raw);
                let trailer_class = if spec.declare_length { "c03-trailers-after-length-body" } else { "c03-trailers-without-last-chunk" };
                let mut push = |class: &str, detail: String| {
                    let class = if spec.trailers { trailer_class } else { class };
                    fails.push(Fail { class: class.into(), detail: format!("{detail}; backend bytes: {:?}", String::from_utf8_lossy(&raw[..raw.len().min(400)])), case: case.clone() });
                };
                if let Some((c, d)) = &j.error {
                    push(c, d.clone());
                }
                if j.requests.len() > 1 {
                    push("h2-h1-extra-request-at-backend", format!("{} requests reached the backend, the client sent one: {:?}", j.requests.len(), j.requests.iter().map(|r| r.0.clone()).collect::<Vec<_>>()));
                } else if !j.leftover.is_empty() && j.error.is_none() {
                    push("h2-h1-extra-bytes-at-backend", format!("{} bytes after the request", j.leftover.len()));
                }
                match j.requests.first() {
                    Some((start, body)) => {
                        if !start.starts_with(&format!("POST {path} ")) {
                            push("h2-h1-body-corrupted", format!("request line {start:?}"));
                        } else if *body != expected_body && j.error.is_none() {
                            let at = body.iter().zip(expected_body.iter()).position(|(a, b)| a != b).unwrap_or(body.len().min(expected_body.len()));
                            push("h2-h1-body-corrupted", format!("{} body bytes at the backend, {} sent, first difference at {at}", body.len(), expected_body.len()));
                        }
                    }
                    None => {
                        if j.error.is_none() {
                            push("h2-h1-request-incomplete-at-backend", format!("no complete request in {} bytes", raw.len()));
                        }
                    }
                }
            }
        }
    }
    // ---- what the client saw
    let clean = fails.iter().all(|f| f.case != case);
    if clean {
        if let Some(e) = err {
            fails.push(Fail { class: "h2front-transfer-failed".into(), detail: format!("{e}; {} response bytes", got.len()), case: case.clone() });
        } else if end_streams == 0 {
            fails.push(Fail { class: "h2front-response-stalled".into(), detail: format!("{} of {} response body bytes", got.len(), resp_body.len()), case: case.clone() });
        } else if !status_ok {
            fails.push(Fail { class: "h2front-transfer-failed".into(), detail: "status is not 200".into(), case: case.clone() });
        } else if framing_scope || !matches!(spec.win, WinScript::None) {
            cmp_body("response body at the TLS h2 client", &got, &resp_body, "h2front-response-body-differs", &case, fails);
        }
    }
    case
}

fn h2front_specs(rng: &mut Rng, prop: &str) -> Vec<H2Spec> {
    let d = |content: &[u8], pad: Option<u8>, end_stream: bool| DataSpec { content: content.to_vec(), pad, end_stream };
    let mut v = vec![];
    if prop != "C14" {
        v.push(H2Spec { name: "plain", declare_length: false, frames: vec![d(b"hello world", None, true)], trailers: false, win: WinScript::None, resp_len: 5 });
        v.push(H2Spec { name: "padded-mix", declare_length: false, frames: vec![d(&pattern(1, 300), Some(0), false), d(&pattern(2, 77), Some(7), false), d(&pattern(3, 1000), None, false), d(b"Z", Some(200), true)], trailers: false, win: WinScript::None, resp_len: 9 });
        v.push(H2Spec { name: "pad255-then-empty-end", declare_length: false, frames: vec![d(b"A", Some(255), false), d(b"", None, true)], trailers: false, win: WinScript::None, resp_len: 0 });
        v.push(H2Spec { name: "padded-empty-content", declare_length: false, frames: vec![d(b"", Some(10), false), d(&pattern(4, 20), Some(3), false), d(b"", Some(0), false), d(&pattern(5, 5), Some(1), true)], trailers: false, win: WinScript::None, resp_len: 3 });
        // smuggling attempt: if the chunk-size line counted pad-length byte + padding (1 + 15), a backend would
        // end the first request inside the second frame and read the rest as a new request
        let evil = b"\r\n0\r\n\r\nGET /evil HTTP/1.1\r\nHost: localhost\r\n\r\n";
        let mut c2 = b"XXXXXXXXXX".to_vec();
        c2.extend_from_slice(evil);
        v.push(H2Spec { name: "smuggle-attempt", declare_length: false, frames: vec![d(b"A", Some(15), false), d(&c2, None, true)], trailers: false, win: WinScript::None, resp_len: 2 });
        v.push(H2Spec { name: "length-padded", declare_length: true, frames: vec![d(&pattern(6, 100), Some(9), false), d(&pattern(7, 50), Some(255), true)], trailers: false, win: WinScript::None, resp_len: 7 });
        v.push(H2Spec { name: "length-empty-end", declare_length: true, frames: vec![d(&pattern(8, 2000), None, false), d(b"", None, true)], trailers: false, win: WinScript::None, resp_len: 1 });
        v.push(H2Spec { name: "empty-body", declare_length: false, frames: vec![d(b"", None, true)], trailers: false, win: WinScript::None, resp_len: 4 });
        for (k, declare) in [(0usize, false), (1, true)] {
            let n = rng.range(2, 6) as usize;
            let mut frames = vec![];
            for i in 0..n {
                let len = if rng.chance(1, 5) { 0 } else { rng.range(1, 3000) as usize };
                let pad = match rng.below(3) {
                    0 => None,
                    1 => Some(rng.below(256) as u8),
                    _ => Some(rng.below(4) as u8),
                };
                frames.push(d(&pattern(20 + k * 10 + i, len), pad, i + 1 == n));
            }
            v.push(H2Spec { name: if declare { "random-length" } else { "random" }, declare_length: declare, frames, trailers: false, win: WinScript::None, resp_len: rng.range(0, 200) as usize });
        }
    }
    if prop == "C03" {
        v.push(H2Spec { name: "trailers", declare_length: false, frames: vec![d(&pattern(9, 40), Some(5), false)], trailers: true, win: WinScript::None, resp_len: 2 });
        v.push(H2Spec { name: "trailers-length", declare_length: true, frames: vec![d(&pattern(10, 40), None, false)], trailers: true, win: WinScript::None, resp_len: 2 });
    }
    if prop != "C03" {
        v.push(H2Spec { name: "settings-shrink", declare_length: false, frames: vec![d(b"q", None, true)], trailers: false, win: WinScript::Shrink { iw0: 20000, iw1: 5000, wu: 16000 }, resp_len: 50000 });
        v.push(H2Spec { name: "settings-grow", declare_length: false, frames: vec![d(b"q", None, true)], trailers: false, win: WinScript::Grow { iw1: 30000 }, resp_len: 50000 });
    }
    v
}

// ------------------------------ overlapping upload / download under back-pressure (h2c backend) --

#[derive(Clone, Debug)]
struct OverlapPlan {
    upload: usize,
    /// SO_RCVBUF of the backend's listening socket
    rcvbuf: usize,
    /// the backend reads the upload in bursts of this many bytes, then pauses
    burst: usize,
    pause: Duration,
    /// response DATA frames (1 KiB each) sent per pause while the upload is in flight
    frames_per_pause: usize,
}

#[derive(Default, Debug)]
struct OverlapReport {
    headers_seen: bool,
    upload_ok: usize,
    upload_done: bool,
    resp_sent: usize,
    resp_done: bool,
    frames: usize,
    /// `(class, detail)`: first violation found by the strict frame-level validation
    violation: Option<(String, String)>,
    error: Option<String>,
    goaway: Option<u32>,
    rst: Option<u32>,
}

fn upload_byte(i: usize) -> u8 {
    // long-period, position-dependent
    ((i.wrapping_mul(2654435761) >> 13) ^ (i >> 3)) as u8
}

fn resp_byte(i: usize) -> u8 {
    ((i.wrapping_mul(40503) >> 7) ^ i) as u8
}

/// h2c backend that answers early, keeps sending small response DATA frames while it reads
/// the upload in bursts through a small receive buffer, and validates every frame it gets
fn serve_h2c_overlap(be: MockBackend, plan: OverlapPlan) -> OverlapReport {
    let mut rep = OverlapReport::default();
    let mut c = match be.accept(T) {
        Ok(c) => c,
        Err(e) => {
            rep.error = Some(format!("accept: {e:?}"));
            return rep;
        }
    };
    let deadline = Instant::now() + Duration::from_secs(45);
    let mut pos = 0usize;
    let mut preface_done = false;
    let (mut peer_init, mut send_conn, mut send_stream): (i64, i64, i64) = (65535, 65535, 65535);
    let mut enc = loona_hpack::Encoder::new();
    let mut last_progress = Instant::now();
    let mut consumed_total = 0usize; // bytes dropped from the front of c.received
    'outer: loop {
        if Instant::now() > deadline {
            rep.error = Some("backend deadline".into());
            break;
        }
        if last_progress.elapsed() > Duration::from_secs(6) {
            rep.error = Some(format!("no progress for 6 s (upload {} of {}, response {} bytes sent)", rep.upload_ok, plan.upload, rep.resp_sent));
            break;
        }
        // one burst of reading
        let mut burst = 0usize;
        while burst < plan.burst {
            let before = c.received.len();
            match c.read_some_max(65536, Duration::from_millis(15)) {
                ReadEnd::Done => {
                    burst += c.received.len() - before;
                    last_progress = Instant::now();
                }
                ReadEnd::Timeout => break,
                ReadEnd::Closed | ReadEnd::Reset => {
                    if !rep.upload_done {
                        rep.error = Some("connection closed by sozu".into());
                    }
                    break 'outer;
                }
            }
        }
        // strict parsing
        loop {
            if !preface_done {
                if c.received.len() - pos < 24 {
                    break;
                }
                if &c.received[pos..pos + 24] != b"PRI * HTTP/2.0\r\n\r\nSM\r\n\r\n" {
                    rep.violation = Some(("h2-frame-sync-lost-mid-data".into(), "bad preface".into()));
                    break 'outer;
                }
                pos += 24;
                preface_done = true;
                let mut first = vec![];
                let mut st = vec![];
                st.extend_from_slice(&4u16.to_be_bytes());
                st.extend_from_slice(&(1u32 << 24).to_be_bytes());
                first.extend_from_slice(&frame(4, 0, 0, &st));
                first.extend_from_slice(&frame(8, 0, 0, &(1u32 << 24).to_be_bytes()));
                let _ = c.write_all(&first, T);
                continue;
            }
            if c.received.len() - pos < 9 {
                break;
            }
            let h = &c.received[pos..pos + 9];
            let len = ((h[0] as usize) << 16) | ((h[1] as usize) << 8) | h[2] as usize;
            let (ty, fl) = (h[3], h[4]);
            let raw_sid = u32::from_be_bytes([h[5], h[6], h[7], h[8]]);
            let sid = raw_sid & 0x7fff_ffff;
            let at = consumed_total + pos;
            let bad_shape = ty > 9
                || len > 16384
                || (sid != 0 && sid != 1)
                || (ty == 8 && len != 4)
                || (ty == 6 && len != 8)
                || (ty == 3 && len != 4)
                || (ty == 4 && len % 6 != 0)
                || (ty == 0 && sid == 0)
                || raw_sid & 0x8000_0000 != 0;
            if bad_shape {
                rep.violation = Some(("h2-frame-sync-lost-mid-data".into(), format!("wire offset {at}: not a frame header sozu can have meant: length {len} type {ty} flags {fl:#x} stream {raw_sid:#x} (after {} upload bytes, {} frames)", rep.upload_ok, rep.frames)));
                break 'outer;
            }
            if c.received.len() - pos - 9 < len {
                break;
            }
            let payload = &c.received[pos + 9..pos + 9 + len];
            rep.frames += 1;
            let mut reply = vec![];
            match ty {
                0 => {
                    for (k, b) in payload.iter().enumerate() {
                        if *b != upload_byte(rep.upload_ok + k) {
                            let off = rep.upload_ok + k;
                            let next: Vec<u8> = payload[k..payload.len().min(k + 13)].to_vec();
                            rep.violation = Some(("body-corrupted-under-backpressure".into(), format!("request body corrupted at offset {off} of {} (DATA frame #{}, byte {k} of {len}); next bytes {:02x?}", plan.upload, rep.frames, next)));
                            break 'outer;
                        }
                    }
                    rep.upload_ok += len;
                    if fl & 1 != 0 {
                        rep.upload_done = true;
                    }
                }
                1 => {
                    rep.headers_seen = true;
                    // answer early
                    let block = enc.encode(vec![(&b":status"[..], &b"200"[..])]);
                    reply.extend_from_slice(&frame(1, 4, 1, &block));
                }
                4 if fl & 1 == 0 => {
                    for e in payload.chunks(6) {
                        if e.len() == 6 && u16::from_be_bytes([e[0], e[1]]) == 4 {
                            let v = u32::from_be_bytes([e[2], e[3], e[4], e[5]]) as i64;
                            send_stream += v - peer_init;
                            peer_init = v;
                        }
                    }
                    reply.extend_from_slice(&frame(4, 1, 0, &[]));
                }
                8 => {
                    let inc = (u32::from_be_bytes([payload[0], payload[1], payload[2], payload[3]]) & 0x7fff_ffff) as i64;
                    if sid == 0 {
                        send_conn += inc;
                    } else {
                        send_stream += inc;
                    }
                }
                6 if fl & 1 == 0 => reply.extend_from_slice(&frame(6, 1, 0, payload)),
                3 => rep.rst = Some(u32::from_be_bytes([payload[0], payload[1], payload[2], payload[3]])),
                7 => rep.goaway = Some(u32::from_be_bytes([payload[4], payload[5], payload[6], payload[7]])),
                _ => {}
            }
            pos += 9 + len;
            if !reply.is_empty() {
                let _ = c.write_all(&reply, T);
            }
            // keep memory flat
            if pos > (1 << 20) {
                c.received.drain(..pos);
                consumed_total += pos;
                pos = 0;
            }
        }
        if rep.goaway.is_some() || rep.rst.is_some() {
            break;
        }
        // response DATA while the upload is in flight (inside sozu's windows), the last one ends the stream
        if rep.headers_seen && !rep.resp_done {
            for _ in 0..plan.frames_per_pause {
                let room = send_stream.min(send_conn);
                if room < 1024 {
                    break;
                }
                let chunk: Vec<u8> = (0..1024).map(|k| resp_byte(rep.resp_sent + k)).collect();
                let last = rep.upload_done;
                if c.write_all(&frame(0, last as u8, 1, &chunk), T).is_err() {
                    rep.error = Some("write response DATA".into());
                    break 'outer;
                }
                rep.resp_sent += 1024;
                send_stream -= 1024;
                send_conn -= 1024;
                if last {
                    rep.resp_done = true;
                    break;
                }
            }
        }
        if rep.resp_done {
            let _ = c.read_until_quiet(Duration::from_millis(50), Duration::from_millis(300));
            break;
        }
        std::thread::sleep(plan.pause);
    }
    rep
}

/// HTTP/1.1 client uploads while the h2c backend already answers; returns the case text
fn case_overlap_h2c(ctx: &mut Ctx, plan: &OverlapPlan, fails: &mut Vec<Fail>, dist: &mut BTreeMap<String, u64>) -> String {
    let mut last_case = String::new();
    for attempt in 0..4 {
        let (host, be) = route_h1(ctx, "o", true, ConnOpts { rcvbuf: Some(plan.rcvbuf), ..ConnOpts::default() });
        let case = format!("overlap-h2c host={host} upload={} rcvbuf={} burst={} pause={:?} resp_frames_per_pause={} attempt={attempt}", plan.upload, plan.rcvbuf, plan.burst, plan.pause, plan.frames_per_pause);
        last_case = case.clone();
        *dist.entry("overlap:h1-h2c".into()).or_insert(0) += 1;
        let p2 = plan.clone();
        let bt = std::thread::spawn(move || serve_h2c_overlap(be, p2));
        let mut c = connect_front(ctx.front);
        let wstream = setup("clone the client socket", || c.stream.try_clone().map_err(RigError::from));
        let upload = plan.upload;
        let host2 = host.clone();
        // writer thread: the whole upload, as fast as sozu takes it
        let wt = std::thread::spawn(move || -> Result<(), String> {
            let mut w = RawConn::from_stream(wstream);
            let head = format!("POST /up HTTP/1.1\r\nHost: {host2}\r\nContent-Length: {upload}\r\n\r\n");
            w.write_all(head.as_bytes(), Duration::from_secs(10)).map_err(|e| format!("head: {e:?}"))?;
            // let the backend handshake finish first: a body that streams in while the h2c connection
            // still waits for the backend's SETTINGS runs into the known 503 (F69)
            std::thread::sleep(Duration::from_millis(60));
            let mut off = 0;
            while off < upload {
                let n = (upload - off).min(1 << 16);
                let chunk: Vec<u8> = (off..off + n).map(upload_byte).collect();
                w.write_all(&chunk, Duration::from_secs(30)).map_err(|e| format!("client write at {off}: {e:?}"))?;
                off += n;
            }
            std::mem::forget(w); // the reader half owns the socket
            Ok(())
        });
        // wait for the answer, but not longer than the backend lives (+ a grace period)
        let resp_deadline = Instant::now() + Duration::from_secs(50);
        let mut backend_done_at: Option<Instant> = None;
        let resp = loop {
            match read_http_message(&mut c, Duration::from_millis(500)) {
                Ok(m) => break Ok(m),
                Err(e) => {
                    if !format!("{e:?}").contains("Timeout") {
                        break Err(e);
                    }
                    if bt.is_finished() && backend_done_at.is_none() {
                        backend_done_at = Some(Instant::now());
                    }
                    if backend_done_at.map(|t| t.elapsed() > Duration::from_millis(1500)).unwrap_or(false) || Instant::now() > resp_deadline {
                        break Err(e);
                    }
                }
            }
        };
        // unblock the writer if it is still pushing into a dead transfer
        let _ = c.stream.shutdown(std::net::Shutdown::Both);
        let wres = wt.join().unwrap_or(Err("writer thread".into()));
        let rep = bt.join().unwrap_or_default();
        if let Some((class, detail)) = &rep.violation {
            fails.push(Fail { class: class.clone(), detail: detail.clone(), case: case.clone() });
            c.close();
            return case;
        }
        // the known flaky modes of the H1 -> h2c path (F69-F71): record under their classes and retry
        let status = resp.as_ref().ok().and_then(|m| m.status());
        if !rep.headers_seen || rep.upload_ok == 0 {
            let class = if status == Some(503) { "h1-h2c-fresh-backend-connection-503" } else { "h1-h2c-request-aborted-no-answer" };
            if !fails.iter().any(|f| f.class == class) {
                fails.push(Fail { class: class.into(), detail: format!("overlap transfer did not start: status {status:?}, writer {wres:?}, backend {:?}", rep.error), case: case.clone() });
            }
            *dist.entry("overlap:retry".into()).or_insert(0) += 1;
            c.close();
            continue;
        }
        if !rep.upload_done {
            fails.push(Fail { class: "h1-h2c-overlap-upload-incomplete".into(), detail: format!("{} of {} upload bytes reached the backend (all of them correct); writer {wres:?}; backend {:?}; goaway {:?} rst {:?}; client got {:?}", rep.upload_ok, plan.upload, rep.error, rep.goaway, rep.rst, status), case: case.clone() });
            c.close();
            return case;
        }
        match resp {
            Ok(m) if m.status() == Some(200) => {
                let want: Vec<u8> = (0..rep.resp_sent).map(resp_byte).collect();
                cmp_body("response body at the client", &m.body, &want, "body-corrupted-under-backpressure", &case, fails);
            }
            Ok(m) => fails.push(Fail { class: "h1-h2c-transfer-failed".into(), detail: format!("status {}", m.start_line), case: case.clone() }),
            Err(e) => {
                let class = if format!("{e:?}").contains("Timeout") { "h1-h2c-response-stalled" } else { "h1-h2c-transfer-failed" };
                fails.push(Fail { class: class.into(), detail: format!("client read: {e:?} (backend sent {} response bytes, done={})", rep.resp_sent, rep.resp_done), case: case.clone() });
            }
        }
        c.close();
        return case;
    }
    last_case
}

// --------------- overlapping upload / download, TLS HTTP/2 client side (thorough) --

/// slow-reading TLS HTTP/2 client that uploads `upload` bytes while it downloads `download`
/// bytes from an HTTP/1.1 backend that answers at once; every frame is validated
fn case_overlap_h2front(ctx: &mut Ctx, tls: &mut TlsCtx, upload: usize, download: usize, read_chunk: usize, fails: &mut Vec<Fail>, dist: &mut BTreeMap<String, u64>) -> String {
    use std::io::{Read, Write};
    let (path, _cid, be) = route_tls(ctx, tls, "o", false);
    let case = format!("overlap-h2front path={path} upload={upload} download={download} client_read_chunk={read_chunk}");
    *dist.entry("overlap:h2tls-h1".into()).or_insert(0) += 1;
    let stop = std::sync::Arc::new(std::sync::atomic::AtomicBool::new(false));
    let stop_b = stop.clone();
    // backend: answers as soon as the head is there, streams the download while it reads the upload
    let bt = std::thread::spawn(move || -> Result<usize, String> {
        let mut b = be.accept(T).map_err(|e| format!("accept {e:?}"))?;
        if b.read_until(b"\r\n\r\n", T) != ReadEnd::Done {
            return Err("no request head".into());
        }
        let head_end = match find(&b.received, b"\r\n\r\n") {
            Some(i) => i + 4,
            None => return Err("no request head".into()),
        };
        let wstream = b.stream.try_clone().map_err(|e| e.to_string())?;
        let stop_w = stop_b.clone();
        let upload_done = std::sync::Arc::new(std::sync::atomic::AtomicBool::new(false));
        let upload_done_w = upload_done.clone();
        let wt = std::thread::spawn(move || {
            let mut w = RawConn::from_stream(wstream);
            let _ = w.write_all(format!("HTTP/1.1 200 OK\r\nContent-Length: {download}\r\n\r\n").as_bytes(), T);
            let mut off = 0;
            while off < download && !stop_w.load(std::sync::atomic::Ordering::Relaxed) {
                // the tail of the download is held back until the whole upload is in
                if download - off <= (1 << 16) && !upload_done_w.load(std::sync::atomic::Ordering::Relaxed) {
                    std::thread::sleep(Duration::from_millis(5));
                    continue;
                }
                let n = (download - off).min(1 << 16);
                let chunk: Vec<u8> = (off..off + n).map(resp_byte).collect();
                if w.write_all(&chunk, Duration::from_secs(20)).is_err() {
                    break;
                }
                off += n;
            }
            std::mem::forget(w);
        });
        // the upload: Content-Length framing, validated byte by byte
        let mut checked = 0usize;
        let until = Instant::now() + Duration::from_secs(60);
        while checked < upload && Instant::now() < until && !stop_b.load(std::sync::atomic::Ordering::Relaxed) {
            let _ = b.read_some(Duration::from_millis(100));
            let body = &b.received[head_end..];
            while checked < body.len().min(upload) {
                if body[checked] != upload_byte(checked) {
                    return Err(format!("corrupt:{checked}"));
                }
                checked += 1;
            }
            if b.eof || b.error.is_some() {
                break;
            }
        }
        if checked >= upload {
            upload_done.store(true, std::sync::atomic::Ordering::Relaxed);
        }
        let _ = wt.join();
        while !stop_b.load(std::sync::atomic::Ordering::Relaxed) && Instant::now() < until {
            let _ = b.read_some(Duration::from_millis(50));
        }
        Ok(checked)
    });
    let mut st = match tls_front(tls.front, Duration::from_millis(5)) {
        Ok(s) => s,
        Err(e) => {
            stop.store(true, std::sync::atomic::Ordering::Relaxed);
            fails.push(Fail { class: "h2front-transfer-failed".into(), detail: format!("tls connect: {e:?}"), case: case.clone() });
            return case;
        }
    };
    let mut hello = b"PRI * HTTP/2.0\r\n\r\nSM\r\n\r\n".to_vec();
    let mut settings = vec![];
    settings.extend_from_slice(&4u16.to_be_bytes());
    settings.extend_from_slice(&(1u32 << 28).to_be_bytes());
    hello.extend_from_slice(&frame(4, 0, 0, &settings));
    hello.extend_from_slice(&frame(8, 0, 0, &(1u32 << 28).to_be_bytes()));
    let mut enc = loona_hpack::Encoder::new();
    let cl = upload.to_string();
    let block = enc.encode(vec![(&b":method"[..], &b"POST"[..]), (b":scheme", b"https"), (b":path", path.as_bytes()), (b":authority", b"localhost"), (b"content-length", cl.as_bytes())]);
    hello.extend_from_slice(&frame(1, 4, 1, &block));
    // outgoing bytes are queued and pushed as the socket takes them (never block on a write)
    let mut txq: std::collections::VecDeque<u8> = hello.into_iter().collect();
    let (mut peer_init, mut send_conn, mut send_stream): (i64, i64, i64) = (65535, 65535, 65535);
    let mut up_off = 0usize;
    let mut rx: Vec<u8> = vec![];
    let mut pos = 0usize;
    let mut dropped = 0usize;
    let mut got = 0usize;
    let mut end_stream = false;
    let mut violation: Option<(String, String)> = None;
    let mut err: Option<String> = None;
    let deadline = Instant::now() + Duration::from_secs(60);
    let mut last_progress = Instant::now();
    let mut frames = 0usize;
    while violation.is_none() && err.is_none() && !end_stream && Instant::now() < deadline {
        if last_progress.elapsed() > Duration::from_secs(8) {
            err = Some(format!("no progress for 8 s: {got} of {download} downloaded, {up_off} of {upload} uploaded"));
            break;
        }
        // queue upload DATA inside sozu's windows
        while up_off < upload && txq.len() < (1 << 17) {
            let room = send_stream.min(send_conn).min(16384);
            if room <= 0 {
                break;
            }
            let n = (room as usize).min(upload - up_off);
            let chunk: Vec<u8> = (up_off..up_off + n).map(upload_byte).collect();
            let last = up_off + n == upload;
            txq.extend(frame(0, last as u8, 1, &chunk));
            up_off += n;
            send_stream -= n as i64;
            send_conn -= n as i64;
        }
        // write what the socket takes
        if !txq.is_empty() {
            let (a, _) = txq.as_slices();
            let take = a.len().min(1 << 15);
            match st.write(&a[..take]) {
                Ok(n) => {
                    txq.drain(..n);
                    if n > 0 {
                        last_progress = Instant::now();
                    }
                }
                Err(e) if e.kind() == std::io::ErrorKind::WouldBlock || e.kind() == std::io::ErrorKind::TimedOut => {}
                Err(e) => err = Some(format!("write: {e}")),
            }
            let _ = st.flush();
        }
        // slow reader
        let mut buf = vec![0u8; read_chunk];
        match st.read(&mut buf) {
            Ok(0) => err = Some("connection closed by sozu".into()),
            Ok(n) => {
                rx.extend_from_slice(&buf[..n]);
                last_progress = Instant::now();
            }
            Err(e) if e.kind() == std::io::ErrorKind::WouldBlock || e.kind() == std::io::ErrorKind::TimedOut => {}
            Err(e) => err = Some(format!("read: {e}")),
        }
        std::thread::sleep(Duration::from_micros(300));
        while rx.len() - pos >= 9 {
            let h = &rx[pos..pos + 9];
            let len = ((h[0] as usize) << 16) | ((h[1] as usize) << 8) | h[2] as usize;
            let (ty, fl) = (h[3], h[4]);
            let raw_sid = u32::from_be_bytes([h[5], h[6], h[7], h[8]]);
            let sid = raw_sid & 0x7fff_ffff;
            let bad = ty > 9 || len > 16384 || (sid != 0 && sid != 1) || raw_sid & 0x8000_0000 != 0 || (ty == 8 && len != 4) || (ty == 6 && len != 8) || (ty == 3 && len != 4) || (ty == 4 && len % 6 != 0) || (ty == 0 && sid == 0);
            if bad {
                violation = Some(("h2-frame-sync-lost-mid-data".into(), format!("wire offset {}: length {len} type {ty} flags {fl:#x} stream {raw_sid:#x} after {got} response body bytes, {frames} frames", dropped + pos)));
                break;
            }
            if rx.len() - pos - 9 < len {
                break;
            }
            let payload = &rx[pos + 9..pos + 9 + len];
            frames += 1;
            match ty {
                0 => {
                    for (k, b) in payload.iter().enumerate() {
                        if *b != resp_byte(got + k) {
                            violation = Some(("body-corrupted-under-backpressure".into(), format!("response body corrupted at offset {} of {download} (byte {k} of a {len}-byte DATA frame); next bytes {:02x?}", got + k, &payload[k..payload.len().min(k + 13)])));
                            break;
                        }
                    }
                    got += len;
                    if fl & 1 != 0 {
                        end_stream = true;
                    }
                }
                4 if fl & 1 == 0 => {
                    for e in payload.chunks(6) {
                        if e.len() == 6 && u16::from_be_bytes([e[0], e[1]]) == 4 {
                            let v = u32::from_be_bytes([e[2], e[3], e[4], e[5]]) as i64;
                            send_stream += v - peer_init;
                            peer_init = v;
                        }
                    }
                    txq.extend(frame(4, 1, 0, &[]));
                }
                8 => {
                    let inc = (u32::from_be_bytes([payload[0], payload[1], payload[2], payload[3]]) & 0x7fff_ffff) as i64;
                    if sid == 0 {
                        send_conn += inc;
                    } else {
                        send_stream += inc;
                    }
                }
                6 if fl & 1 == 0 => txq.extend(frame(6, 1, 0, payload)),
                1 => {
                    if fl & 1 != 0 {
                        end_stream = true;
                    }
                }
                3 => err = Some(format!("RST_STREAM {payload:?}")),
                7 => err = Some(format!("GOAWAY {:?}", &payload[4..8.min(payload.len())])),
                _ => {}
            }
            pos += 9 + len;
            if violation.is_some() {
                break;
            }
        }
        if pos > (1 << 20) {
            rx.drain(..pos);
            dropped += pos;
            pos = 0;
        }
    }
    stop.store(true, std::sync::atomic::Ordering::Relaxed);
    drop(st);
    let back = bt.join().unwrap_or(Err("backend thread".into()));
    if let Some((class, detail)) = violation {
        fails.push(Fail { class, detail, case: case.clone() });
        return case;
    }
    match &back {
        Err(e) if e.starts_with("corrupt:") => {
            fails.push(Fail { class: "body-corrupted-under-backpressure".into(), detail: format!("request body corrupted at the HTTP/1.1 backend at offset {}", &e[8..]), case: case.clone() });
            return case;
        }
        _ => {}
    }
    if let Some(e) = err {
        fails.push(Fail { class: "h2front-overlap-transfer-failed".into(), detail: format!("{e}; backend {back:?}"), case: case.clone() });
    } else if !end_stream || got != download {
        fails.push(Fail { class: "h2front-response-stalled".into(), detail: format!("{got} of {download} downloaded, {up_off} of {upload} uploaded, backend {back:?}"), case: case.clone() });
    } else if back != Ok(upload) {
        fails.push(Fail { class: "h2front-overlap-transfer-failed".into(), detail: format!("backend validated {back:?} of {upload} upload bytes"), case: case.clone() });
    }
    case
}

// ---------------------------------------------------------------- strict HPACK peer --

/// A decoder that enforces RFC 7541 §4.2 / §6.3 on top of `loona_hpack::Decoder`: after a
/// SETTINGS_HEADER_TABLE_SIZE that lowers the size, the next header block must begin with a
/// dynamic-table-size update; an update never exceeds the last acknowledged SETTINGS value;
/// the table stays in step over the whole connection (later indexed fields decode correctly).
struct StrictHpack {
    dec: loona_hpack::Decoder<'static>,
    /// SETTINGS values sent and not yet acknowledged
    pending: std::collections::VecDeque<u32>,
    /// last acknowledged SETTINGS_HEADER_TABLE_SIZE (4096 before any)
    setting: u32,
    /// smallest acknowledged value since the last header block, if any SETTINGS was acknowledged
    owed: Option<u32>,
    /// table size the encoder last announced (4096 initially)
    cur: u32,
    blocks: usize,
    /// a growth that was acknowledged but never announced (legal only if the encoder keeps the old size)
    unannounced_growth: bool,
}

impl StrictHpack {
    fn new() -> Self {
        StrictHpack { dec: loona_hpack::Decoder::new(), pending: Default::default(), setting: 4096, owed: None, cur: 4096, blocks: 0, unannounced_growth: false }
    }
    fn sent(&mut self, v: u32) {
        self.pending.push_back(v);
    }
    fn acked(&mut self) {
        if let Some(v) = self.pending.pop_front() {
            self.setting = v;
            self.owed = Some(self.owed.map(|o| o.min(v)).unwrap_or(v));
        }
    }
    /// decode one complete header block
    fn block(&mut self, b: &[u8]) -> Result<Vec<(Vec<u8>, Vec<u8>)>, (String, String)> {
        self.blocks += 1;
        // leading dynamic-table-size updates (001xxxxx, 5-bit prefix integer)
        let mut i = 0;
        let mut updates: Vec<u64> = vec![];
        while i < b.len() && b[i] & 0xe0 == 0x20 {
            let mut v = (b[i] & 0x1f) as u64;
            i += 1;
            if v == 0x1f {
                let mut shift = 0;
                loop {
                    if i >= b.len() || shift > 35 {
                        return Err(("hpack-tables-out-of-sync".into(), "truncated size-update integer".into()));
                    }
                    let o = b[i];
                    i += 1;
                    v += ((o & 0x7f) as u64) << shift;
                    shift += 7;
                    if o & 0x80 == 0 {
                        break;
                    }
                }
            }
            updates.push(v);
        }
        let head: Vec<String> = b.iter().take(6).map(|x| format!("{x:02x}")).collect();
        for u in &updates {
            if *u > self.setting as u64 {
                return Err(("hpack-size-update-exceeds-setting".into(), format!("header block #{} announces table size {u}, the last acknowledged SETTINGS_HEADER_TABLE_SIZE is {} (block starts {})", self.blocks, self.setting, head.join(" "))));
            }
        }
        if let Some(owed) = self.owed.take() {
            match updates.first() {
                None if owed < self.cur => {
                    return Err(("hpack-size-update-missing".into(), format!("SETTINGS_HEADER_TABLE_SIZE {owed} was acknowledged (table size in use {}), but header block #{} does not start with a dynamic-table-size update (it starts {})", self.cur, self.blocks, head.join(" "))));
                }
                None => {
                    if owed > self.cur {
                        self.unannounced_growth = true;
                    }
                }
                Some(first) => {
                    // the first update must get down to the smallest value in between
                    if *first > owed as u64 && owed < self.cur {
                        return Err(("hpack-size-update-missing".into(), format!("first size update {first} does not go down to the acknowledged {owed}")));
                    }
                }
            }
        }
        if let Some(last) = updates.last() {
            self.cur = *last as u32;
        }
        self.dec.set_max_allowed_table_size(self.setting.max(self.cur) as usize);
        match self.dec.decode(b) {
            Ok(list) => Ok(list),
            Err(e) => Err(("hpack-tables-out-of-sync".into(), format!("header block #{} does not decode: {e:?} (table size announced {}, SETTINGS {}, unannounced growth: {}; block starts {})", self.blocks, self.cur, self.setting, self.unannounced_growth, head.join(" ")))),
        }
    }
}

/// `n` header fields that fill about 1.9 KB of dynamic table (unique per `set`)
fn bulky_headers(set: usize) -> Vec<(String, String)> {
    (0..10).map(|k| (format!("x-set{set}-h{k}"), format!("{}", "v".repeat(120) + &format!("-{set}-{k}")))).collect()
}

fn settings_frame(entries: &[(u16, u32)]) -> Vec<u8> {
    let mut p = vec![];
    for (id, v) in entries {
        p.extend_from_slice(&id.to_be_bytes());
        p.extend_from_slice(&v.to_be_bytes());
    }
    frame(4, 0, 0, &p)
}

#[derive(Clone, Debug)]
enum HpStep {
    /// SETTINGS_HEADER_TABLE_SIZE while the connection is idle; waits for the ACK
    Setting(u32),
    /// one request whose message carries header set `set`; `during`: send that SETTINGS while the
    /// body transfer of this exchange is in progress
    Request { set: usize, body: usize, during: Option<u32> },
}

// ---- front side: TLS HTTP/2 client decodes sozu's response header blocks

fn case_front_hpack(ctx: &mut Ctx, tls: &mut TlsCtx, name: &str, start: Option<u32>, steps: &[HpStep], fails: &mut Vec<Fail>, dist: &mut BTreeMap<String, u64>) -> String {
    use std::io::{Read, Write};
    let (path, _cid, be) = route_tls(ctx, tls, "h", false);
    let case = format!("hpack-front[{name}] path={path} start={start:?} steps={steps:?}");
    *dist.entry(format!("hpack-front:{name}")).or_insert(0) += 1;
    let reqs: Vec<(usize, usize)> = steps.iter().filter_map(|s| if let HpStep::Request { set, body, .. } = s { Some((*set, *body)) } else { None }).collect();
    let stop = std::sync::Arc::new(std::sync::atomic::AtomicBool::new(false));
    let stop_b = stop.clone();
    let reqs_b = reqs.clone();
    let bt = std::thread::spawn(move || {
        let mut conn: Option<RawConn> = None;
        for (set, body) in reqs_b {
            if conn.is_none() {
                conn = be.accept(T).ok();
            }
            let Some(b) = conn.as_mut() else { return };
            if read_http_message(b, Duration::from_secs(6)).is_err() {
                return;
            }
            let mut out = b"HTTP/1.1 200 OK\r\n".to_vec();
            for (k, v) in bulky_headers(set) {
                out.extend_from_slice(format!("{k}: {v}\r\n").as_bytes());
            }
            out.extend_from_slice(format!("Content-Length: {body}\r\n\r\n").as_bytes());
            out.extend((0..body).map(resp_byte));
            if b.write_all(&out, Duration::from_secs(6)).is_err() {
                return;
            }
        }
        // (an accept loop never outlives its case by much, even when the case ends on a set-up panic)
        let born = Instant::now();
        while !stop_b.load(std::sync::atomic::Ordering::Relaxed) && born.elapsed() < Duration::from_secs(30) {
            std::thread::sleep(Duration::from_millis(5));
        }
    });
    let finish = |fails: &mut Vec<Fail>, class: &str, detail: String| fails.push(Fail { class: class.into(), detail, case: case.clone() });
    let mut st = match tls_front(tls.front, Duration::from_millis(40)) {
        Ok(s) => s,
        Err(e) => {
            stop.store(true, std::sync::atomic::Ordering::Relaxed);
            finish(fails, "h2front-transfer-failed", format!("tls connect: {e:?}"));
            return case;
        }
    };
    let mut hp = StrictHpack::new();
    let mut hello = b"PRI * HTTP/2.0\r\n\r\nSM\r\n\r\n".to_vec();
    // a small stream window keeps a download "in progress" until the client opens it
    let mut entries: Vec<(u16, u32)> = vec![(4, 30000)];
    if let Some(v) = start {
        entries.push((1, v));
    }
    // every SETTINGS frame is acknowledged once: track them all, table size or not
    hello.extend_from_slice(&settings_frame(&entries));
    hp.sent(start.unwrap_or(4096));
    hello.extend_from_slice(&frame(8, 0, 0, &(1u32 << 24).to_be_bytes()));
    if st.write_all(&hello).and_then(|_| st.flush()).is_err() {
        stop.store(true, std::sync::atomic::Ordering::Relaxed);
        finish(fails, "h2front-transfer-failed", "write hello".into());
        return case;
    }
    let mut enc = loona_hpack::Encoder::new();
    let mut rx: Vec<u8> = vec![];
    let mut pos = 0usize;
    let mut sid = 1u32;
    let mut acks_seen = 0usize;
    let mut verdict: Option<(String, String)> = None;
    // pump: read frames until `done(..)`; returns false on timeout / error
    let mut block: Vec<u8> = vec![];
    'steps: for step in steps {
        let (want_acks, request) = match step {
            HpStep::Setting(v) => {
                let _ = st.write_all(&settings_frame(&[(1, *v)])).and_then(|_| st.flush());
                hp.sent(*v);
                (acks_seen + 1, None)
            }
            HpStep::Request { set, body, during } => {
                let hs: Vec<(&[u8], &[u8])> = vec![(b":method", b"GET"), (b":scheme", b"https"), (b":path", path.as_bytes()), (b":authority", b"localhost")];
                let blk = enc.encode(hs);
                let _ = st.write_all(&frame(1, 4 | 1, sid, &blk)).and_then(|_| st.flush());
                (0, Some((*set, *body, *during)))
            }
        };
        let deadline = Instant::now() + Duration::from_secs(5);
        let mut got = 0usize;
        let mut headers_ok = false;
        let mut during_sent = false;
        let mut opened = false;
        let mut ended = false;
        loop {
            if Instant::now() > deadline {
                verdict = Some(("h2front-response-stalled".into(), format!("step {step:?}: {got} body bytes, headers {headers_ok}, acks {acks_seen}")));
                break 'steps;
            }
            match request {
                None => {
                    if acks_seen >= want_acks {
                        // let the pass that carried the ACK finish
                        std::thread::sleep(Duration::from_millis(20));
                        break;
                    }
                }
                Some(_) => {
                    if ended {
                        break;
                    }
                }
            }
            let mut buf = [0u8; 16384];
            match st.read(&mut buf) {
                Ok(0) => {
                    verdict = Some(("h2front-transfer-failed".into(), format!("connection closed by sozu at step {step:?}")));
                    break 'steps;
                }
                Ok(n) => rx.extend_from_slice(&buf[..n]),
                Err(e) if e.kind() == std::io::ErrorKind::WouldBlock || e.kind() == std::io::ErrorKind::TimedOut => {}
                Err(e) => {
                    verdict = Some(("h2front-transfer-failed".into(), format!("read: {e}")));
                    break 'steps;
                }
            }
            let mut out = vec![];
            while rx.len() - pos >= 9 {
                let h = &rx[pos..pos + 9];
                let len = ((h[0] as usize) << 16) | ((h[1] as usize) << 8) | h[2] as usize;
                let (ty, fl) = (h[3], h[4]);
                if rx.len() - pos - 9 < len {
                    break;
                }
                let payload = rx[pos + 9..pos + 9 + len].to_vec();
                pos += 9 + len;
                match ty {
                    4 if fl & 1 == 0 => out.extend_from_slice(&frame(4, 1, 0, &[])),
                    4 => {
                        acks_seen += 1;
                        hp.acked();
                    }
                    6 if fl & 1 == 0 => out.extend_from_slice(&frame(6, 1, 0, &payload)),
                    1 | 9 => {
                        block.extend_from_slice(&payload);
                        if fl & 4 != 0 {
                            let b = std::mem::take(&mut block);
                            match hp.block(&b) {
                                Err(v) => {
                                    verdict = Some(v);
                                    break 'steps;
                                }
                                Ok(list) => {
                                    if let Some((set, _, _)) = request {
                                        let status = list.iter().any(|(k, v)| k == b":status" && v == b"200");
                                        let missing: Vec<String> = bulky_headers(set).into_iter().filter(|(k, v)| !list.iter().any(|(a, b)| a == k.as_bytes() && b == v.as_bytes())).map(|(k, _)| k).collect();
                                        if !status || !missing.is_empty() {
                                            verdict = Some(("hpack-tables-out-of-sync".into(), format!("response header block #{} decodes to the wrong fields: status 200 present {status}, backend fields missing {missing:?}; decoded names {:?}", hp.blocks, list.iter().map(|(k, _)| String::from_utf8_lossy(k).to_string()).collect::<Vec<_>>())));
                                            break 'steps;
                                        }
                                        headers_ok = true;
                                    }
                                }
                            }
                        }
                        if ty == 1 && fl & 1 != 0 {
                            ended = true;
                        }
                    }
                    0 => {
                        got += len;
                        if fl & 1 != 0 {
                            ended = true;
                        }
                    }
                    3 | 7 => {
                        verdict = Some(("h2front-transfer-failed".into(), format!("frame type {ty} payload {payload:?} at step {step:?}")));
                        break 'steps;
                    }
                    _ => {}
                }
            }
            if let Some((_, body, during)) = request {
                // the download is in progress (stalled on the 30000-byte window): change the table size now
                if let Some(v) = during {
                    if !during_sent && got >= 30000.min(body) {
                        out.extend_from_slice(&settings_frame(&[(1, v)]));
                        hp.sent(v);
                        during_sent = true;
                    }
                }
                let settings_done = during.is_none() || (during_sent && hp.pending.is_empty());
                if !opened && settings_done && (got >= 30000.min(body) || headers_ok) {
                    out.extend_from_slice(&frame(8, 0, sid, &(1u32 << 24).to_be_bytes()));
                    opened = true;
                }
            }
            if !out.is_empty() {
                let _ = st.write_all(&out).and_then(|_| st.flush());
            }
        }
        if request.is_some() {
            sid += 2;
        }
    }
    stop.store(true, std::sync::atomic::Ordering::Relaxed);
    drop(st);
    let _ = bt.join();
    if let Some((class, detail)) = verdict {
        finish(fails, &class, detail);
    }
    case
}

// ---- back side: a scripted h2c backend decodes sozu's request header blocks

/// TLS HTTP/2 client that performs the `Request` steps (one stream each) when the backend gives
/// the go-ahead; returns an error text if an exchange did not complete with 200
fn drive_h2_requests<R>(front: std::net::SocketAddr, path: &str, steps: &[HpStep], turn: &std::sync::atomic::AtomicUsize, bt: &std::thread::JoinHandle<R>) -> Option<String> {
    use std::io::{Read, Write};
    let mut st = match tls_front(front, Duration::from_millis(30)) {
        Ok(s) => s,
        Err(e) => return Some(format!("tls connect: {e:?}")),
    };
    let mut hello = b"PRI * HTTP/2.0\r\n\r\nSM\r\n\r\n".to_vec();
    hello.extend_from_slice(&settings_frame(&[(4, 1 << 20)]));
    hello.extend_from_slice(&frame(8, 0, 0, &(1u32 << 24).to_be_bytes()));
    if st.write_all(&hello).and_then(|_| st.flush()).is_err() {
        return Some("write hello".into());
    }
    let mut enc = loona_hpack::Encoder::new();
    let mut dec = loona_hpack::Decoder::new();
    let (mut peer_init, mut send_conn): (i64, i64) = (65535, 65535);
    let mut rx: Vec<u8> = vec![];
    let mut pos = 0usize;
    let mut sid = 1u32;
    for (i, step) in steps.iter().enumerate() {
        let HpStep::Request { set, body, .. } = step else { continue };
        let until = Instant::now() + Duration::from_secs(8);
        while turn.load(std::sync::atomic::Ordering::SeqCst) < i + 1 && Instant::now() < until && !bt.is_finished() {
            std::thread::sleep(Duration::from_millis(2));
        }
        if bt.is_finished() {
            return None;
        }
        let p = format!("{path}/r{i}");
        let cl = body.to_string();
        let bulky = bulky_headers(*set);
        let mut hs: Vec<(&[u8], &[u8])> = vec![(b":method", b"POST"), (b":scheme", b"https"), (b":path", p.as_bytes()), (b":authority", b"localhost"), (b"content-length", cl.as_bytes())];
        for (k, v) in &bulky {
            hs.push((k.as_bytes(), v.as_bytes()));
        }
        let blk = enc.encode(hs);
        let mut out = frame(1, 4, sid, &blk);
        let payload: Vec<u8> = (0..*body).map(upload_byte).collect();
        let mut send_stream = peer_init;
        let mut off = 0usize;
        let mut ended = false;
        let mut status = false;
        let deadline = Instant::now() + Duration::from_secs(6);
        let mut sent_end = false;
        while !ended {
            if Instant::now() > deadline {
                return Some(format!("request {i}: Timeout ({off} of {body} body bytes sent, response headers {status})"));
            }
            while off < payload.len() || !sent_end {
                let room = send_stream.min(send_conn).min(16384);
                if room <= 0 && off < payload.len() {
                    break;
                }
                let n = (room.max(0) as usize).min(payload.len() - off);
                let last = off + n == payload.len();
                out.extend_from_slice(&frame(0, last as u8, sid, &payload[off..off + n]));
                off += n;
                send_stream -= n as i64;
                send_conn -= n as i64;
                if last {
                    sent_end = true;
                    break;
                }
            }
            if !out.is_empty() {
                if st.write_all(&out).and_then(|_| st.flush()).is_err() {
                    // rustls may have buffered part of it: keep flushing
                    let _ = st.flush();
                }
                out.clear();
            }
            let mut buf = [0u8; 16384];
            match st.read(&mut buf) {
                Ok(0) => return Some(format!("request {i}: connection closed by sozu")),
                Ok(n) => rx.extend_from_slice(&buf[..n]),
                Err(e) if e.kind() == std::io::ErrorKind::WouldBlock || e.kind() == std::io::ErrorKind::TimedOut => {}
                Err(e) => return Some(format!("request {i}: read {e}")),
            }
            while rx.len() - pos >= 9 {
                let h = &rx[pos..pos + 9];
                let len = ((h[0] as usize) << 16) | ((h[1] as usize) << 8) | h[2] as usize;
                let (ty, fl) = (h[3], h[4]);
                let fsid = u32::from_be_bytes([h[5], h[6], h[7], h[8]]) & 0x7fff_ffff;
                if rx.len() - pos - 9 < len {
                    break;
                }
                let pl = rx[pos + 9..pos + 9 + len].to_vec();
                pos += 9 + len;
                match ty {
                    4 if fl & 1 == 0 => {
                        for e in pl.chunks(6) {
                            if e.len() == 6 && u16::from_be_bytes([e[0], e[1]]) == 4 {
                                let v = u32::from_be_bytes([e[2], e[3], e[4], e[5]]) as i64;
                                send_stream += v - peer_init;
                                peer_init = v;
                            }
                        }
                        out.extend_from_slice(&frame(4, 1, 0, &[]));
                    }
                    8 => {
                        let inc = (u32::from_be_bytes([pl[0], pl[1], pl[2], pl[3]]) & 0x7fff_ffff) as i64;
                        if fsid == 0 {
                            send_conn += inc;
                        } else if fsid == sid {
                            send_stream += inc;
                        }
                    }
                    6 if fl & 1 == 0 => out.extend_from_slice(&frame(6, 1, 0, &pl)),
                    1 => {
                        if let Ok(list) = dec.decode(&pl) {
                            if let Some((_, v)) = list.iter().find(|(k, _)| k == b":status") {
                                if v != b"200" {
                                    return Some(format!("request {i}: status {}", String::from_utf8_lossy(v)));
                                }
                                status = true;
                            }
                        }
                        if fl & 1 != 0 {
                            ended = true;
                        }
                    }
                    0 => {
                        if fl & 1 != 0 {
                            ended = true;
                        }
                    }
                    3 => return Some(format!("request {i}: RST_STREAM {pl:?}")),
                    7 => return Some(format!("request {i}: GOAWAY {pl:?}")),
                    _ => {}
                }
            }
        }
        if !status {
            return Some(format!("request {i}: no :status"));
        }
        sid += 2;
    }
    None
}

fn case_back_hpack(ctx: &mut Ctx, tls: Option<&mut TlsCtx>, name: &str, start: Option<u32>, steps: &[HpStep], fails: &mut Vec<Fail>, dist: &mut BTreeMap<String, u64>) -> String {
    let mut last = String::new();
    let mut tls = tls;
    for attempt in 0..3 {
        let mut tls_path = String::new();
        let (host, be) = match tls.as_deref_mut() {
            None => route_h1(ctx, "k", true, ConnOpts::default()),
            Some(t) => {
                // several streams of one TLS HTTP/2 session share one h2c backend connection
                let (path, cid, be) = route_tls(ctx, t, "k", true);
                tls_path = path;
                (format!("{cid}.tls"), be)
            }
        };
        let driver = if tls.is_some() { "h2tls" } else { "h1" };
        let case = format!("hpack-back[{name}/{driver}] host={host} start={start:?} steps={steps:?} attempt={attempt}");
        last = case.clone();
        *dist.entry(format!("hpack-back:{name}")).or_insert(0) += 1;
        // step synchronisation: the client performs request i only when the backend allows it
        let turn = std::sync::Arc::new(std::sync::atomic::AtomicUsize::new(0));
        let turn_b = turn.clone();
        let steps_b: Vec<HpStep> = steps.to_vec();
        let bt = std::thread::spawn(move || -> (Option<(String, String)>, usize, Option<String>) {
            let turn_b0 = turn_b.clone();
            if matches!(steps_b.first(), Some(HpStep::Request { .. })) {
                turn_b0.store(1, std::sync::atomic::Ordering::SeqCst);
            }
            let mut c = match be.accept(T) {
                Ok(c) => c,
                Err(e) => return (None, 0, Some(format!("accept: {e:?}"))),
            };
            let mut hp = StrictHpack::new();
            let mut enc = loona_hpack::Encoder::new();
            let mut pos = 0usize;
            let mut preface = false;
            let mut block: Vec<u8> = vec![];
            let mut served = 0usize;
            let mut acks = 0usize;
            let deadline = Instant::now() + Duration::from_secs(12);
            let mut step_i = 0usize;
            // what the current request step expects
            let mut cur: Option<(usize, usize, Option<u32>)> = None;
            // sozu connects only once the first request is there: that one needs no go-ahead
            if let Some(HpStep::Request { set, body, during }) = steps_b.first() {
                cur = Some((*set, *body, *during));
                turn_b.store(1, std::sync::atomic::Ordering::SeqCst);
            }
            let mut during_sent = false;
            let mut want_acks: Option<usize> = None;
            let mut body_got = 0usize;
            loop {
                if Instant::now() > deadline {
                    return (None, served, Some(format!("backend deadline at step {step_i}")));
                }
                // advance the script when nothing is in flight
                if preface && cur.is_none() && want_acks.is_none() {
                    if step_i >= steps_b.len() {
                        let _ = c.read_until_quiet(Duration::from_millis(30), Duration::from_millis(200));
                        return (None, served, None);
                    }
                    match &steps_b[step_i] {
                        HpStep::Setting(v) => {
                            let _ = c.write_all(&settings_frame(&[(1, *v)]), T);
                            hp.sent(*v);
                            want_acks = Some(acks + 1);
                        }
                        HpStep::Request { set, body, during } => {
                            cur = Some((*set, *body, *during));
                            during_sent = false;
                            body_got = 0;
                            turn_b.store(step_i + 1, std::sync::atomic::Ordering::SeqCst);
                        }
                    }
                }
                if let Some(w) = want_acks {
                    if acks >= w {
                        std::thread::sleep(Duration::from_millis(20));
                        want_acks = None;
                        step_i += 1;
                        continue;
                    }
                }
                match c.read_some_max(1 << 16, Duration::from_millis(50)) {
                    ReadEnd::Closed | ReadEnd::Reset => return (None, served, Some("connection closed by sozu".into())),
                    _ => {}
                }
                loop {
                    if !preface {
                        if c.received.len() - pos < 24 {
                            break;
                        }
                        pos += 24;
                        preface = true;
                        let mut entries: Vec<(u16, u32)> = vec![(4, 1 << 20)];
                        if let Some(v) = start {
                            entries.push((1, v));
                        }
                        let mut first = settings_frame(&entries);
                        hp.sent(start.unwrap_or(4096));
                        first.extend_from_slice(&frame(8, 0, 0, &(1u32 << 24).to_be_bytes()));
                        let _ = c.write_all(&first, T);
                        continue;
                    }
                    if c.received.len() - pos < 9 {
                        break;
                    }
                    let h = &c.received[pos..pos + 9];
                    let len = ((h[0] as usize) << 16) | ((h[1] as usize) << 8) | h[2] as usize;
                    let (ty, fl) = (h[3], h[4]);
                    let sid = u32::from_be_bytes([h[5], h[6], h[7], h[8]]) & 0x7fff_ffff;
                    if c.received.len() - pos - 9 < len {
                        break;
                    }
                    let payload = c.received[pos + 9..pos + 9 + len].to_vec();
                    pos += 9 + len;
                    if std::env::var("E2E_TRACE").is_ok() {
                        eprintln!("hpack-backend <- type={ty} flags={fl:#x} sid={sid} len={len}");
                    }
                    let mut end_of_request = false;
                    match ty {
                        4 if fl & 1 == 0 => {
                            let _ = c.write_all(&frame(4, 1, 0, &[]), T);
                        }
                        4 => {
                            acks += 1;
                            hp.acked();
                        }
                        6 if fl & 1 == 0 => {
                            let _ = c.write_all(&frame(6, 1, 0, &payload), T);
                        }
                        1 | 9 => {
                            block.extend_from_slice(&payload);
                            if fl & 4 != 0 {
                                let b = std::mem::take(&mut block);
                                match hp.block(&b) {
                                    Err(v) => return (Some(v), served, None),
                                    Ok(list) => {
                                        if let Some((set, _, _)) = cur {
                                            let missing: Vec<String> = bulky_headers(set).into_iter().filter(|(k, v)| !list.iter().any(|(a, b)| a == k.as_bytes() && b == v.as_bytes())).map(|(k, _)| k).collect();
                                            let method = list.iter().any(|(k, _)| k == b":method");
                                            if !missing.is_empty() || !method {
                                                return (Some(("hpack-tables-out-of-sync".into(), format!("request header block #{} decodes to the wrong fields: :method present {method}, client fields missing {missing:?}; decoded names {:?}", hp.blocks, list.iter().map(|(k, _)| String::from_utf8_lossy(k).to_string()).collect::<Vec<_>>()))), served, None);
                                            }
                                        }
                                    }
                                }
                            }
                            if ty == 1 && fl & 1 != 0 {
                                end_of_request = true;
                            }
                        }
                        0 => {
                            body_got += len;
                            let mut out = frame(8, 0, 0, &(len.max(1) as u32).to_be_bytes());
                            if fl & 1 == 0 {
                                out.extend_from_slice(&frame(8, 0, sid, &(len.max(1) as u32).to_be_bytes()));
                            }
                            if let Some((_, _, Some(v))) = cur {
                                if !during_sent {
                                    // the upload is in progress: change the table size now
                                    out.extend_from_slice(&settings_frame(&[(1, v)]));
                                    hp.sent(v);
                                    during_sent = true;
                                }
                            }
                            let _ = c.write_all(&out, T);
                            if fl & 1 != 0 {
                                end_of_request = true;
                            }
                        }
                        3 | 7 => return (None, served, Some(format!("frame type {ty} from sozu: {payload:?}"))),
                        _ => {}
                    }
                    if end_of_request {
                        let blockr = enc.encode(vec![(&b":status"[..], &b"200"[..]), (&b"content-length"[..], &b"2"[..])]);
                        let mut out = frame(1, 4, sid, &blockr);
                        out.extend_from_slice(&frame(0, 1, sid, b"ok"));
                        let _ = c.write_all(&out, T);
                        let _ = body_got;
                        served += 1;
                        cur = None;
                        step_i += 1;
                    }
                }
            }
        });
        let mut client_err: Option<String> = None;
        let mut status503 = false;
        if let Some(t) = tls.as_deref_mut() {
            client_err = drive_h2_requests(t.front, &tls_path, steps, &turn, &bt);
        }
        // the HTTP/1.1 client: one connection, request i when the backend says so
        let mut c = connect_front(ctx.front);
        let mut first = true;
        for (i, step) in steps.iter().enumerate() {
            if tls.is_some() {
                break;
            }
            let HpStep::Request { set, body, .. } = step else { continue };
            let until = Instant::now() + Duration::from_secs(8);
            while turn.load(std::sync::atomic::Ordering::SeqCst) < i + 1 && Instant::now() < until && !bt.is_finished() {
                std::thread::sleep(Duration::from_millis(2));
            }
            if bt.is_finished() {
                break;
            }
            let mut head = format!("POST /r{i} HTTP/1.1\r\nHost: {host}\r\nContent-Length: {body}\r\n");
            for (k, v) in bulky_headers(*set) {
                head.push_str(&format!("{k}: {v}\r\n"));
            }
            head.push_str("\r\n");
            if let Err(e) = c.write_all(head.as_bytes(), T) {
                client_err = Some(format!("write head {i}: {e:?}"));
                break;
            }
            if first {
                // see F69: let the backend handshake finish before the body streams in
                std::thread::sleep(Duration::from_millis(60));
                first = false;
            }
            let payload: Vec<u8> = (0..*body).map(upload_byte).collect();
            if let Err(e) = c.write_all(&payload, Duration::from_secs(6)) {
                client_err = Some(format!("write body {i}: {e:?}"));
                break;
            }
            match read_http_message(&mut c, Duration::from_secs(6)) {
                Ok(m) if m.status() == Some(200) => {}
                Ok(m) => {
                    status503 = m.status() == Some(503);
                    client_err = Some(format!("response {i}: {}", m.start_line));
                    break;
                }
                Err(e) => {
                    client_err = Some(format!("read response {i}: {e:?}"));
                    break;
                }
            }
        }
        let (verdict, served, berr) = bt.join().unwrap_or((None, 0, Some("backend thread".into())));
        c.close();
        if let Some((class, detail)) = verdict {
            fails.push(Fail { class, detail, case: case.clone() });
            return case;
        }
        if client_err.is_none() && berr.is_none() {
            return case;
        }
        // the known flaky modes of the H1 -> h2c path: record under their classes, retry
        let class = if status503 {
            "h1-h2c-fresh-backend-connection-503"
        } else if served == 0 {
            "h1-h2c-request-aborted-no-answer"
        } else if client_err.as_deref().map(|e| e.contains("Timeout")).unwrap_or(false) {
            "h1-h2c-response-stalled"
        } else {
            "h1-h2c-hpack-exchange-failed"
        };
        if !fails.iter().any(|f| f.class == class) {
            fails.push(Fail { class: class.into(), detail: format!("client {client_err:?}, backend {berr:?}, {served} requests served"), case: case.clone() });
        }
        if class == "h1-h2c-hpack-exchange-failed" {
            return case;
        }
        *dist.entry("hpack-back:retry".into()).or_insert(0) += 1;
    }
    last
}

// --------------------------------------- receiver-side ledger (h2front, C14) --
//
// The client keeps the ledger of the receive windows sozu ADVERTISES: the connection window
// (65535 + every WINDOW_UPDATE on stream 0) and one window per stream (sozu's
// SETTINGS_INITIAL_WINDOW_SIZE + WINDOW_UPDATEs on the stream), minus every flow-controlled
// byte it sends; it never sends beyond them. Uploads that sozu accepts are mixed with uploads
// pipelined behind HEADERS that sozu rejects / resets while the body is still in flight. Every
// DATA byte, whatever happens to its stream, consumes connection window and must be given back.

#[derive(Clone, Copy, Debug, PartialEq)]
enum RxStep {
    /// well-formed POST of `n` bytes, must be answered 200
    Accept(usize),
    /// HEADERS sozu has to reject (cause), with up to `n` body bytes written right behind them
    Reject(&'static str, usize),
}

struct LedgerClient {
    st: TlsStream,
    rx: Vec<u8>,
    pos: usize,
    enc: loona_hpack::Encoder<'static>,
    dec: loona_hpack::Decoder<'static>,
    /// sozu's SETTINGS_INITIAL_WINDOW_SIZE
    peer_init: i64,
    /// what is left of the connection window sozu advertised
    conn_avail: i64,
    stream_avail: BTreeMap<u32, i64>,
    /// sum of the WINDOW_UPDATE(0) increments
    conn_credit: i64,
    sent_total: i64,
    data_started: bool,
    /// 65535 + the connection credit received before the first DATA byte: sozu's full window
    full_window: i64,
    rst: BTreeMap<u32, u32>,
    status: BTreeMap<u32, String>,
    ended: std::collections::BTreeSet<u32>,
    goaway: Option<(u32, u32)>,
    settings_seen: bool,
    settings_acked: bool,
    closed: Option<String>,
    out: Vec<u8>,
    /// response DATA by stream
    bodies: BTreeMap<u32, Vec<u8>>,
    /// receive side: `Some((stream window, connection window))` the client advertised; it then keeps
    /// the ledger of what sozu sends and replenishes at half
    recv_limits: Option<(i64, i64)>,
    recv_conn_left: i64,
    recv_stream_left: BTreeMap<u32, i64>,
    recv_violations: Vec<String>,
    /// streams the client has reset: their DATA still counts against the connection window only
    cancelled: std::collections::BTreeSet<u32>,
    ping_acks: Vec<Vec<u8>>,
    /// `(type, flags, stream, length)` of the last frames written, oldest first (evidence when sozu calls them malformed)
    sent_log: std::collections::VecDeque<(u8, u8, u32, usize)>,
}

impl LedgerClient {
    fn new(st: TlsStream) -> LedgerClient {
        LedgerClient {
            st, rx: vec![], pos: 0, enc: loona_hpack::Encoder::new(), dec: loona_hpack::Decoder::new(), peer_init: 65535, conn_avail: 65535,
            stream_avail: BTreeMap::new(), conn_credit: 0, sent_total: 0, data_started: false, full_window: 65535, rst: BTreeMap::new(),
            status: BTreeMap::new(), ended: Default::default(), goaway: None, settings_seen: false, settings_acked: false, closed: None, out: vec![],
            bodies: BTreeMap::new(), recv_limits: None, recv_conn_left: 0, recv_stream_left: BTreeMap::new(), recv_violations: vec![],
            cancelled: Default::default(), ping_acks: vec![], sent_log: Default::default(),
        }
    }

    /// advertise `iw` per stream (SETTINGS in the hello is the caller's job) and `conn` on the connection, and keep the ledger
    fn track_recv(&mut self, iw: i64, conn: i64) {
        self.recv_limits = Some((iw, conn));
        self.recv_conn_left = conn;
    }

    /// wait for sozu's SETTINGS and the ACK of ours. Nothing at all within 5 s on a connection that is
    /// still open is a set-up failure of the rig (loaded machine), not a verdict about a transfer.
    fn handshake(&mut self) {
        let t = Instant::now();
        while !(self.settings_seen && self.settings_acked) && t.elapsed() < Duration::from_secs(5) && !self.over() {
            self.pump();
        }
        if !self.settings_seen && !self.over() {
            inconclusive("HTTP/2 settings exchange", "no SETTINGS from sozu within 5 s of the TLS handshake");
        }
    }

    fn flush(&mut self) {
        use std::io::Write;
        if !self.out.is_empty() {
            let mut p = 0usize;
            while self.out.len() >= p + 9 {
                let h = &self.out[p..p + 9];
                let len = ((h[0] as usize) << 16) | ((h[1] as usize) << 8) | h[2] as usize;
                self.sent_log.push_back((h[3], h[4], u32::from_be_bytes([h[5], h[6], h[7], h[8]]), len));
                if self.sent_log.len() > 16 {
                    self.sent_log.pop_front();
                }
                p += 9 + len;
            }
            if p != self.out.len() {
                // never happens with the builders above; recorded rather than asserted
                self.sent_log.push_back((0xff, 0, 0, self.out.len()));
            }
            if self.st.write_all(&self.out).and_then(|_| self.st.flush()).is_err() {
                let _ = self.st.flush();
            }
            self.out.clear();
        }
    }

    /// one socket read (bounded by the stream's io timeout) and everything it completes
    fn pump(&mut self) {
        use std::io::Read;
        self.flush();
        let mut buf = [0u8; 16384];
        match self.st.read(&mut buf) {
            Ok(0) => self.closed = Some("connection closed by sozu".into()),
            Ok(n) => self.rx.extend_from_slice(&buf[..n]),
            Err(e) if e.kind() == std::io::ErrorKind::WouldBlock || e.kind() == std::io::ErrorKind::TimedOut => {}
            Err(e) => self.closed = Some(format!("read: {e}")),
        }
        while self.rx.len() - self.pos >= 9 {
            let h = &self.rx[self.pos..self.pos + 9];
            let len = ((h[0] as usize) << 16) | ((h[1] as usize) << 8) | h[2] as usize;
            let (ty, fl) = (h[3], h[4]);
            let sid = u32::from_be_bytes([h[5], h[6], h[7], h[8]]) & 0x7fff_ffff;
            if self.rx.len() - self.pos - 9 < len {
                break;
            }
            let pl = self.rx[self.pos + 9..self.pos + 9 + len].to_vec();
            self.pos += 9 + len;
            match ty {
                4 if fl & 1 == 0 => {
                    for e in pl.chunks(6) {
                        if e.len() == 6 && u16::from_be_bytes([e[0], e[1]]) == 4 {
                            let v = u32::from_be_bytes([e[2], e[3], e[4], e[5]]) as i64;
                            for w in self.stream_avail.values_mut() {
                                *w += v - self.peer_init;
                            }
                            self.peer_init = v;
                        }
                    }
                    self.settings_seen = true;
                    self.out.extend_from_slice(&frame(4, 1, 0, &[]));
                }
                4 => self.settings_acked = true,
                8 if pl.len() == 4 => {
                    let inc = (u32::from_be_bytes([pl[0], pl[1], pl[2], pl[3]]) & 0x7fff_ffff) as i64;
                    if sid == 0 {
                        self.conn_avail += inc;
                        self.conn_credit += inc;
                        if !self.data_started {
                            self.full_window += inc;
                        }
                    } else if let Some(w) = self.stream_avail.get_mut(&sid) {
                        *w += inc;
                    }
                }
                6 if fl & 1 == 0 => self.out.extend_from_slice(&frame(6, 1, 0, &pl)),
                1 => {
                    if let Ok(list) = self.dec.decode(&pl) {
                        if let Some((_, v)) = list.iter().find(|(k, _)| k == b":status") {
                            self.status.insert(sid, String::from_utf8_lossy(v).into_owned());
                        }
                    }
                    if fl & 1 != 0 {
                        self.ended.insert(sid);
                    }
                }
                0 => {
                    if let Some((iw, conn)) = self.recv_limits {
                        let n = pl.len() as i64;
                        self.recv_conn_left -= n;
                        if self.recv_conn_left < 0 {
                            self.recv_violations.push(format!("DATA of {n} bytes on stream {sid} leaves the connection window at {}", self.recv_conn_left));
                        }
                        if self.recv_conn_left <= conn / 2 {
                            let inc = conn - self.recv_conn_left;
                            self.recv_conn_left += inc;
                            self.out.extend_from_slice(&frame(8, 0, 0, &(inc as u32).to_be_bytes()));
                        }
                        if !self.cancelled.contains(&sid) {
                            let left = self.recv_stream_left.entry(sid).or_insert(iw);
                            *left -= n;
                            if *left < 0 {
                                self.recv_violations.push(format!("DATA of {n} bytes leaves the window of stream {sid} at {left}"));
                            }
                            if *left <= iw / 2 && fl & 1 == 0 {
                                let inc = iw - *left;
                                *left += inc;
                                self.out.extend_from_slice(&frame(8, 0, sid, &(inc as u32).to_be_bytes()));
                            }
                        }
                    }
                    if !self.cancelled.contains(&sid) {
                        self.bodies.entry(sid).or_default().extend_from_slice(&pl);
                    }
                    if fl & 1 != 0 {
                        self.ended.insert(sid);
                    }
                }
                6 if fl & 1 != 0 => self.ping_acks.push(pl.clone()),
                3 if pl.len() == 4 => {
                    self.rst.insert(sid, u32::from_be_bytes([pl[0], pl[1], pl[2], pl[3]]));
                }
                7 if pl.len() >= 8 => {
                    self.goaway = Some((u32::from_be_bytes([pl[0], pl[1], pl[2], pl[3]]) & 0x7fff_ffff, u32::from_be_bytes([pl[4], pl[5], pl[6], pl[7]])));
                }
                _ => {}
            }
        }
        self.flush();
    }

    fn over(&self) -> bool {
        self.closed.is_some() || self.goaway.is_some()
    }

    /// queue DATA for `sid` from `payload[*off..]`, as much as both advertised windows allow;
    /// returns true when the last byte (with END_STREAM) is queued
    fn send_data(&mut self, sid: u32, payload: &[u8], off: &mut usize, end_stream: bool) -> bool {
        loop {
            let sw = *self.stream_avail.get(&sid).unwrap_or(&0);
            let room = sw.min(self.conn_avail).min(16384);
            let left = payload.len() - *off;
            if left == 0 {
                if end_stream {
                    self.out.extend_from_slice(&frame(0, 1, sid, &[]));
                }
                return true;
            }
            if room <= 0 {
                return false;
            }
            let n = (room as usize).min(left);
            let last = n == left;
            self.out.extend_from_slice(&frame(0, (last && end_stream) as u8, sid, &payload[*off..*off + n]));
            *off += n;
            *self.stream_avail.entry(sid).or_insert(0) -= n as i64;
            self.conn_avail -= n as i64;
            self.sent_total += n as i64;
            self.data_started = true;
            if last {
                return true;
            }
        }
    }
}

fn rxledger_scenarios() -> Vec<(&'static str, Vec<RxStep>, usize)> {
    use RxStep::*;
    let full = 65535usize;
    vec![
        // control: nothing rejected
        ("accepted-only", vec![Accept(30000), Accept(100000), Accept(1)], 200_000),
        // one cause, many times, body pipelined behind the HEADERS (the window would be gone after 16)
        ("authority-mismatch-x16", (0..16).map(|_| Reject("authority-mismatch", full)).collect(), 200_000),
        // several causes mixed with accepted uploads
        (
            "mixed-causes",
            vec![
                Accept(30000), Reject("authority-mismatch", full), Reject("content-length-overrun", full), Accept(70000),
                Reject("uppercase-header-name", full), Reject("connection-header", full), Reject("missing-path", full),
                Reject("content-length-overrun", full), Accept(16384), Reject("te-not-trailers", full), Reject("authority-mismatch", full),
                Reject("uppercase-header-name", full), Reject("content-length-overrun", full), Reject("missing-path", full),
                Reject("connection-header", full), Reject("authority-mismatch", 20000),
            ],
            200_000,
        ),
        // small bodies behind rejected HEADERS, many of them
        ("many-small", (0..40).map(|i| if i % 5 == 4 { Accept(5000) } else { Reject(["authority-mismatch", "content-length-overrun", "missing-path", "uppercase-header-name"][i % 4], 12000) }).collect(), 300_000),
    ]
}

fn case_front_rxledger(ctx: &mut Ctx, tls: &mut TlsCtx, name: &str, steps: &[RxStep], final_upload: usize, fails: &mut Vec<Fail>, dist: &mut BTreeMap<String, u64>) -> String {
    use std::io::Write;
    let (path, _cid, be) = route_tls(ctx, tls, "w", false);
    let n_rej = steps.iter().filter(|s| matches!(s, RxStep::Reject(..))).count();
    let case = format!("rx-ledger[{name}] path={path} steps={} ({} rejected) final_upload={final_upload}", steps.len(), n_rej);
    *dist.entry(format!("rx-ledger:{name}")).or_insert(0) += 1;
    let stop = std::sync::Arc::new(std::sync::atomic::AtomicBool::new(false));
    let stop_b = stop.clone();
    // backend: every complete request is answered 200 "ok"; any number of connections
    let bt = std::thread::spawn(move || {
        let mut handlers = vec![];
        // (an accept loop never outlives its case by much, even when the case ends on a set-up panic)
        let born = Instant::now();
        while !stop_b.load(std::sync::atomic::Ordering::Relaxed) && born.elapsed() < Duration::from_secs(30) {
            if let Ok(mut b) = be.accept(Duration::from_millis(50)) {
                let stop_c = stop_b.clone();
                handlers.push(std::thread::spawn(move || {
                    while !stop_c.load(std::sync::atomic::Ordering::Relaxed) {
                        match read_http_message(&mut b, Duration::from_millis(300)) {
                            Ok(_) => {
                                if b.write_all(b"HTTP/1.1 200 OK\r\nContent-Length: 2\r\n\r\nok", T).is_err() {
                                    return;
                                }
                            }
                            Err(e) => {
                                if !format!("{e:?}").contains("Timeout") || b.received.len() > b.parsed {
                                    // closed, reset, or a request cut short by a reset stream
                                    if !format!("{e:?}").contains("Timeout") {
                                        return;
                                    }
                                }
                            }
                        }
                    }
                }));
            }
        }
        for h in handlers {
            let _ = h.join();
        }
    });
    let done = |stop: &std::sync::Arc<std::sync::atomic::AtomicBool>| stop.store(true, std::sync::atomic::Ordering::Relaxed);
    let st = match tls_front(tls.front, Duration::from_millis(20)) {
        Ok(s) => s,
        Err(e) => {
            done(&stop);
            fails.push(Fail { class: "h2front-transfer-failed".into(), detail: format!("tls connect: {e:?}"), case: case.clone() });
            return case;
        }
    };
    let mut cl = LedgerClient::new(st);
    let mut hello = b"PRI * HTTP/2.0\r\n\r\nSM\r\n\r\n".to_vec();
    hello.extend_from_slice(&settings_frame(&[(4, 1 << 20)]));
    hello.extend_from_slice(&frame(8, 0, 0, &(1u32 << 24).to_be_bytes()));
    if cl.st.write_all(&hello).and_then(|_| cl.st.flush()).is_err() {
        done(&stop);
        fails.push(Fail { class: "h2front-transfer-failed".into(), detail: "write hello".into(), case: case.clone() });
        return case;
    }
    // sozu's SETTINGS, its initial connection WINDOW_UPDATE and the ACK of ours, before any DATA
    cl.handshake();
    for _ in 0..3 {
        cl.pump();
    }
    let mut sid = 1u32;
    let mut rejected_bytes: i64 = 0;
    let mut outcomes: Vec<String> = vec![];
    let mut problem: Option<(String, String)> = None;
    let mut all: Vec<(RxStep, bool)> = steps.iter().map(|s| (*s, false)).collect();
    all.push((RxStep::Accept(final_upload), true));
    for (i, (step, is_final)) in all.iter().enumerate() {
        if cl.over() {
            break;
        }
        let p = format!("{path}/u{i}");
        let (n, cause) = match step {
            RxStep::Accept(n) => (*n, None),
            RxStep::Reject(c, n) => (*n, Some(*c)),
        };
        let cls = n.to_string();
        let mut hs: Vec<(&[u8], &[u8])> = vec![(b":method", b"POST"), (b":scheme", b"https")];
        if cause != Some("missing-path") {
            hs.push((b":path", p.as_bytes()));
        }
        hs.push((b":authority", b"localhost"));
        match cause {
            Some("authority-mismatch") => hs.push((b"host", b"other.example")),
            Some("uppercase-header-name") => hs.push((b"X-Upper", b"1")),
            Some("connection-header") => hs.push((b"connection", b"keep-alive")),
            Some("te-not-trailers") => hs.push((b"te", b"gzip")),
            _ => {}
        }
        if cause == Some("content-length-overrun") {
            hs.push((b"content-length", b"10"));
        } else {
            hs.push((b"content-length", cls.as_bytes()));
        }
        let blk = cl.enc.encode(hs);
        cl.out.extend_from_slice(&frame(1, 4, sid, &blk));
        cl.stream_avail.insert(sid, cl.peer_init);
        let payload: Vec<u8> = (0..n).map(upload_byte).collect();
        let mut off = 0usize;
        let before = cl.sent_total;
        let deadline = Instant::now() + Duration::from_secs(if cause.is_some() { 3 } else { 8 });
        let mut queued_all = false;
        loop {
            // a rejected stream: the client stops once it has seen the reset / the final answer
            let rejected_seen = cl.rst.contains_key(&sid) || cl.ended.contains(&sid);
            if cause.is_some() && rejected_seen {
                break;
            }
            if cause.is_none() && (cl.ended.contains(&sid) || cl.rst.contains_key(&sid)) {
                break;
            }
            if !queued_all {
                queued_all = cl.send_data(sid, &payload, &mut off, true);
            }
            if cl.over() {
                break;
            }
            if Instant::now() > deadline {
                break;
            }
            cl.pump();
        }
        let sent_here = cl.sent_total - before;
        let st_txt = cl.status.get(&sid).cloned();
        let outcome = format!(
            "#{i} stream {sid} {}: sent {sent_here}/{n}, {}{}",
            cause.unwrap_or("accept"),
            match cl.rst.get(&sid) {
                Some(c) => format!("RST_STREAM({c})"),
                None => "no reset".into(),
            },
            st_txt.as_ref().map(|s| format!(", :status {s}")).unwrap_or_default()
        );
        if let Some(c) = cause {
            rejected_bytes += sent_here;
            let kind = if cl.rst.contains_key(&sid) { "rst" } else if st_txt.is_some() { "status" } else { "silent" };
            *dist.entry(format!("rx-ledger:outcome:{c}:{kind}")).or_insert(0) += 1;
        } else {
            let ok = st_txt.as_deref() == Some("200") && cl.ended.contains(&sid) && off == n;
            if !ok && problem.is_none() && !cl.over() {
                let blocked = off < n && cl.stream_avail.get(&sid).copied().unwrap_or(0).min(cl.conn_avail) <= 0;
                let class = if blocked && rejected_bytes > 0 {
                    "h2-front-upload-stalled-after-rejected-streams"
                } else if blocked {
                    "h2-front-upload-stalled"
                } else {
                    "h2front-transfer-failed"
                };
                problem = Some((class.into(), format!(
                    "{} upload of {n} bytes did not complete: {off} bytes sent, then blocked={blocked} (connection window left {}, stream window left {:?}); {outcome}",
                    if *is_final { "the final" } else { "an accepted" }, cl.conn_avail, cl.stream_avail.get(&sid)
                )));
            }
        }
        outcomes.push(outcome);
        sid += 2;
        if problem.is_some() {
            break;
        }
    }
    // let the last WINDOW_UPDATEs arrive
    let t_settle = Instant::now();
    while t_settle.elapsed() < Duration::from_millis(150) && !cl.over() {
        cl.pump();
    }
    done(&stop);
    let _ = bt.join();
    let outstanding = cl.full_window - cl.conn_avail;
    let ledger = format!(
        "sozu's connection window {} (65535 + {} before the first DATA byte); {} flow-controlled bytes sent, {} of them on {} streams sozu rejected; WINDOW_UPDATE(0) credit received {}; window left {} => {} bytes not given back",
        cl.full_window, cl.full_window - 65535, cl.sent_total, rejected_bytes, n_rej, cl.conn_credit, cl.conn_avail, outstanding
    );
    if let Some((ge, code)) = cl.goaway {
        // a connection error ends the scenario: report it unless it is the flood defence (C15's subject)
        if code != 11 {
            fails.push(Fail { class: "h2-front-goaway-during-rejected-uploads".into(), detail: format!("GOAWAY(last={ge}, error={code}); {}; {ledger}", outcomes.join(" | ")), case: case.clone() });
        } else {
            *dist.entry("rx-ledger:enhance-your-calm".into()).or_insert(0) += 1;
        }
        return case;
    }
    if let Some(c) = &cl.closed {
        fails.push(Fail { class: "h2front-transfer-failed".into(), detail: format!("{c}; {}; {ledger}", outcomes.join(" | ")), case: case.clone() });
        return case;
    }
    if let Some((class, detail)) = problem {
        fails.push(Fail { class, detail: format!("{detail}; {ledger}; last steps: {}", outcomes.iter().rev().take(4).cloned().collect::<Vec<_>>().join(" | ")), case: case.clone() });
    }
    // sozu replenishes when half of its window has been consumed: at rest, less than half is out
    if outstanding > cl.full_window / 2 {
        fails.push(Fail {
            class: "h2-front-connection-window-not-replenished".into(),
            detail: format!("at rest more than half of the advertised connection window is missing: {ledger}; steps: {}", outcomes.iter().take(6).cloned().collect::<Vec<_>>().join(" | ")),
            case: case.clone(),
        });
    }
    if std::env::var("E2E_RXLEDGER_TRACE").is_ok() {
        eprintln!("{case}\n  {ledger}\n  {}", outcomes.join("\n  "));
    }
    case
}

// ------------------------------------ backend stream limit (C14 / C02 / C01) --
//
// A TLS HTTP/2 client with k concurrent streams -> sozu -> an h2c backend that advertises
// SETTINGS_MAX_CONCURRENT_STREAMS = N and holds its first N answers for a while. sozu must
// never have more than N streams open on one backend connection, and must still serve every
// request (second connection to the same healthy backend), bodies intact.

#[derive(Default)]
struct LimitShared {
    /// requests completely received, over all connections (decides who is held)
    arrivals: usize,
    connections: usize,
    max_open: usize,
    violations: Vec<String>,
    /// request bodies by request index (from the path)
    bodies: BTreeMap<usize, Vec<u8>>,
    rst: Vec<(usize, u32, u32)>,
    errors: Vec<String>,
    /// streams sozu opened before it acknowledged the backend's SETTINGS (not bound by N yet)
    opened_before_ack: usize,
}

fn bsl_req_body(idx: usize, len: usize) -> Vec<u8> {
    pattern(40 + idx, len)
}

fn bsl_resp_body(idx: usize) -> Vec<u8> {
    pattern(90 + idx, 150 + 7 * (idx % 13))
}

fn serve_limit_conn(mut c: RawConn, conn_no: usize, n: u32, hold: Duration, shared: std::sync::Arc<std::sync::Mutex<LimitShared>>, stop: std::sync::Arc<std::sync::atomic::AtomicBool>) {
    let mut pos = 0usize;
    let mut preface = false;
    // RFC 9113 6.5.3: our SETTINGS bind sozu from its ACK on; streams it opened before (the limit
    // is "unlimited" until then) still count as open afterwards
    let mut acked = false;
    let mut open: std::collections::BTreeSet<u32> = Default::default();
    let mut idx_of: BTreeMap<u32, usize> = BTreeMap::new();
    let mut body_of: BTreeMap<u32, Vec<u8>> = BTreeMap::new();
    let mut block: Option<(u32, Vec<u8>, bool)> = None; // header block being collected (sid, bytes, end_stream)
    let mut pending: Vec<(u32, Instant)> = vec![];
    let mut enc = loona_hpack::Encoder::new();
    let mut dec = loona_hpack::Decoder::new();
    let note = |s: &std::sync::Arc<std::sync::Mutex<LimitShared>>, f: &mut dyn FnMut(&mut LimitShared)| {
        if let Ok(mut g) = s.lock() {
            f(&mut g)
        }
    };
    while !stop.load(std::sync::atomic::Ordering::Relaxed) {
        // parse
        loop {
            if !preface {
                if c.received.len() - pos < 24 {
                    break;
                }
                if &c.received[pos..pos + 24] != b"PRI * HTTP/2.0\r\n\r\nSM\r\n\r\n" {
                    note(&shared, &mut |g| g.errors.push(format!("connection {conn_no}: bad preface")));
                    return;
                }
                pos += 24;
                preface = true;
                let mut first = settings_frame(&[(3, n), (4, 1 << 20)]);
                first.extend_from_slice(&frame(8, 0, 0, &(1u32 << 24).to_be_bytes()));
                if c.write_all(&first, T).is_err() {
                    return;
                }
                continue;
            }
            if c.received.len() - pos < 9 {
                break;
            }
            let h = &c.received[pos..pos + 9];
            let len = ((h[0] as usize) << 16) | ((h[1] as usize) << 8) | h[2] as usize;
            let (ty, fl) = (h[3], h[4]);
            let sid = u32::from_be_bytes([h[5], h[6], h[7], h[8]]) & 0x7fff_ffff;
            if c.received.len() - pos - 9 < len {
                break;
            }
            let pl = c.received[pos + 9..pos + 9 + len].to_vec();
            pos += 9 + len;
            let mut complete: Option<u32> = None;
            match ty {
                4 if fl & 1 == 0 => {
                    let _ = c.write_all(&frame(4, 1, 0, &[]), T);
                }
                4 => acked = true,
                6 if fl & 1 == 0 => {
                    let _ = c.write_all(&frame(6, 1, 0, &pl), T);
                }
                1 | 9 => {
                    if ty == 1 {
                        open.insert(sid);
                        let now_open = open.len();
                        note(&shared, &mut |g| {
                            if acked {
                                g.max_open = g.max_open.max(now_open);
                            } else {
                                g.opened_before_ack += 1;
                            }
                            if acked && now_open > n as usize {
                                g.violations.push(format!("connection {conn_no}: HEADERS of stream {sid} makes {now_open} concurrently open streams, SETTINGS_MAX_CONCURRENT_STREAMS is {n}"));
                            }
                        });
                        // priority fields are not sent by sozu; padding neither
                        block = Some((sid, pl.clone(), fl & 1 != 0));
                    } else if let Some(b) = block.as_mut() {
                        b.1.extend_from_slice(&pl);
                    }
                    if fl & 4 != 0 {
                        if let Some((bsid, bytes, es)) = block.take() {
                            match dec.decode(&bytes) {
                                Ok(list) => {
                                    let path = list.iter().find(|(k, _)| k == b":path").map(|(_, v)| String::from_utf8_lossy(v).into_owned()).unwrap_or_default();
                                    let idx = path.rsplit("/r").next().and_then(|t| t.parse::<usize>().ok()).unwrap_or(usize::MAX);
                                    idx_of.insert(bsid, idx);
                                }
                                Err(e) => note(&shared, &mut |g| g.errors.push(format!("connection {conn_no}: header block of stream {bsid} does not decode: {e:?}"))),
                            }
                            if es {
                                complete = Some(bsid);
                            }
                        }
                    }
                }
                0 => {
                    body_of.entry(sid).or_default().extend_from_slice(&pl);
                    if fl & 1 != 0 {
                        complete = Some(sid);
                    }
                }
                3 if pl.len() == 4 => {
                    open.remove(&sid);
                    pending.retain(|p| p.0 != sid);
                    let code = u32::from_be_bytes([pl[0], pl[1], pl[2], pl[3]]);
                    note(&shared, &mut |g| g.rst.push((conn_no, sid, code)));
                }
                7 => return,
                _ => {}
            }
            if let Some(s) = complete {
                let idx = idx_of.get(&s).copied().unwrap_or(usize::MAX);
                let body = body_of.remove(&s).unwrap_or_default();
                let mut held = false;
                note(&shared, &mut |g| {
                    held = g.arrivals < n as usize;
                    g.arrivals += 1;
                    g.bodies.insert(idx, body.clone());
                });
                pending.push((s, Instant::now() + if held { hold } else { Duration::ZERO }));
            }
        }
        // answer what is due
        let now = Instant::now();
        let due: Vec<u32> = pending.iter().filter(|p| p.1 <= now).map(|p| p.0).collect();
        pending.retain(|p| p.1 > now);
        for s in due {
            let idx = idx_of.get(&s).copied().unwrap_or(0);
            let rb = bsl_resp_body(idx);
            let cl = rb.len().to_string();
            let tag = idx.to_string();
            let hs: Vec<(&[u8], &[u8])> = vec![(b":status", b"200"), (b"content-length", cl.as_bytes()), (b"x-req", tag.as_bytes())];
            let blk = enc.encode(hs);
            let mut out = frame(1, 4, s, &blk);
            out.extend_from_slice(&frame(0, 1, s, &rb));
            open.remove(&s);
            if c.write_all(&out, T).is_err() {
                return;
            }
        }
        match c.read_some(Duration::from_millis(10)) {
            ReadEnd::Done | ReadEnd::Timeout => {}
            ReadEnd::Closed | ReadEnd::Reset => return,
        }
    }
}

fn backend_stream_limit_scenarios(front_limit_hint: usize) -> Vec<(u32, usize)> {
    let mut v = vec![];
    for n in [1u32, 2, 3, 100] {
        for k in [n as usize - 1, n as usize, n as usize + 1, 2 * n as usize + 1] {
            // the client itself honours sozu's own SETTINGS_MAX_CONCURRENT_STREAMS
            if k >= 1 && k <= front_limit_hint && !v.contains(&(n, k)) {
                v.push((n, k));
            }
        }
    }
    v
}

fn case_backend_stream_limit(ctx: &mut Ctx, tls: &mut TlsCtx, n: u32, k: usize, fails: &mut Vec<Fail>, dist: &mut BTreeMap<String, u64>) -> String {
    use std::io::Write;
    let (path, _cid, be) = route_tls(ctx, tls, "m", true);
    let hold = Duration::from_millis(if n >= 100 { 250 } else { 350 });
    let req_len = if n >= 100 { 300 } else { 3000 };
    let case = format!("backend-stream-limit path={path} backend MAX_CONCURRENT_STREAMS={n} client streams={k} (first {} held {:?}) req_body={req_len}+idx", (n as usize).min(k), hold);
    *dist.entry(format!("backend-stream-limit:n{n}")).or_insert(0) += 1;
    let stop = std::sync::Arc::new(std::sync::atomic::AtomicBool::new(false));
    let shared = std::sync::Arc::new(std::sync::Mutex::new(LimitShared::default()));
    let (stop_b, shared_b) = (stop.clone(), shared.clone());
    let bt = std::thread::spawn(move || {
        let mut handlers = vec![];
        // (an accept loop never outlives its case by much, even when the case ends on a set-up panic)
        let born = Instant::now();
        while !stop_b.load(std::sync::atomic::Ordering::Relaxed) && born.elapsed() < Duration::from_secs(30) {
            if let Ok(c) = be.accept(Duration::from_millis(20)) {
                let no = {
                    let mut g = shared_b.lock().unwrap_or_else(|e| e.into_inner());
                    g.connections += 1;
                    g.connections
                };
                let (s2, st2) = (shared_b.clone(), stop_b.clone());
                handlers.push(std::thread::spawn(move || serve_limit_conn(c, no, n, hold, s2, st2)));
            }
        }
        for h in handlers {
            let _ = h.join();
        }
    });
    let done = |stop: &std::sync::Arc<std::sync::atomic::AtomicBool>| stop.store(true, std::sync::atomic::Ordering::Relaxed);
    let st = match tls_front(tls.front, Duration::from_millis(10)) {
        Ok(s) => s,
        Err(e) => {
            done(&stop);
            let _ = bt.join();
            fails.push(Fail { class: "h2tls-h2c-transfer-failed".into(), detail: format!("tls connect: {e:?}"), case: case.clone() });
            return case;
        }
    };
    let mut cl = LedgerClient::new(st);
    let mut hello = b"PRI * HTTP/2.0\r\n\r\nSM\r\n\r\n".to_vec();
    hello.extend_from_slice(&settings_frame(&[(4, 1 << 20)]));
    hello.extend_from_slice(&frame(8, 0, 0, &(1u32 << 24).to_be_bytes()));
    if cl.st.write_all(&hello).and_then(|_| cl.st.flush()).is_err() {
        done(&stop);
        let _ = bt.join();
        fails.push(Fail { class: "h2tls-h2c-transfer-failed".into(), detail: "write hello".into(), case: case.clone() });
        return case;
    }
    cl.handshake();
    let t_start = Instant::now();
    let mut sids: Vec<u32> = vec![];
    let mut answered_at: BTreeMap<u32, Duration> = BTreeMap::new();
    let send_request = |cl: &mut LedgerClient, idx: usize| -> u32 {
        let sid = 1 + 2 * idx as u32;
        let p = format!("{path}/r{idx}");
        let body = bsl_req_body(idx, req_len + idx);
        let cls = body.len().to_string();
        let hs: Vec<(&[u8], &[u8])> = vec![(b":method", b"POST"), (b":scheme", b"https"), (b":path", p.as_bytes()), (b":authority", b"localhost"), (b"content-length", cls.as_bytes())];
        let blk = cl.enc.encode(hs);
        cl.out.extend_from_slice(&frame(1, 4, sid, &blk));
        cl.stream_avail.insert(sid, cl.peer_init);
        let mut off = 0usize;
        let _ = cl.send_data(sid, &body, &mut off, true);
        cl.flush();
        sid
    };
    // first batch: as many as the backend allows on one connection; once it holds them all, the rest
    let first = (n as usize).min(k);
    for idx in 0..first {
        sids.push(send_request(&mut cl, idx));
    }
    let t_wait = Instant::now();
    while t_wait.elapsed() < Duration::from_millis(1500) && !cl.over() {
        let arrived = shared.lock().map(|g| g.arrivals).unwrap_or(0);
        if arrived >= first {
            break;
        }
        cl.pump();
    }
    for idx in first..k {
        sids.push(send_request(&mut cl, idx));
    }
    let deadline = Instant::now() + Duration::from_secs(5);
    loop {
        for s in &sids {
            if (cl.ended.contains(s) || cl.rst.contains_key(s)) && !answered_at.contains_key(s) {
                answered_at.insert(*s, t_start.elapsed());
            }
        }
        if answered_at.len() == sids.len() || cl.over() || Instant::now() > deadline {
            break;
        }
        cl.pump();
    }
    done(&stop);
    let _ = bt.join();
    let g = shared.lock().unwrap_or_else(|e| e.into_inner());
    let backend = format!("backend: {} connection(s), {} requests received, at most {} streams open at once on a connection after its SETTINGS ACK ({} streams opened before an ACK), RST_STREAMs from sozu {:?}", g.connections, g.arrivals, g.max_open, g.opened_before_ack, g.rst);
    *dist.entry(format!("backend-stream-limit:connections:{}", g.connections.min(4))).or_insert(0) += 1;
    // (a) the peer's limit
    if let Some(v) = g.violations.first() {
        fails.push(Fail { class: "h2c-backend-concurrent-streams-exceeded".into(), detail: format!("{v} ({} such HEADERS); {backend}", g.violations.len()), case: case.clone() });
    }
    for e in g.errors.iter().take(1) {
        fails.push(Fail { class: "h2tls-h2c-transfer-failed".into(), detail: format!("{e}; {backend}"), case: case.clone() });
    }
    // (b) every request is answered by the backend, (c) bodies
    let mut refused: Vec<String> = vec![];
    let mut other: Vec<String> = vec![];
    for (idx, s) in sids.iter().enumerate() {
        let status = cl.status.get(s).cloned();
        let at = answered_at.get(s).map(|d| format!("{} ms", d.as_millis())).unwrap_or_else(|| "never".into());
        match status.as_deref() {
            Some("200") if cl.ended.contains(s) => {
                cmp_body(&format!("response body of request {idx}"), cl.bodies.get(s).map(|b| &b[..]).unwrap_or(&[]), &bsl_resp_body(idx), "h2tls-h2c-response-body-differs", &case, fails);
                match g.bodies.get(&idx) {
                    Some(b) => cmp_body(&format!("body of request {idx} at the h2c backend"), b, &bsl_req_body(idx, req_len + idx), "h2tls-h2c-request-body-differs", &case, fails),
                    None => other.push(format!("request {idx} (stream {s}) answered 200 but the backend never received it")),
                }
            }
            Some(code @ ("503" | "502" | "504")) => refused.push(format!("request {idx} (stream {s}) answered {code} at {at}")),
            Some(code) => other.push(format!("request {idx} (stream {s}): :status {code}, ended={} at {at}", cl.ended.contains(s))),
            None => other.push(format!("request {idx} (stream {s}): {} at {at}", match cl.rst.get(s) {
                Some(c) => format!("RST_STREAM({c})"),
                None => "no answer".into(),
            })),
        }
    }
    let conn_end = match (&cl.goaway, &cl.closed) {
        (Some((l, c)), _) => format!("; GOAWAY(last={l}, error={c})"),
        (_, Some(c)) => format!("; {c}"),
        _ => String::new(),
    };
    // a 503 for a request of the FIRST batch cannot come from a pooled connection at its limit (none
    // exists yet): that is the open finding "503 on a fresh h2c backend connection, no request frame
    // sent" (same symptom with an HTTP/1.1 frontend: h1-h2c-fresh-backend-connection-503); sozu then
    // ends the session (GOAWAY), which spoils the rest of the scenario
    let first_batch_refused = sids.iter().take(first).any(|s| matches!(cl.status.get(s).map(|x| x.as_str()), Some("503")));
    if first_batch_refused {
        *dist.entry("backend-stream-limit:fresh-connection-503".into()).or_insert(0) += 1;
        fails.push(Fail {
            class: "h1-h2c-fresh-backend-connection-503".into(),
            detail: format!("HTTP/2 frontend variant: 503 for a request of the first batch (no pooled backend connection existed yet) although the h2c backend is up: {}; {backend}{conn_end}", refused.iter().take(3).cloned().collect::<Vec<_>>().join(", ")),
            case: case.clone(),
        });
        return case;
    }
    if !refused.is_empty() {
        fails.push(Fail {
            class: "healthy-backend-request-answered-503".into(),
            detail: format!("{} of {k} fully sent requests got an answer of sozu's making although the backend is up and serving: {}; {backend}{conn_end}", refused.len(), refused.iter().take(4).cloned().collect::<Vec<_>>().join(", ")),
            case: case.clone(),
        });
    }
    if !other.is_empty() {
        fails.push(Fail { class: "h2tls-h2c-transfer-failed".into(), detail: format!("{} of {k} requests: {}; {backend}{conn_end}", other.len(), other.iter().take(4).cloned().collect::<Vec<_>>().join(", ")), case: case.clone() });
    }
    if std::env::var("E2E_BSL_TRACE").is_ok() {
        eprintln!("{case}\n  {backend}{conn_end}\n  answered: {:?}", sids.iter().map(|s| (s, cl.status.get(s).cloned(), answered_at.get(s).map(|d| d.as_millis()))).collect::<Vec<_>>());
    }
    case
}

// ------------------------------- Content-Length vs DATA matrix (h2front, C03) --
//
// TLS HTTP/2 client -> sozu -> HTTP/1.1 backend that reads strictly by RFC 9112 framing
// (Transfer-Encoding: chunked, else Content-Length - whatever the method -, else no body) and
// records what it parsed. One scripted request per case: method x declared length x DATA split x
// END_STREAM placement; then a follow-up request on the same client connection. Judged from the
// property text, and compared with the Lean model behind C03_declared_length_enforced.

#[derive(Clone, Debug)]
struct ClCase {
    method: &'static str,
    /// declared Content-Length (None: no such field)
    declared: Option<usize>,
    /// DATA payload lengths, in order
    frames: Vec<usize>,
    /// "headers" (END_STREAM on HEADERS, no DATA), "last-data", "empty-data", "trailers"
    end: &'static str,
    rel: &'static str,
}

impl ClCase {
    fn total(&self) -> usize {
        self.frames.iter().sum()
    }
    /// the stream events of the Lean model (`recon` verb)
    fn events(&self) -> String {
        let mut ev: Vec<String> = vec![];
        for (i, f) in self.frames.iter().enumerate() {
            let last = i + 1 == self.frames.len();
            ev.push(format!("d{}:{}", f, (last && self.end == "last-data") as u8));
        }
        match self.end {
            "empty-data" => ev.push("d0:1".into()),
            "trailers" => ev.push("t".into()),
            _ => {}
        }
        if ev.is_empty() { "_".into() } else { ev.join(",") }
    }
    /// what the property text says must happen: Some(true) = must be refused (reset), Some(false) = must be served
    fn must_reset(&self) -> bool {
        match self.declared {
            Some(n) => n != self.total(),
            None => false,
        }
    }
}

fn cl_matrix_cases(thorough: bool) -> Vec<ClCase> {
    let mut v = vec![];
    let splits: [&[usize]; 3] = [&[6], &[2, 4], &[1, 2, 3]];
    for (mi, method) in ["GET", "HEAD", "POST", "PUT", "DELETE", "OPTIONS", "PATCH"].iter().enumerate() {
        // END_STREAM on HEADERS: no DATA at all
        for (rel, d) in [("none", None), ("zero", Some(0usize)), ("larger", Some(5))] {
            v.push(ClCase { method, declared: d, frames: vec![], end: "headers", rel });
        }
        for (si, split) in splits.iter().enumerate() {
            for (ei, end) in ["last-data", "empty-data", "trailers"].iter().enumerate() {
                let total: usize = split.iter().sum();
                for (ri, (rel, d)) in [("none", None), ("zero", Some(0usize)), ("small", Some(1)), ("exact", Some(total)), ("larger", Some(total + 4)), ("smaller", Some(total - 2))].iter().enumerate() {
                    // quick tier: a covering subset (every method meets every relation, split and placement)
                    if !thorough && (mi + si + ei + ri) % 3 != 0 && !(*method == "HEAD" || (*method == "POST" && si == 0)) {
                        continue;
                    }
                    v.push(ClCase { method, declared: *d, frames: split.to_vec(), end, rel });
                }
            }
        }
        // a headers-only request followed by an empty DATA frame with END_STREAM
        for (rel, d) in [("none", None), ("zero", Some(0usize)), ("larger", Some(5))] {
            v.push(ClCase { method, declared: d, frames: vec![], end: "empty-data", rel });
        }
    }
    v
}

enum StrictNext {
    Complete { start: String, body: Vec<u8>, used: usize },
    /// the head is complete, the declared body is not
    PartialBody { start: String, got: usize },
    PartialHead,
    Garbage(String),
}

/// one request by RFC 9112 framing from the front of `raw`
fn strict_next(raw: &[u8]) -> StrictNext {
    let Some(he) = find(raw, b"\r\n\r\n") else {
        // whatever is there must at least start like a request line
        let probe = &raw[..raw.len().min(8)];
        if !probe.is_empty() && !probe.iter().all(|b| b.is_ascii_uppercase() || *b == b' ' || *b == b'/') && find(raw, b" ").map(|p| !raw[..p].iter().all(|b| b.is_ascii_uppercase())).unwrap_or(false) {
            return StrictNext::Garbage(format!("not a request line: {:?}", String::from_utf8_lossy(&raw[..raw.len().min(60)])));
        }
        return StrictNext::PartialHead;
    };
    let head = String::from_utf8_lossy(&raw[..he]).to_string();
    let mut lines = head.split("\r\n");
    let start = lines.next().unwrap_or("").to_string();
    let parts: Vec<&str> = start.split(' ').collect();
    if parts.len() != 3 || !parts[2].starts_with("HTTP/1.") || parts[0].is_empty() || !parts[0].bytes().all(|b| b.is_ascii_uppercase()) || !parts[1].starts_with('/') {
        return StrictNext::Garbage(format!("not a request line: {:?}", &start[..start.len().min(80)]));
    }
    let mut chunked = false;
    let mut length: Option<usize> = None;
    for l in lines {
        let Some((n, v)) = l.split_once(':') else {
            return StrictNext::Garbage(format!("malformed header line {l:?}"));
        };
        let v = v.trim();
        if n.eq_ignore_ascii_case("transfer-encoding") {
            chunked = v.eq_ignore_ascii_case("chunked");
        } else if n.eq_ignore_ascii_case("content-length") {
            match v.parse::<usize>() {
                Ok(x) if length.is_none() || length == Some(x) => length = Some(x),
                _ => return StrictNext::Garbage(format!("bad or conflicting content-length {v:?}")),
            }
        }
    }
    let mut p = he + 4;
    if chunked {
        let mut body = vec![];
        loop {
            let Some(le) = find(&raw[p..], b"\r\n").map(|x| p + x) else {
                return StrictNext::PartialBody { start, got: body.len() };
            };
            let size_line = &raw[p..le];
            let Some(n) = std::str::from_utf8(size_line).ok().filter(|t| !t.is_empty() && t.bytes().all(|b| b.is_ascii_hexdigit())).and_then(|t| usize::from_str_radix(t, 16).ok()) else {
                return StrictNext::Garbage(format!("expected a chunk-size line, found {:?}", String::from_utf8_lossy(&size_line[..size_line.len().min(40)])));
            };
            p = le + 2;
            if n == 0 {
                loop {
                    let Some(te) = find(&raw[p..], b"\r\n").map(|x| p + x) else {
                        return StrictNext::PartialBody { start, got: body.len() };
                    };
                    if te == p {
                        p += 2;
                        break;
                    }
                    if !raw[p..te].contains(&b':') {
                        return StrictNext::Garbage(format!("malformed trailer line {:?}", String::from_utf8_lossy(&raw[p..te])));
                    }
                    p = te + 2;
                }
                return StrictNext::Complete { start, body, used: p };
            }
            if raw.len() < p + n + 2 {
                return StrictNext::PartialBody { start, got: body.len() + raw.len().saturating_sub(p).min(n) };
            }
            if &raw[p + n..p + n + 2] != b"\r\n" {
                return StrictNext::Garbage(format!("chunk of {n} bytes not followed by CRLF"));
            }
            body.extend_from_slice(&raw[p..p + n]);
            p += n + 2;
        }
    }
    let n = length.unwrap_or(0);
    if raw.len() < p + n {
        return StrictNext::PartialBody { start, got: raw.len() - p };
    }
    StrictNext::Complete { start, body: raw[p..p + n].to_vec(), used: p + n }
}

/// what one backend connection held, read strictly
#[derive(Default, Debug)]
struct StrictConn {
    complete: Vec<(String, Vec<u8>)>,
    /// `(start line, body bytes received)` of a request whose body never completed
    partial: Option<(String, usize)>,
    garbage: Option<String>,
    partial_head: usize,
}

fn strict_all(raw: &[u8]) -> StrictConn {
    let mut c = StrictConn::default();
    let mut pos = 0usize;
    while pos < raw.len() {
        match strict_next(&raw[pos..]) {
            StrictNext::Complete { start, body, used } => {
                c.complete.push((start, body));
                pos += used;
            }
            StrictNext::PartialBody { start, got } => {
                c.partial = Some((start, got));
                break;
            }
            StrictNext::PartialHead => {
                c.partial_head = raw.len() - pos;
                break;
            }
            StrictNext::Garbage(g) => {
                c.garbage = Some(g);
                break;
            }
        }
    }
    c
}

struct ClObs {
    line: String,
    case: String,
    reset: bool,
    done: bool,
    backend_body: usize,
    has_events: bool,
}

fn case_cl_matrix(ctx: &mut Ctx, tls: &mut TlsCtx, cc: &ClCase, fails: &mut Vec<Fail>, dist: &mut BTreeMap<String, u64>) -> Option<ClObs> {
    use std::io::Write;
    let (path, _cid, be) = route_tls(ctx, tls, "q", false);
    let case = format!("cl-matrix path={path} {} content-length={:?} ({}) DATA={:?} end-stream-on={}", cc.method, cc.declared, cc.rel, cc.frames, cc.end);
    *dist.entry(format!("cl-matrix:{}:{}", cc.method, cc.rel)).or_insert(0) += 1;
    let stop = std::sync::Arc::new(std::sync::atomic::AtomicBool::new(false));
    let raws: std::sync::Arc<std::sync::Mutex<Vec<Vec<u8>>>> = Default::default();
    let (stop_b, raws_b) = (stop.clone(), raws.clone());
    // strict backend: answers a request when it is complete by its own framing, or 120 ms after its
    // head when the declared body does not come (then goes on reading that body, as servers do)
    let bt = std::thread::spawn(move || {
        let mut handlers = vec![];
        // (an accept loop never outlives its case by much, even when the case ends on a set-up panic)
        let born = Instant::now();
        while !stop_b.load(std::sync::atomic::Ordering::Relaxed) && born.elapsed() < Duration::from_secs(30) {
            if let Ok(mut b) = be.accept(Duration::from_millis(15)) {
                let (stop_c, raws_c) = (stop_b.clone(), raws_b.clone());
                handlers.push(std::thread::spawn(move || {
                    let mut answered = 0usize;
                    let mut pending_since: Option<Instant> = None;
                    loop {
                        let end = b.read_some(Duration::from_millis(8));
                        let sc = strict_all(&b.received);
                        let mut due = sc.complete.len().saturating_sub(answered);
                        if due == 0 && sc.complete.len() == answered && sc.partial.is_some() {
                            match pending_since {
                                None => pending_since = Some(Instant::now()),
                                Some(t) if t.elapsed() > Duration::from_millis(120) => {
                                    due = 1;
                                    pending_since = None;
                                }
                                _ => {}
                            }
                        } else if sc.partial.is_none() {
                            pending_since = None;
                        }
                        for _ in 0..due {
                            if b.write_all(b"HTTP/1.1 200 OK\r\nContent-Length: 0\r\n\r\n", T).is_err() {
                                break;
                            }
                            answered += 1;
                        }
                        if stop_c.load(std::sync::atomic::Ordering::Relaxed) || matches!(end, ReadEnd::Closed | ReadEnd::Reset) {
                            break;
                        }
                    }
                    if let Ok(mut g) = raws_c.lock() {
                        g.push(b.received.clone());
                    }
                }));
            }
        }
        for h in handlers {
            let _ = h.join();
        }
    });
    let done = |stop: &std::sync::Arc<std::sync::atomic::AtomicBool>| stop.store(true, std::sync::atomic::Ordering::Relaxed);
    let st = match tls_front(tls.front, Duration::from_millis(8)) {
        Ok(s) => s,
        Err(e) => {
            done(&stop);
            let _ = bt.join();
            fails.push(Fail { class: "h2front-transfer-failed".into(), detail: format!("tls connect: {e:?}"), case: case.clone() });
            return None;
        }
    };
    let mut cl = LedgerClient::new(st);
    let mut hello = b"PRI * HTTP/2.0\r\n\r\nSM\r\n\r\n".to_vec();
    hello.extend_from_slice(&settings_frame(&[(4, 1 << 20)]));
    if cl.st.write_all(&hello).and_then(|_| cl.st.flush()).is_err() {
        done(&stop);
        let _ = bt.join();
        fails.push(Fail { class: "h2front-transfer-failed".into(), detail: "write hello".into(), case: case.clone() });
        return None;
    }
    cl.handshake();
    // ---- the request under test (stream 1)
    let p1 = format!("{path}/t");
    let body: Vec<u8> = (0..cc.total()).map(|i| b'a' + (i % 26) as u8).collect();
    let cls = cc.declared.map(|d| d.to_string());
    let mut hs: Vec<(&[u8], &[u8])> = vec![(b":method", cc.method.as_bytes()), (b":scheme", b"https"), (b":path", p1.as_bytes()), (b":authority", b"localhost")];
    if let Some(c) = &cls {
        hs.push((b"content-length", c.as_bytes()));
    }
    if cc.end == "trailers" {
        hs.push((b"te", b"trailers"));
    }
    let blk = cl.enc.encode(hs);
    cl.out.extend_from_slice(&frame(1, 4 | (cc.end == "headers") as u8, 1, &blk));
    let mut off = 0usize;
    for (i, f) in cc.frames.iter().enumerate() {
        let last = i + 1 == cc.frames.len();
        cl.out.extend_from_slice(&frame(0, (last && cc.end == "last-data") as u8, 1, &body[off..off + f]));
        off += f;
    }
    match cc.end {
        "empty-data" => cl.out.extend_from_slice(&frame(0, 1, 1, &[])),
        "trailers" => {
            let tb = cl.enc.encode(vec![(&b"x-checksum"[..], &b"abc123"[..])]);
            cl.out.extend_from_slice(&frame(1, 4 | 1, 1, &tb));
        }
        _ => {}
    }
    cl.flush();
    let d1 = Instant::now() + Duration::from_millis(500);
    while !(cl.ended.contains(&1) || cl.rst.contains_key(&1) || cl.over()) && Instant::now() < d1 {
        cl.pump();
    }
    // ---- follow-up on the same client connection (stream 3): exposes a desynchronised backend connection
    let p3 = format!("{path}/f");
    let fbody = b"follow-up-body";
    let mut follow_sent = false;
    if !cl.over() {
        let fl = fbody.len().to_string();
        let hs: Vec<(&[u8], &[u8])> = vec![(b":method", b"POST"), (b":scheme", b"https"), (b":path", p3.as_bytes()), (b":authority", b"localhost"), (b"content-length", fl.as_bytes())];
        let blk = cl.enc.encode(hs);
        cl.out.extend_from_slice(&frame(1, 4, 3, &blk));
        cl.out.extend_from_slice(&frame(0, 1, 3, fbody));
        cl.flush();
        follow_sent = true;
        let d3 = Instant::now() + Duration::from_millis(600);
        while !(cl.ended.contains(&3) || cl.rst.contains_key(&3) || cl.over()) && Instant::now() < d3 {
            cl.pump();
        }
    }
    done(&stop);
    let _ = bt.join();
    let conns: Vec<StrictConn> = raws.lock().map(|g| g.iter().map(|r| strict_all(r)).collect()).unwrap_or_default();
    let st1 = cl.status.get(&1).cloned();
    let reset1 = cl.rst.contains_key(&1) || (cl.goaway.is_some() && !cl.ended.contains(&1));
    let done1 = cl.ended.contains(&1) && !cl.rst.contains_key(&1) && st1.as_deref().map(|s| s.starts_with('2')).unwrap_or(false);
    let client = format!(
        "client: stream 1 {}{}{}, follow-up stream 3 {}{}{}",
        st1.as_ref().map(|s| format!(":status {s}")).unwrap_or_else(|| "no response".into()),
        if cl.ended.contains(&1) { " END_STREAM" } else { "" },
        cl.rst.get(&1).map(|c| format!(" RST_STREAM({c})")).unwrap_or_default(),
        cl.status.get(&3).map(|s| format!(":status {s}")).unwrap_or_else(|| "no response".into()),
        cl.rst.get(&3).map(|c| format!(" RST_STREAM({c})")).unwrap_or_default(),
        cl.goaway.map(|(l, c)| format!("; GOAWAY(last={l}, error={c})")).unwrap_or_default()
    );
    let backend = format!(
        "backend ({} connection(s)): {}",
        conns.len(),
        conns.iter().map(|c| format!(
            "[{}{}{}{}]",
            c.complete.iter().map(|(s, b)| format!("{s} +{}B", b.len())).collect::<Vec<_>>().join(", "),
            c.partial.as_ref().map(|(s, g)| format!(" | incomplete: {s} +{g}B")).unwrap_or_default(),
            c.garbage.as_ref().map(|g| format!(" | NOT HTTP: {g}")).unwrap_or_default(),
            if c.partial_head > 0 { format!(" | {} bytes of an unfinished head", c.partial_head) } else { String::new() }
        )).collect::<Vec<_>>().join(" ")
    );
    let mut push = |class: &str, what: String| fails.push(Fail { class: class.into(), detail: format!("{what}; {client}; {backend}"), case: case.clone() });
    // the two open trailer findings (trailer lines written without the last-chunk / after a
    // Content-Length body) spoil everything else the case could show: reported under their own classes
    if cc.end == "trailers" && conns.iter().any(|c| c.garbage.as_deref().map(|g| g.contains("x-checksum")).unwrap_or(false)) {
        let class = if cc.declared.is_some() { "c03-trailers-after-length-body" } else { "c03-trailers-without-last-chunk" };
        push(class, "the trailer field line reaches the backend where a strict reader expects a chunk-size line or the next request".into());
        if cc.must_reset() && done1 {
            push("c03-length-mismatch-not-reset", format!("declared Content-Length {:?}, DATA total {}: the stream ended with a 2xx instead of being reset", cc.declared, cc.total()));
        }
        return None;
    }
    // (a) a stream whose DATA total differs from its declared length never ends un-reset
    if cc.must_reset() && done1 {
        push("c03-length-mismatch-not-reset", format!("declared Content-Length {:?}, DATA total {}: the stream ended with a 2xx instead of being reset", cc.declared, cc.total()));
    }
    if !cc.must_reset() && !done1 {
        push("c03-well-formed-request-not-served", format!("declared Content-Length {:?} equals the DATA total {} (or none declared): the request was not answered 2xx", cc.declared, cc.total()));
    }
    // (b) what the backend parsed is exactly what the client completed; (c) never more body than declared
    let t_line = format!("{} {p1} HTTP/1.1", cc.method);
    let f_line = format!("POST {p3} HTTP/1.1");
    let mut seen_t = 0usize;
    let mut seen_f = 0usize;
    let mut backend_body = 0usize;
    for c in &conns {
        if let Some(g) = &c.garbage {
            push("c03-backend-connection-desynchronised", format!("a strict reader finds bytes that are no request on a backend connection: {g}"));
        }
        for (s, b) in &c.complete {
            if *s == t_line {
                seen_t += 1;
                backend_body = backend_body.max(b.len());
                let want: &[u8] = &body[..b.len().min(body.len())];
                if b.len() > body.len() || &b[..] != want {
                    push("c03-request-body-differs-at-backend", format!("the backend read a body of {} bytes for the tested request that is not a prefix of the {} bytes the client sent", b.len(), body.len()));
                }
                if let Some(d) = cc.declared {
                    if b.len() > d {
                        push("c03-more-body-than-declared", format!("{} body bytes forwarded, {d} declared", b.len()));
                    }
                }
                if !done1 && !(cc.declared.map(|d| d == b.len() && cc.total() >= d).unwrap_or(false)) {
                    push("c03-unfinished-request-complete-at-backend", format!("the client's stream did not end un-reset, yet a strict reader sees a complete request with {} body bytes", b.len()));
                }
            } else if *s == f_line {
                seen_f += 1;
                if &b[..] != fbody {
                    push("c03-request-body-differs-at-backend", format!("follow-up body at the backend: {:?}", String::from_utf8_lossy(b)));
                }
            } else {
                push("c03-request-never-sent-at-backend", format!("the backend parsed a request the client never sent: {s:?}"));
            }
        }
        if let Some((s, got)) = &c.partial {
            if *s == t_line {
                backend_body = backend_body.max(*got);
                if done1 {
                    push("c03-completed-request-incomplete-at-backend", format!("the client got a 2xx, a strict reader is still waiting for the body ({got} bytes so far)"));
                }
                if let Some(d) = cc.declared {
                    if *got > d {
                        push("c03-more-body-than-declared", format!("{got} body bytes forwarded, {d} declared"));
                    }
                }
            } else if *s != f_line {
                push("c03-request-never-sent-at-backend", format!("the backend holds the head of a request the client never sent: {s:?}"));
            }
        }
    }
    if done1 && seen_t != 1 {
        push("c03-completed-request-not-at-backend", format!("the client got a 2xx for the tested request, the backend parsed it {seen_t} times"));
    }
    if seen_t > 1 || seen_f > 1 {
        push("c03-request-duplicated-at-backend", format!("tested request x{seen_t}, follow-up x{seen_f}"));
    }
    // GOAWAY with a last-stream-id below 3: sozu tells the client that the follow-up was not processed
    // (a trailer HEADERS frame that arrives after the stream was reset is a connection error, RFC 9113 5.1)
    let follow_unprocessed = cl.goaway.map(|(last, _)| last < 3).unwrap_or(false);
    if follow_sent && !follow_unprocessed {
        let ok3 = cl.ended.contains(&3) && cl.status.get(&3).map(|s| s == "200").unwrap_or(false);
        if !ok3 || seen_f != 1 {
            push("c03-follow-up-request-lost", format!("the well-formed follow-up request on the same client connection was {} and parsed {seen_f} time(s) by the backend", if ok3 { "answered 200" } else { "not answered 200" }));
        }
    }
    Some(ClObs { line: format!("recon {} 0 {}", cc.declared.map(|d| d.to_string()).unwrap_or_else(|| "~".into()), cc.events()), case, reset: reset1, done: done1, backend_body, has_events: cc.events() != "_" })
}

/// compare every observed case with the Lean model of the reconciliation (`rrun`)
fn cl_matrix_model(driver: &str, obs: &[ClObs], fails: &mut Vec<Fail>, dist: &mut BTreeMap<String, u64>) {
    let with: Vec<&ClObs> = obs.iter().filter(|o| o.has_events).collect();
    if driver.is_empty() {
        dist.insert("cl-matrix:model-not-consulted".into(), with.len() as u64);
        return;
    }
    let input: String = with.iter().map(|o| format!("{}\n", o.line)).collect();
    let out = verif_harness::run_model(driver, &input);
    for (o, l) in with.iter().zip(out.iter()) {
        let get = |k: &str| l.split_whitespace().find_map(|w| w.strip_prefix(&format!("{k}="))).and_then(|v| v.parse::<usize>().ok());
        let (Some(fw), Some(dn), Some(rs)) = (get("forwarded"), get("done"), get("reset")) else {
            fails.push(Fail { class: "c03-length-model-disagrees".into(), detail: format!("model answered {l:?} to {:?}", o.line), case: o.case.clone() });
            continue;
        };
        *dist.entry("cl-matrix:model-compared".into()).or_insert(0) += 1;
        if (dn == 1) != o.done || (rs == 1) != o.reset || o.backend_body > fw || (dn == 1 && o.backend_body != fw) {
            fails.push(Fail {
                class: "c03-length-model-disagrees".into(),
                detail: format!("model ({}): forwarded={fw} done={dn} reset={rs}; observed: done={} reset={} body bytes at the backend={}", o.line, o.done, o.reset, o.backend_body),
                case: o.case.clone(),
            });
        }
    }
    if out.len() < with.len() {
        fails.push(Fail { class: "c03-length-model-disagrees".into(), detail: format!("model answered {} of {} lines", out.len(), with.len()), case: "-".into() });
    }
}

// ------------------------------------------- window rules (C14, both positions) --
//
// WINDOW_UPDATE with a zero increment, WINDOW_UPDATE / SETTINGS_INITIAL_WINDOW_SIZE that lift a
// window to and past 2^31-1, on the connection and on one of two open streams: what sozu does
// (nothing / RST_STREAM of that stream / GOAWAY, and the error code) is compared, op by op, with
// the Lean ledger (`windowUpdate`, `updateInitialWindow`; theorems C14_window_update_rules,
// C14_settings_delta) driven through the h2flow driver; streams that are not hit must still be served.

#[derive(Clone, Copy, Debug, PartialEq)]
enum WinOp {
    Wu(u32, u32),
    Sinit(u32),
}

#[derive(Clone, Debug, PartialEq)]
enum Reaction {
    None,
    Rst(u32, u32),
    Goaway(u32),
}

const I31: u32 = 0x7fff_ffff;

fn window_rule_scenarios() -> Vec<(&'static str, Vec<WinOp>)> {
    use WinOp::*;
    vec![
        ("zero-increment-connection", vec![Wu(0, 0)]),
        ("zero-increment-stream", vec![Wu(1, 0)]),
        ("overflow-connection", vec![Wu(0, I31)]),
        ("overflow-stream", vec![Wu(3, I31)]),
        ("connection-to-max-then-one-more", vec![Wu(0, I31 - 65535), Wu(0, 1)]),
        ("stream-to-max-then-one-more", vec![Wu(1, I31 - 65535), Wu(1, 1)]),
        ("settings-above-max", vec![Sinit(0x8000_0000)]),
        ("settings-overflows-a-raised-stream", vec![Wu(1, I31 - 65535), Sinit(65536)]),
        ("settings-zero-drip-then-max", vec![Sinit(0), Wu(1, 5), Sinit(I31)]),
        ("settings-max-then-one-more", vec![Sinit(I31), Wu(3, 1)]),
        ("legal-large-updates", vec![Wu(0, 1 << 30), Wu(1, 1 << 30), Wu(3, 1), Sinit(1 << 20)]),
    ]
}

fn winop_frame(op: WinOp) -> Vec<u8> {
    match op {
        WinOp::Wu(sid, inc) => frame(8, 0, sid, &inc.to_be_bytes()),
        WinOp::Sinit(v) => settings_frame(&[(4, v)]),
    }
}

/// the model's verdicts for a scenario (`is_client`: sozu's position on the connection under test)
fn window_rules_model(driver: &str, is_client: bool, ops: &[WinOp]) -> Option<Vec<Reaction>> {
    if driver.is_empty() {
        return None;
    }
    let mut input = format!("conn {}\n", is_client as u8);
    input.push_str(if is_client { "openl 65535\nopenl 65535\n" } else { "openp 1\nopenp 3\n" });
    for op in ops {
        match op {
            WinOp::Wu(s, i) => input.push_str(&format!("wu {s} {i}\n")),
            WinOp::Sinit(v) => input.push_str(&format!("sinit {v}\n")),
        }
    }
    let out = verif_harness::run_model(driver, &input);
    if out.len() != 3 + ops.len() {
        return None;
    }
    let mut v = vec![];
    for l in &out[3..] {
        let w: Vec<&str> = l.split_whitespace().collect();
        v.push(match (w.first().copied(), w.get(1).copied()) {
            (Some("ok"), _) => Reaction::None,
            (Some("err"), Some("goaway-protocol")) => Reaction::Goaway(1),
            (Some("err"), Some("goaway-flow-control")) => Reaction::Goaway(3),
            (Some("err"), Some("rst-protocol")) => Reaction::Rst(w.get(2)?.parse().ok()?, 1),
            (Some("err"), Some("rst-flow-control")) => Reaction::Rst(w.get(2)?.parse().ok()?, 3),
            // the connection is already dead in the model
            (Some("closed"), _) => Reaction::None,
            _ => return None,
        });
    }
    Some(v)
}

fn wr_body(sid: u32) -> Vec<u8> {
    pattern(60 + sid as usize, 1500 + sid as usize)
}

/// compare reactions with the model and judge the surviving streams
#[allow(clippy::too_many_arguments)]
fn judge_window_rules(side: &str, class_rule: &str, class_survivor: &str, ops: &[WinOp], observed: &[Reaction], model: &Option<Vec<Reaction>>, served: &BTreeMap<u32, bool>, fatal_expected: bool, extra: &str, case: &str, fails: &mut Vec<Fail>, dist: &mut BTreeMap<String, u64>) {
    // RFC 9113 6.9 / 6.9.1 / 6.9.2, independent of the model: scope and code of each reaction
    let mut win_conn: i64 = 65535;
    let mut init: i64 = 65535;
    let mut win: BTreeMap<u32, i64> = [(1u32, 65535i64), (3u32, 65535i64)].into_iter().collect();
    let mut rfc: Vec<Reaction> = vec![];
    let mut dead = false;
    for op in ops {
        if dead {
            rfc.push(Reaction::None);
            continue;
        }
        let r = match *op {
            WinOp::Wu(0, 0) => Reaction::Goaway(1),
            WinOp::Wu(s, 0) => if win.contains_key(&s) { Reaction::Rst(s, 1) } else { Reaction::None },
            WinOp::Wu(0, i) => if win_conn + i as i64 > I31 as i64 { Reaction::Goaway(3) } else { win_conn += i as i64; Reaction::None },
            WinOp::Wu(s, i) => match win.get_mut(&s) {
                Some(w) => if *w + i as i64 > I31 as i64 { Reaction::Rst(s, 3) } else { *w += i as i64; Reaction::None },
                None => Reaction::None,
            },
            WinOp::Sinit(v) => {
                if v > I31 || win.values().any(|w| *w + (v as i64 - init) > I31 as i64) {
                    // RFC: FLOW_CONTROL_ERROR; the connection error itself is what the property needs
                    Reaction::Goaway(u32::MAX)
                } else {
                    for w in win.values_mut() {
                        *w += v as i64 - init;
                    }
                    init = v as i64;
                    Reaction::None
                }
            }
        };
        if let Reaction::Rst(s, _) = r {
            win.remove(&s);
        }
        if matches!(r, Reaction::Goaway(_)) {
            dead = true;
        }
        rfc.push(r);
    }
    let same = |a: &Reaction, b: &Reaction| a == b || matches!((a, b), (Reaction::Goaway(_), Reaction::Goaway(u32::MAX)) | (Reaction::Goaway(u32::MAX), Reaction::Goaway(_)));
    for (i, op) in ops.iter().enumerate() {
        let obs = observed.get(i).cloned().unwrap_or(Reaction::None);
        if !same(&obs, &rfc[i]) {
            fails.push(Fail { class: class_rule.into(), detail: format!("{side}: op #{i} {op:?}: RFC 9113 6.9 asks for {:?}, sozu did {obs:?} (all ops {ops:?}, all reactions {observed:?}){extra}", rfc[i]), case: case.into() });
            break;
        }
        if let Some(m) = model {
            if m[i] != obs {
                fails.push(Fail { class: "h2-window-rules-model-disagrees".into(), detail: format!("{side}: op #{i} {op:?}: the Lean ledger says {:?}, sozu did {obs:?} (model {m:?}, observed {observed:?}){extra}", m[i]), case: case.into() });
                break;
            }
            *dist.entry("window-rules:model-compared".into()).or_insert(0) += 1;
        }
    }
    if !fatal_expected {
        for (sid, ok) in served {
            let hit = rfc.iter().any(|r| matches!(r, Reaction::Rst(s, _) if s == sid));
            if !hit && !*ok {
                fails.push(Fail { class: class_survivor.into(), detail: format!("{side}: stream {sid} was not touched by {ops:?} (reactions {observed:?}) but was not served{extra}"), case: case.into() });
            }
        }
    }
}

fn case_window_rules_front(ctx: &mut Ctx, tls: &mut TlsCtx, name: &str, ops: &[WinOp], driver: &str, fails: &mut Vec<Fail>, dist: &mut BTreeMap<String, u64>) -> String {
    use std::io::Write;
    let (path, _cid, be) = route_tls(ctx, tls, "v", false);
    let case = format!("window-rules-front[{name}] path={path} ops={ops:?}");
    *dist.entry("window-rules:front".into()).or_insert(0) += 1;
    let stop = std::sync::Arc::new(std::sync::atomic::AtomicBool::new(false));
    let release = std::sync::Arc::new(std::sync::atomic::AtomicBool::new(false));
    let arrived = std::sync::Arc::new(std::sync::atomic::AtomicUsize::new(0));
    let (stop_b, rel_b, arr_b) = (stop.clone(), release.clone(), arrived.clone());
    // HTTP/1.1 backend: holds every answer until released, so that both streams stay open in sozu
    let bt = std::thread::spawn(move || {
        let mut hs = vec![];
        // (an accept loop never outlives its case by much, even when the case ends on a set-up panic)
        let born = Instant::now();
        while !stop_b.load(std::sync::atomic::Ordering::Relaxed) && born.elapsed() < Duration::from_secs(30) {
            if let Ok(mut b) = be.accept(Duration::from_millis(15)) {
                let (stop_c, rel_c, arr_c) = (stop_b.clone(), rel_b.clone(), arr_b.clone());
                hs.push(std::thread::spawn(move || {
                    while !stop_c.load(std::sync::atomic::Ordering::Relaxed) {
                        let Ok(m) = read_http_message(&mut b, Duration::from_millis(100)) else {
                            if b.eof || b.error.is_some() {
                                return;
                            }
                            continue;
                        };
                        arr_c.fetch_add(1, std::sync::atomic::Ordering::SeqCst);
                        while !rel_c.load(std::sync::atomic::Ordering::Relaxed) && !stop_c.load(std::sync::atomic::Ordering::Relaxed) {
                            std::thread::sleep(Duration::from_millis(3));
                        }
                        let sid: u32 = m.start_line.split(' ').nth(1).and_then(|p| p.rsplit("/s").next()).and_then(|t| t.parse().ok()).unwrap_or(0);
                        let body = wr_body(sid);
                        let mut out = format!("HTTP/1.1 200 OK\r\nContent-Length: {}\r\n\r\n", body.len()).into_bytes();
                        out.extend_from_slice(&body);
                        if b.write_all(&out, T).is_err() {
                            return;
                        }
                    }
                }));
            }
        }
        for h in hs {
            let _ = h.join();
        }
    });
    let finish_threads = |stop: &std::sync::Arc<std::sync::atomic::AtomicBool>, bt: std::thread::JoinHandle<()>| {
        stop.store(true, std::sync::atomic::Ordering::Relaxed);
        let _ = bt.join();
    };
    let st = match tls_front(tls.front, Duration::from_millis(8)) {
        Ok(s) => s,
        Err(e) => {
            finish_threads(&stop, bt);
            fails.push(Fail { class: "h2front-transfer-failed".into(), detail: format!("tls connect: {e:?}"), case: case.clone() });
            return case;
        }
    };
    let mut cl = LedgerClient::new(st);
    // default windows on both levels: the arithmetic below starts from 65535
    let mut hello = b"PRI * HTTP/2.0\r\n\r\nSM\r\n\r\n".to_vec();
    hello.extend_from_slice(&settings_frame(&[]));
    if cl.st.write_all(&hello).and_then(|_| cl.st.flush()).is_err() {
        finish_threads(&stop, bt);
        fails.push(Fail { class: "h2front-transfer-failed".into(), detail: "write hello".into(), case: case.clone() });
        return case;
    }
    cl.handshake();
    for sid in [1u32, 3] {
        let p = format!("{path}/s{sid}");
        let hs: Vec<(&[u8], &[u8])> = vec![(b":method", b"GET"), (b":scheme", b"https"), (b":path", p.as_bytes()), (b":authority", b"localhost")];
        let blk = cl.enc.encode(hs);
        cl.out.extend_from_slice(&frame(1, 5, sid, &blk));
    }
    cl.flush();
    let t_w = Instant::now();
    while arrived.load(std::sync::atomic::Ordering::SeqCst) < 2 && t_w.elapsed() < Duration::from_secs(2) && !cl.over() {
        cl.pump();
    }
    if arrived.load(std::sync::atomic::Ordering::SeqCst) < 2 {
        finish_threads(&stop, bt);
        inconclusive("window-rules set-up", "the two requests did not reach the backend");
    }
    let model = window_rules_model(driver, false, ops);
    let mut observed: Vec<Reaction> = vec![];
    let mut acks_before = 0usize;
    let _ = &mut acks_before;
    for op in ops {
        if cl.over() {
            observed.push(Reaction::None);
            continue;
        }
        let rst_before: Vec<u32> = cl.rst.keys().copied().collect();
        cl.out.extend_from_slice(&winop_frame(*op));
        cl.flush();
        let t = Instant::now();
        let mut r = Reaction::None;
        while t.elapsed() < Duration::from_millis(120) {
            cl.pump();
            if let Some((_, code)) = cl.goaway {
                r = Reaction::Goaway(code);
                break;
            }
            if let Some((s, c)) = cl.rst.iter().find(|(s, _)| !rst_before.contains(s)) {
                r = Reaction::Rst(*s, *c);
                break;
            }
            if cl.closed.is_some() {
                break;
            }
        }
        observed.push(r);
    }
    release.store(true, std::sync::atomic::Ordering::Relaxed);
    let t_r = Instant::now();
    while t_r.elapsed() < Duration::from_millis(1500) && !cl.over() {
        if [1u32, 3].iter().all(|s| cl.ended.contains(s) || cl.rst.contains_key(s)) {
            break;
        }
        cl.pump();
    }
    finish_threads(&stop, bt);
    let fatal = observed.iter().any(|r| matches!(r, Reaction::Goaway(_)));
    let served: BTreeMap<u32, bool> = [1u32, 3].into_iter().map(|s| (s, cl.status.get(&s).map(|x| x == "200").unwrap_or(false) && cl.ended.contains(&s) && cl.bodies.get(&s).map(|b| *b == wr_body(s)).unwrap_or(false))).collect();
    let extra = format!("; client saw statuses {:?}, resets {:?}, goaway {:?}, {:?}", cl.status, cl.rst, cl.goaway, cl.closed);
    judge_window_rules("sozu as server (client connection)", "h2-front-window-update-rule-violated", "h2-front-untouched-stream-not-served", ops, &observed, &model, &served, fatal, &extra, &case, fails, dist);
    case
}

fn case_window_rules_back(ctx: &mut Ctx, tls: &mut TlsCtx, name: &str, ops: &[WinOp], driver: &str, fails: &mut Vec<Fail>, dist: &mut BTreeMap<String, u64>) -> String {
    use std::io::Write;
    let (path, _cid, be) = route_tls(ctx, tls, "y", true);
    let case = format!("window-rules-back[{name}] path={path} ops={ops:?}");
    *dist.entry("window-rules:back".into()).or_insert(0) += 1;
    let stop = std::sync::Arc::new(std::sync::atomic::AtomicBool::new(false));
    let observed: std::sync::Arc<std::sync::Mutex<(Vec<Reaction>, Vec<String>, usize)>> = Default::default();
    let (stop_b, obs_b) = (stop.clone(), observed.clone());
    let ops_b: Vec<WinOp> = ops.to_vec();
    // scripted h2c backend: on its FIRST connection, once both streams are open, the window ops one by
    // one (reaction = RST_STREAM / GOAWAY frames from sozu), then 200 for the streams still open;
    // later connections (a retry after sozu gave up the first) are served plainly
    let bt = std::thread::spawn(move || {
        let mut hs = vec![];
        let mut conn_no = 0usize;
        // (an accept loop never outlives its case by much, even when the case ends on a set-up panic)
        let born = Instant::now();
        while !stop_b.load(std::sync::atomic::Ordering::Relaxed) && born.elapsed() < Duration::from_secs(30) {
            let Ok(mut c) = be.accept(Duration::from_millis(15)) else { continue };
            conn_no += 1;
            let scripted = conn_no == 1;
            let (stop_c, obs_c, ops_c) = (stop_b.clone(), obs_b.clone(), ops_b.clone());
            hs.push(std::thread::spawn(move || {
                let mut pos = 0usize;
                let mut preface = false;
                let mut open: Vec<u32> = vec![];
                let mut idx_of: BTreeMap<u32, u32> = BTreeMap::new();
                let mut dec = loona_hpack::Decoder::new();
                let mut enc = loona_hpack::Encoder::new();
                let mut rsts: Vec<(u32, u32)> = vec![];
                let mut goaway: Option<u32> = None;
                let mut script_done = !scripted;
                let mut next_op = 0usize;
                let mut op_sent_at: Option<Instant> = None;
                let mut rst_seen_before = 0usize;
                let mut answered: Vec<u32> = vec![];
                let started = Instant::now();
                while !stop_c.load(std::sync::atomic::Ordering::Relaxed) {
                    loop {
                        if !preface {
                            if c.received.len() - pos < 24 {
                                break;
                            }
                            pos += 24;
                            preface = true;
                            // default windows on both levels
                            if c.write_all(&settings_frame(&[]), T).is_err() {
                                return;
                            }
                            continue;
                        }
                        if c.received.len() - pos < 9 {
                            break;
                        }
                        let h = &c.received[pos..pos + 9];
                        let len = ((h[0] as usize) << 16) | ((h[1] as usize) << 8) | h[2] as usize;
                        let (ty, fl) = (h[3], h[4]);
                        let sid = u32::from_be_bytes([h[5], h[6], h[7], h[8]]) & 0x7fff_ffff;
                        if c.received.len() - pos - 9 < len {
                            break;
                        }
                        let pl = c.received[pos + 9..pos + 9 + len].to_vec();
                        pos += 9 + len;
                        match ty {
                            4 if fl & 1 == 0 => {
                                let _ = c.write_all(&frame(4, 1, 0, &[]), T);
                            }
                            6 if fl & 1 == 0 => {
                                let _ = c.write_all(&frame(6, 1, 0, &pl), T);
                            }
                            1 => {
                                if let Ok(list) = dec.decode(&pl) {
                                    let p = list.iter().find(|(k, _)| k == b":path").map(|(_, v)| String::from_utf8_lossy(v).into_owned()).unwrap_or_default();
                                    idx_of.insert(sid, p.rsplit("/s").next().and_then(|t| t.parse().ok()).unwrap_or(0));
                                }
                                open.push(sid);
                            }
                            3 if pl.len() == 4 => {
                                rsts.push((sid, u32::from_be_bytes([pl[0], pl[1], pl[2], pl[3]])));
                                open.retain(|s| *s != sid);
                            }
                            7 if pl.len() >= 8 => goaway = Some(u32::from_be_bytes([pl[4], pl[5], pl[6], pl[7]])),
                            _ => {}
                        }
                    }
                    if scripted && !script_done {
                        let ready = open.len() + rsts.len() >= 2 || started.elapsed() > Duration::from_millis(1500);
                        if let Some(t) = op_sent_at {
                            // reaction to the op in flight
                            let r = if let Some(code) = goaway {
                                Some(Reaction::Goaway(code))
                            } else if rsts.len() > rst_seen_before {
                                Some(Reaction::Rst(rsts[rst_seen_before].0, rsts[rst_seen_before].1))
                            } else if t.elapsed() > Duration::from_millis(120) {
                                Some(Reaction::None)
                            } else {
                                None
                            };
                            if let Some(r) = r {
                                if let Ok(mut g) = obs_c.lock() {
                                    g.0.push(r);
                                }
                                op_sent_at = None;
                                next_op += 1;
                            }
                        }
                        if op_sent_at.is_none() && ready {
                            if goaway.is_some() || next_op >= ops_c.len() {
                                if let Ok(mut g) = obs_c.lock() {
                                    while g.0.len() < ops_c.len() {
                                        g.0.push(Reaction::None);
                                    }
                                    g.2 = open.len() + rsts.len();
                                }
                                script_done = true;
                            } else {
                                rst_seen_before = rsts.len();
                                if c.write_all(&winop_frame(ops_c[next_op]), T).is_err() {
                                    return;
                                }
                                op_sent_at = Some(Instant::now());
                            }
                        }
                    }
                    if script_done && goaway.is_none() {
                        for s in open.clone() {
                            if answered.contains(&s) {
                                continue;
                            }
                            answered.push(s);
                            let body = wr_body(*idx_of.get(&s).unwrap_or(&0));
                            let cl = body.len().to_string();
                            let blk = enc.encode(vec![(&b":status"[..], &b"200"[..]), (&b"content-length"[..], cl.as_bytes())]);
                            let mut out = frame(1, 4, s, &blk);
                            out.extend_from_slice(&frame(0, 1, s, &body));
                            if c.write_all(&out, T).is_err() {
                                return;
                            }
                        }
                    }
                    match c.read_some(Duration::from_millis(8)) {
                        ReadEnd::Done | ReadEnd::Timeout => {}
                        ReadEnd::Closed | ReadEnd::Reset => {
                            if let Ok(mut g) = obs_c.lock() {
                                g.1.push(format!("connection {conn_no} closed by sozu (goaway {goaway:?}, resets {rsts:?})"));
                                if scripted && !script_done {
                                    if op_sent_at.is_some() {
                                        g.0.push(match goaway {
                                            Some(code) => Reaction::Goaway(code),
                                            None => Reaction::Goaway(u32::MAX - 1),
                                        });
                                    }
                                    while g.0.len() < ops_c.len() {
                                        g.0.push(Reaction::None);
                                    }
                                }
                            }
                            return;
                        }
                    }
                }
            }));
        }
        for h in hs {
            let _ = h.join();
        }
    });
    let finish_threads = |stop: &std::sync::Arc<std::sync::atomic::AtomicBool>, bt: std::thread::JoinHandle<()>| {
        stop.store(true, std::sync::atomic::Ordering::Relaxed);
        let _ = bt.join();
    };
    let st = match tls_front(tls.front, Duration::from_millis(8)) {
        Ok(s) => s,
        Err(e) => {
            finish_threads(&stop, bt);
            fails.push(Fail { class: "h2tls-h2c-transfer-failed".into(), detail: format!("tls connect: {e:?}"), case: case.clone() });
            return case;
        }
    };
    let mut cl = LedgerClient::new(st);
    let mut hello = b"PRI * HTTP/2.0\r\n\r\nSM\r\n\r\n".to_vec();
    hello.extend_from_slice(&settings_frame(&[]));
    if cl.st.write_all(&hello).and_then(|_| cl.st.flush()).is_err() {
        finish_threads(&stop, bt);
        fails.push(Fail { class: "h2tls-h2c-transfer-failed".into(), detail: "write hello".into(), case: case.clone() });
        return case;
    }
    cl.handshake();
    for sid in [1u32, 3] {
        let p = format!("{path}/s{sid}");
        let hs: Vec<(&[u8], &[u8])> = vec![(b":method", b"GET"), (b":scheme", b"https"), (b":path", p.as_bytes()), (b":authority", b"localhost")];
        let blk = cl.enc.encode(hs);
        cl.out.extend_from_slice(&frame(1, 5, sid, &blk));
    }
    cl.flush();
    let t_r = Instant::now();
    // a GOAWAY(NO_ERROR) only announces a graceful shutdown: streams up to its last-stream-id go on
    while t_r.elapsed() < Duration::from_millis(3000) && cl.closed.is_none() && cl.goaway.map(|g| g.1 == 0).unwrap_or(true) {
        if [1u32, 3].iter().all(|s| cl.ended.contains(s) || cl.rst.contains_key(s)) {
            break;
        }
        cl.pump();
    }
    finish_threads(&stop, bt);
    let (obs, notes, streams_on_first) = observed.lock().map(|g| (g.0.clone(), g.1.clone(), g.2)).unwrap_or_default();
    if obs.len() < ops.len() || (streams_on_first < 2 && obs.iter().all(|r| *r == Reaction::None)) {
        // the two streams did not share one backend connection: the scenario did not take place
        inconclusive("window-rules (backend) set-up", format!("script not run on two open streams: reactions {obs:?}, streams on the first connection {streams_on_first}, {notes:?}"));
    }
    // the client's stream ids map to the backend's stream ids in order of arrival (1, 3)
    let model = window_rules_model(driver, true, ops);
    let fatal = obs.iter().any(|r| matches!(r, Reaction::Goaway(_)));
    let served: BTreeMap<u32, bool> = [1u32, 3].into_iter().map(|s| (s, cl.status.get(&s).map(|x| x == "200").unwrap_or(false) && cl.ended.contains(&s) && cl.bodies.get(&s).map(|b| *b == wr_body(s)).unwrap_or(false))).collect();
    let extra = format!("; client saw statuses {:?}, resets {:?}, goaway {:?}; backend notes {notes:?}", cl.status, cl.rst, cl.goaway);
    judge_window_rules("sozu as client (h2c backend connection)", "h2c-backend-window-update-rule-violated", "h2c-backend-untouched-stream-not-served", ops, &obs, &model, &served, fatal, &extra, &case, fails, dist);
    case
}

// ------------------------------------------------ peer resets (C01 / C14) --
//
// One of several concurrent streams is cancelled by the peer in mid-transfer (RST_STREAM from the
// client on a download; RST_STREAM from an h2c backend on an upload), or the h2c backend announces
// GOAWAY with streams above its last-stream-id: the other streams must arrive complete and
// byte-exact, windows stay respected, nothing more is sent on a stream whose reset sozu has seen,
// and later streams are served.

fn pr_body(idx: usize, len: usize) -> Vec<u8> {
    pattern(120 + idx, len)
}

#[derive(Clone, Copy, PartialEq, Debug)]
enum BackMode {
    /// RST_STREAM(INTERNAL_ERROR) on the second stream once 50 KB of its body are in, then a PING as a fence
    ResetSecond,
    /// GOAWAY(last-stream-id = the first stream, NO_ERROR) once three streams are open; only the first is served
    GoawayAfterThree,
    Plain,
}

#[derive(Default)]
struct PrShared {
    /// `(connection, request index, body)` of every request received completely
    complete: Vec<(usize, usize, Vec<u8>)>,
    connections: usize,
    violations: Vec<String>,
    reset_idx: Option<usize>,
    notes: Vec<String>,
}

fn serve_h2c_peer(mut c: RawConn, conn_no: usize, mode: BackMode, shared: std::sync::Arc<std::sync::Mutex<PrShared>>, stop: std::sync::Arc<std::sync::atomic::AtomicBool>) {
    let mut pos = 0usize;
    let mut preface = false;
    let mut idx_of: BTreeMap<u32, usize> = BTreeMap::new();
    let mut body_of: BTreeMap<u32, Vec<u8>> = BTreeMap::new();
    let mut order: Vec<u32> = vec![];
    let mut dec = loona_hpack::Decoder::new();
    let mut enc = loona_hpack::Encoder::new();
    let mut reset_sent: Option<u32> = None;
    let mut fence_acked = false;
    let mut goaway_sent = false;
    let mut refused: Vec<u32> = vec![];
    let mut conn_recv: i64 = 0;
    while !stop.load(std::sync::atomic::Ordering::Relaxed) {
        loop {
            if !preface {
                if c.received.len() - pos < 24 {
                    break;
                }
                pos += 24;
                preface = true;
                let mut first = settings_frame(&[(4, 1 << 20)]);
                first.extend_from_slice(&frame(8, 0, 0, &(1u32 << 24).to_be_bytes()));
                if c.write_all(&first, T).is_err() {
                    return;
                }
                continue;
            }
            if c.received.len() - pos < 9 {
                break;
            }
            let h = &c.received[pos..pos + 9];
            let len = ((h[0] as usize) << 16) | ((h[1] as usize) << 8) | h[2] as usize;
            let (ty, fl) = (h[3], h[4]);
            let sid = u32::from_be_bytes([h[5], h[6], h[7], h[8]]) & 0x7fff_ffff;
            if c.received.len() - pos - 9 < len {
                break;
            }
            let pl = c.received[pos + 9..pos + 9 + len].to_vec();
            pos += 9 + len;
            let mut complete: Option<u32> = None;
            match ty {
                4 if fl & 1 == 0 => {
                    let _ = c.write_all(&frame(4, 1, 0, &[]), T);
                }
                6 if fl & 1 == 0 => {
                    let _ = c.write_all(&frame(6, 1, 0, &pl), T);
                }
                6 => {
                    if pl == b"rstfence" {
                        fence_acked = true;
                    }
                }
                1 => {
                    if let Ok(list) = dec.decode(&pl) {
                        let p = list.iter().find(|(k, _)| k == b":path").map(|(_, v)| String::from_utf8_lossy(v).into_owned()).unwrap_or_default();
                        idx_of.insert(sid, p.rsplit("/r").next().and_then(|t| t.parse().ok()).unwrap_or(usize::MAX));
                    }
                    order.push(sid);
                    if fl & 1 != 0 {
                        complete = Some(sid);
                    }
                }
                0 => {
                    conn_recv += len as i64;
                    if Some(sid) == reset_sent && fence_acked {
                        if let Ok(mut g) = shared.lock() {
                            g.violations.push(format!("connection {conn_no}: DATA of {len} bytes on stream {sid} after sozu acknowledged the PING that followed its RST_STREAM"));
                        }
                    }
                    body_of.entry(sid).or_default().extend_from_slice(&pl);
                    if conn_recv > 1 << 22 {
                        conn_recv = 0;
                        let _ = c.write_all(&frame(8, 0, 0, &(1u32 << 22).to_be_bytes()), T);
                    }
                    if body_of[&sid].len() > 1 << 19 {
                        // keep the stream window open for long bodies
                        let _ = c.write_all(&frame(8, 0, sid, &(1u32 << 19).to_be_bytes()), T);
                    }
                    if mode == BackMode::ResetSecond && conn_no == 1 && reset_sent.is_none() && order.get(1) == Some(&sid) && body_of[&sid].len() >= 50_000 && fl & 1 == 0 {
                        let mut out = frame(3, 0, sid, &2u32.to_be_bytes());
                        out.extend_from_slice(&frame(6, 0, 0, b"rstfence"));
                        let _ = c.write_all(&out, T);
                        reset_sent = Some(sid);
                        if let Ok(mut g) = shared.lock() {
                            g.reset_idx = idx_of.get(&sid).copied();
                        }
                    }
                    if fl & 1 != 0 {
                        complete = Some(sid);
                    }
                }
                3 => {
                    if let Ok(mut g) = shared.lock() {
                        g.notes.push(format!("connection {conn_no}: RST_STREAM from sozu on stream {sid}: {pl:?}"));
                    }
                }
                7 => return,
                _ => {}
            }
            if mode == BackMode::GoawayAfterThree && conn_no == 1 && !goaway_sent && order.len() >= 3 {
                let mut p = order[0].to_be_bytes().to_vec();
                p.extend_from_slice(&0u32.to_be_bytes());
                let _ = c.write_all(&frame(7, 0, 0, &p), T);
                goaway_sent = true;
                refused = order[1..].to_vec();
            }
            if let Some(s) = complete {
                if Some(s) == reset_sent || refused.contains(&s) {
                    continue;
                }
                let idx = idx_of.get(&s).copied().unwrap_or(usize::MAX);
                let body = body_of.remove(&s).unwrap_or_default();
                if let Ok(mut g) = shared.lock() {
                    g.complete.push((conn_no, idx, body));
                }
                // the GOAWAY scenario answers its first stream only once the GOAWAY is out
                if mode == BackMode::GoawayAfterThree && conn_no == 1 && !goaway_sent {
                    // answered below, after the GOAWAY
                }
                let rb = pr_body(idx + 50, 2000 + idx);
                let cl = rb.len().to_string();
                let blk = enc.encode(vec![(&b":status"[..], &b"200"[..]), (&b"content-length"[..], cl.as_bytes())]);
                let mut out = frame(1, 4, s, &blk);
                out.extend_from_slice(&frame(0, 1, s, &rb));
                if mode == BackMode::GoawayAfterThree && conn_no == 1 && !goaway_sent {
                    // hold the answer until three streams are open
                    let t = Instant::now();
                    while order.len() < 3 && t.elapsed() < Duration::from_millis(5) {
                        break;
                    }
                }
                if c.write_all(&out, T).is_err() {
                    return;
                }
            }
        }
        match c.read_some(Duration::from_millis(8)) {
            ReadEnd::Done | ReadEnd::Timeout => {}
            ReadEnd::Closed | ReadEnd::Reset => return,
        }
    }
}

fn case_peer_reset(ctx: &mut Ctx, tls: &mut TlsCtx, name: &str, fails: &mut Vec<Fail>, dist: &mut BTreeMap<String, u64>) -> String {
    use std::io::Write;
    let back_h2 = name != "client-cancels-download" && name != "incremental-priorities";
    let prio = name == "incremental-priorities";
    let (path, _cid, be) = route_tls(ctx, tls, "z", back_h2);
    let case = format!("peer-reset[{name}] path={path}");
    *dist.entry(format!("peer-reset:{name}")).or_insert(0) += 1;
    let stop = std::sync::Arc::new(std::sync::atomic::AtomicBool::new(false));
    let shared = std::sync::Arc::new(std::sync::Mutex::new(PrShared::default()));
    let (stop_b, shared_b) = (stop.clone(), shared.clone());
    let mode = match name {
        "backend-resets-upload" => BackMode::ResetSecond,
        "backend-goaway-retry" => BackMode::GoawayAfterThree,
        _ => BackMode::Plain,
    };
    let dl = 600_000usize;
    let bt = std::thread::spawn(move || {
        let mut hs = vec![];
        let mut no = 0usize;
        // (an accept loop never outlives its case by much, even when the case ends on a set-up panic)
        let born = Instant::now();
        while !stop_b.load(std::sync::atomic::Ordering::Relaxed) && born.elapsed() < Duration::from_secs(30) {
            let Ok(mut b) = be.accept(Duration::from_millis(15)) else { continue };
            no += 1;
            if let Ok(mut g) = shared_b.lock() {
                g.connections = no;
            }
            let (st2, sh2) = (stop_b.clone(), shared_b.clone());
            if back_h2 {
                hs.push(std::thread::spawn(move || serve_h2c_peer(b, no, mode, sh2, st2)));
            } else {
                // HTTP/1.1 backend: GET /…/r<idx> -> `dl` bytes (idx 3: a third of it)
                hs.push(std::thread::spawn(move || {
                    while !st2.load(std::sync::atomic::Ordering::Relaxed) {
                        let Ok(m) = read_http_message(&mut b, Duration::from_millis(100)) else {
                            if b.eof || b.error.is_some() {
                                return;
                            }
                            continue;
                        };
                        let idx: usize = m.start_line.split(' ').nth(1).and_then(|p| p.rsplit("/r").next()).and_then(|t| t.parse().ok()).unwrap_or(0);
                        let body = pr_body(idx, if idx == 9 { dl / 3 } else { dl });
                        let mut out = format!("HTTP/1.1 200 OK\r\nContent-Length: {}\r\n\r\n", body.len()).into_bytes();
                        out.extend_from_slice(&body);
                        // the cancelled download makes sozu drop this connection: not an error here
                        if b.write_all(&out, Duration::from_secs(6)).is_err() {
                            return;
                        }
                    }
                }));
            }
        }
        for h in hs {
            let _ = h.join();
        }
    });
    let finish_threads = |stop: &std::sync::Arc<std::sync::atomic::AtomicBool>, bt: std::thread::JoinHandle<()>| {
        stop.store(true, std::sync::atomic::Ordering::Relaxed);
        let _ = bt.join();
    };
    let st = match tls_front(tls.front, Duration::from_millis(8)) {
        Ok(s) => s,
        Err(e) => {
            finish_threads(&stop, bt);
            fails.push(Fail { class: "h2front-transfer-failed".into(), detail: format!("tls connect: {e:?}"), case: case.clone() });
            return case;
        }
    };
    let mut cl = LedgerClient::new(st);
    let mut hello = b"PRI * HTTP/2.0\r\n\r\nSM\r\n\r\n".to_vec();
    hello.extend_from_slice(&settings_frame(&[]));
    // default stream windows; a 1 MiB connection window, so that the connection-level WINDOW_UPDATEs stay
    // far below the rate the flood defence (C15) cuts off
    hello.extend_from_slice(&frame(8, 0, 0, &((1u32 << 20) - 65535).to_be_bytes()));
    cl.track_recv(65535, 1 << 20);
    if cl.st.write_all(&hello).and_then(|_| cl.st.flush()).is_err() {
        finish_threads(&stop, bt);
        fails.push(Fail { class: "h2front-transfer-failed".into(), detail: "write hello".into(), case: case.clone() });
        return case;
    }
    cl.handshake();
    let up = if back_h2 { 200_000usize } else { 0 };
    let mut uploads: BTreeMap<u32, (Vec<u8>, usize, bool)> = BTreeMap::new();
    let open = |cl: &mut LedgerClient, uploads: &mut BTreeMap<u32, (Vec<u8>, usize, bool)>, idx: usize, len: usize| {
        let sid = 1 + 2 * idx as u32;
        let p = format!("{path}/r{idx}");
        let body = pr_body(idx, len);
        let cls = body.len().to_string();
        let mut hs: Vec<(&[u8], &[u8])> = vec![(b":method", if len > 0 { b"POST" } else { b"GET" }), (b":scheme", b"https"), (b":path", p.as_bytes()), (b":authority", b"localhost")];
        if len > 0 {
            hs.push((b"content-length", cls.as_bytes()));
        }
        // RFC 9218: three incremental streams of one urgency, one of another, an urgent plain one, one without
        let pv: &[u8] = [&b"u=3, i"[..], b"u=3, i", b"u=1", b"u=3, i", b"u=5, i", b""][idx % 6];
        if prio && !pv.is_empty() {
            hs.push((b"priority", pv));
        }
        let blk = cl.enc.encode(hs);
        cl.out.extend_from_slice(&frame(1, 4 | (len == 0) as u8, sid, &blk));
        cl.stream_avail.insert(sid, cl.peer_init);
        if len > 0 {
            uploads.insert(sid, (body, 0, false));
        }
        sid
    };
    let first: Vec<u32> = (0..if prio { 6 } else { 3 }).map(|i| open(&mut cl, &mut uploads, i, up)).collect();
    let mut prio_update_sent = false;
    cl.flush();
    let mut cancelled_at: Option<usize> = None;
    let mut late: Option<u32> = None;
    let deadline = Instant::now() + Duration::from_secs(8);
    loop {
        // uploads, round robin, inside sozu's advertised windows
        for (sid, (body, off, done)) in uploads.iter_mut() {
            if !*done && !cl.rst.contains_key(sid) && !cl.ended.contains(sid) {
                let mut o = *off;
                // at most 32 KB per turn and stream, so that the streams interleave
                let stop_at = (o + 32_768).min(body.len());
                *done = cl.send_data(*sid, &body[..stop_at], &mut o, stop_at == body.len()) && stop_at == body.len();
                *off = o;
            }
        }
        if name == "client-cancels-download" && cancelled_at.is_none() && cl.bodies.get(&3).map(|b| b.len()).unwrap_or(0) >= 100_000 {
            cancelled_at = cl.bodies.get(&3).map(|b| b.len());
            cl.out.extend_from_slice(&frame(3, 0, 3, &8u32.to_be_bytes()));
            cl.cancelled.insert(3);
        }
        if prio && !prio_update_sent && cl.bodies.get(&5).map(|b| b.len()).unwrap_or(0) >= 50_000 {
            // PRIORITY_UPDATE (RFC 9218 7.1): the plain urgent stream becomes incremental in the crowded bucket
            let mut pl = 5u32.to_be_bytes().to_vec();
            pl.extend_from_slice(b"u=3, i");
            cl.out.extend_from_slice(&frame(0x10, 0, 0, &pl));
            prio_update_sent = true;
        }
        let settled = |cl: &LedgerClient, s: &u32| cl.ended.contains(s) || cl.rst.contains_key(s) || cl.cancelled.contains(s);
        if late.is_none() && first.iter().all(|s| settled(&cl, s)) {
            if cl.goaway.is_some() {
                // sozu announced the end of this session (a default answer such as 502 does that): no new stream
                *dist.entry("peer-reset:no-late-stream-after-goaway".into()).or_insert(0) += 1;
                break;
            }
            // a later stream on the same connection must still be served
            late = Some(open(&mut cl, &mut uploads, 9, if back_h2 { 60_000 } else { 0 }));
        }
        if let Some(l) = late {
            if settled(&cl, &l) && uploads.values().all(|u| u.2 || true) {
                break;
            }
        }
        if cl.closed.is_some() || cl.goaway.map(|g| g.1 != 0).unwrap_or(false) || Instant::now() > deadline {
            break;
        }
        cl.pump();
    }
    finish_threads(&stop, bt);
    let g = shared.lock().unwrap_or_else(|e| e.into_inner());
    if name == "client-cancels-download" {
        match cancelled_at {
            Some(n) => {
                dist.insert("peer-reset:download-cancelled-after-bytes".into(), n as u64);
            }
            None => {
                drop(g);
                inconclusive("peer-reset set-up", "the download ended before the client could cancel it");
            }
        }
    }
    let summary = format!(
        "client: statuses {:?}, resets {:?}, goaway {:?}, closed {:?}, cancelled at {:?}, last frames written (type, flags, stream, length) {:?}; backend: {} connection(s), complete requests {:?}, reset request {:?}, notes {:?}",
        cl.status, cl.rst, cl.goaway, cl.closed, cancelled_at, cl.sent_log, g.connections, g.complete.iter().map(|(c, i, b)| (c, i, b.len())).collect::<Vec<_>>(), g.reset_idx, g.notes
    );
    let mut push = |class: &str, what: String| fails.push(Fail { class: class.into(), detail: format!("{what}; {summary}"), case: case.clone() });
    for v in cl.recv_violations.iter().take(1) {
        push("h2-front-window-exceeded-around-peer-reset", v.clone());
    }
    for v in g.violations.iter().take(1) {
        push("h2c-backend-data-after-acknowledged-reset", v.clone());
    }
    // which requests must be served: all but the one the peer cancelled / reset; after a GOAWAY the
    // streams above its last-stream-id may be retried (200) or refused explicitly, never left hanging
    let victim: Option<usize> = match name {
        "client-cancels-download" => Some(1),
        "backend-resets-upload" => g.reset_idx,
        _ => None,
    };
    for idx in 0..10usize {
        let sid = 1 + 2 * idx as u32;
        if Some(sid) != late && !first.contains(&sid) {
            continue;
        }
        let status = cl.status.get(&sid).cloned();
        let ok = status.as_deref() == Some("200") && cl.ended.contains(&sid);
        if Some(idx) == victim {
            if name == "backend-resets-upload" && ok {
                push("h2c-backend-reset-stream-answered-200", format!("request {idx}: the backend reset this stream, the client got a complete 200"));
            }
            continue;
        }
        let may_be_refused = name == "backend-goaway-retry" && (idx == 1 || idx == 2);
        if !ok {
            let explicit = cl.rst.contains_key(&sid) || status.as_deref().map(|s| s.starts_with('5')).unwrap_or(false);
            if may_be_refused && explicit {
                *dist.entry("peer-reset:goaway-stream-refused".into()).or_insert(0) += 1;
                continue;
            }
            let class = if may_be_refused { "h2c-backend-goaway-stream-left-hanging" } else { "h2-sibling-stream-damaged-by-peer-reset" };
            push(class, format!("request {idx} (stream {sid}) was not served: status {status:?}, ended {}, reset {:?}", cl.ended.contains(&sid), cl.rst.get(&sid)));
            continue;
        }
        if may_be_refused {
            *dist.entry("peer-reset:goaway-stream-retried".into()).or_insert(0) += 1;
        }
        // bodies, both directions
        let want_resp = if back_h2 { pr_body(idx + 50, 2000 + idx) } else { pr_body(idx, if idx == 9 { dl / 3 } else { dl }) };
        let got = cl.bodies.get(&sid).cloned().unwrap_or_default();
        if got != want_resp {
            let at = got.iter().zip(want_resp.iter()).position(|(a, b)| a != b).unwrap_or(got.len().min(want_resp.len()));
            push("h2-sibling-stream-body-differs-after-peer-reset", format!("response body of request {idx}: {} bytes, expected {}, first difference at {at}", got.len(), want_resp.len()));
        }
        if back_h2 {
            let want_req = pr_body(idx, if idx == 9 { 60_000 } else { up });
            let at_backend: Vec<&(usize, usize, Vec<u8>)> = g.complete.iter().filter(|(_, i, _)| *i == idx).collect();
            if at_backend.len() != 1 || at_backend[0].2 != want_req {
                push("h2-sibling-stream-body-differs-after-peer-reset", format!("request {idx} answered 200: the backend holds {} complete copies ({:?} bytes), expected one of {} bytes", at_backend.len(), at_backend.iter().map(|x| x.2.len()).collect::<Vec<_>>(), want_req.len()));
            }
        }
    }
    if prio {
        dist.insert("peer-reset:priority-update-sent".into(), prio_update_sent as u64);
    }
    // self-test of the re-run policy: E2E_PEER_RESET_INJECT=always|once adds an artificial failure to this scenario
    if name == "client-cancels-download" {
        static INJECTED: std::sync::atomic::AtomicBool = std::sync::atomic::AtomicBool::new(false);
        match std::env::var("E2E_PEER_RESET_INJECT").as_deref() {
            Ok("always") => push("h2-sibling-stream-damaged-by-peer-reset", "injected (always)".into()),
            Ok("once") if !INJECTED.swap(true, std::sync::atomic::Ordering::SeqCst) => push("h2-sibling-stream-damaged-by-peer-reset", "injected (once)".into()),
            _ => {}
        }
    }
    if name == "backend-resets-upload" && g.reset_idx.is_none() {
        drop(push);
        drop(g);
        inconclusive("peer-reset set-up", "the backend never got to reset its second stream");
    }
    case
}

fn hpack_scenarios() -> Vec<(&'static str, Option<u32>, Vec<HpStep>)> {
    let r = |set: usize| HpStep::Request { set, body: 2, during: None };
    vec![
        ("start-0", Some(0), vec![r(0), r(1)]),
        ("idle-100-then-4096", None, vec![r(0), HpStep::Setting(100), r(1), HpStep::Setting(4096), r(0), r(1)]),
        ("start-8192-drift", Some(8192), vec![r(0), r(1), r(2), r(0), r(1)]),
        ("during-transfer-0", None, vec![HpStep::Request { set: 0, body: 100_000, during: Some(0) }, r(1), r(0)]),
        ("start-65536-then-8192", Some(65536), vec![r(0), r(1), r(2), HpStep::Setting(8192), r(3), r(0), r(1), r(2), r(3), r(0)]),
        ("default-4096", Some(4096), vec![r(0), r(1), r(0)]),
    ]
}

fn main() {
    silence_worker_panics();
    install_panic_recorder();
    let mut guard = Guard::default();
    let args = parse_args();
    let thorough = args.thorough();
    let t0 = Instant::now();
    let mut rng = Rng::new(args.seed ^ 0xe2e);
    let mut fails: Vec<Fail> = vec![];
    let mut dist: BTreeMap<String, u64> = BTreeMap::new();
    let mut samples: Vec<Value> = vec![];
    let mut evaluations = 0u64;
    let mut known_witnesses: Vec<Value> = vec![];
    let sizes = [0usize, 1, 9, 100, 16383, 16384, 16385, 16392, 16393, 16394, 32768, 65535, 65536, 65537, 70000, 200000];
    let budget = Duration::from_secs(if thorough { 600 } else { 45 });

    let mut ctx = match new_ctx() {
        Ok(c) => c,
        Err(e) => {
            // no worker / listener after several attempts: nothing was observed
            guard.inconclusive += 1;
            guard.notes.push(format!("worker + listener set-up: {e}"));
            evaluations += 1;
            finish(&args, evaluations, &dist, &samples, &mut fails, &known_witnesses, &guard, t0);
            return;
        }
    };

    if std::env::var("E2E_DEBUG_CLOSE").is_ok() {
        let be = MockBackend::listen().unwrap();
        ctx.w.add_http_route(ctx.front, "z.test", "/", "cz", be.addr, false).unwrap();
        let mut c = connect_front(ctx.front);
        c.write_all(b"GET / HTTP/1.1\r\nHost: z.test\r\n\r\n", T).unwrap();
        let mut b = be.accept(T).unwrap();
        let _ = read_http_message(&mut b, T);
        let with_conn_close = std::env::var("E2E_DEBUG_CLOSE").unwrap() == "header";
        if with_conn_close {
            b.write_all(b"HTTP/1.1 200 OK\r\nConnection: close\r\n\r\nhello", T).unwrap();
        } else {
            b.write_all(b"HTTP/1.1 200 OK\r\nX-A: b\r\n\r\nhello", T).unwrap();
        }
        std::thread::sleep(Duration::from_millis(50));
        b.close();
        let end = c.read_until_closed_or(Duration::from_secs(3));
        eprintln!("client read end: {end:?}; received: {:?}", String::from_utf8_lossy(&c.received));
        ctx.w.stop();
        return;
    }
    if std::env::var("E2E_DEBUG").is_ok() {
        let iw: u32 = std::env::var("E2E_DEBUG").ok().and_then(|v| v.parse().ok()).unwrap_or(1 << 20);
        let req: usize = std::env::var("E2E_DEBUG_REQ").ok().and_then(|v| v.parse().ok()).unwrap_or(200000);
        let plan = H2Plan { init_window: Some(iw), conn_bump: 1, stingy: false, drip: 100, read_max: 1 << 16, read_pause: Duration::ZERO, resp_body: pattern(3, 65535), resp_content_length: true };
        let (case, rep) = case_h1_h2c(&mut ctx, &mut rng, req, plan, false, &mut fails, &mut dist, "debug");
        let _ = &guard;
        eprintln!("rst={:?} goaway={:?}", rep.rst, rep.goaway);
        std::thread::sleep(Duration::from_millis(50));
        ctx.w.stop();
        eprintln!("{case} frames={} err={:?}", rep.frames, rep.error);
        finish(&args, 1, &dist, &samples, &mut fails, &known_witnesses, &guard, t0);
        return;
    }
    // ---- h2front family: TLS HTTP/2 client -> HTTP/1.1 backend, strict reader at the backend ----
    let family = args.extra.get("family").cloned().unwrap_or_default();
    if family != "overlap" && family != "overlap-front" {
        let mut frng = Rng::new(args.seed ^ 0xf207);
        match new_tls_listener(&mut ctx) {
            Err(e) => {
                guard.inconclusive += 1;
                guard.notes.push(format!("h2front https listener set-up: {e}"));
                evaluations += 1;
            }
            Ok(mut t) => {
                if args.prop != "C03" {
                    for (name, start, steps) in hpack_scenarios() {
                        if family == "backend-stream-limit" || family == "rxledger" || family == "window-rules" || family == "peer-reset" {
                            break;
                        }
                        let case = guarded(&mut guard, &format!("hpack-front[{name}]"), &mut fails, &mut dist, |fails, dist| case_front_hpack(&mut ctx, &mut t, name, start, &steps, fails, dist));
                        evaluations += 1;
                        if let (Some(case), true) = (case, samples.len() < 2) {
                            samples.push(json!({"case": case}));
                        }
                    }
                    if family.is_empty() || family == "hpack" {
                        for (name, start, steps) in hpack_scenarios() {
                            let _ = guarded(&mut guard, &format!("hpack-back[{name}/h2tls]"), &mut fails, &mut dist, |fails, dist| case_back_hpack(&mut ctx, Some(&mut t), name, start, &steps, fails, dist));
                            evaluations += 1;
                        }
                        // HTTP/1.1 front: one request per backend connection (a second one on a kept-alive
                        // session gets 502, see the report), so only the connection-start settings
                        for v in [0u32, 100, 65536] {
                            let _ = guarded(&mut guard, "hpack-back[start-only/h1]", &mut fails, &mut dist, |fails, dist| case_back_hpack(&mut ctx, None, "start-only", Some(v), &[HpStep::Request { set: 0, body: 2, during: None }], fails, dist));
                            evaluations += 1;
                        }
                    }
                    dist.insert("hpack_wall_ms".into(), t0.elapsed().as_millis() as u64);
                }
                if args.prop != "C03" && (family.is_empty() || family == "rxledger" || family == "h2front") {
                    let t_rx = Instant::now();
                    for (name, steps, final_upload) in rxledger_scenarios() {
                        let case = guarded(&mut guard, &format!("rx-ledger[{name}]"), &mut fails, &mut dist, |fails, dist| case_front_rxledger(&mut ctx, &mut t, name, &steps, final_upload, fails, dist));
                        evaluations += 1;
                        if let (Some(case), true) = (case, name == "mixed-causes") {
                            samples.push(json!({"case": case}));
                        }
                    }
                    dist.insert("rxledger_wall_ms".into(), t_rx.elapsed().as_millis() as u64);
                }
                if args.prop != "C03" && (family.is_empty() || family == "backend-stream-limit") {
                    let t_bsl = Instant::now();
                    for (n, k) in backend_stream_limit_scenarios(100) {
                        let case = guarded(&mut guard, &format!("backend-stream-limit[n={n},k={k}]"), &mut fails, &mut dist, |fails, dist| case_backend_stream_limit(&mut ctx, &mut t, n, k, fails, dist));
                        evaluations += 1;
                        if let (Some(case), true) = (case, n == 2 && k == 3) {
                            samples.push(json!({"case": case}));
                        }
                    }
                    dist.insert("backend_stream_limit_wall_ms".into(), t_bsl.elapsed().as_millis() as u64);
                }
                if args.prop == "C14" && (family.is_empty() || family == "window-rules") {
                    let t_wr = Instant::now();
                    for (name, ops) in window_rule_scenarios() {
                        let _ = guarded(&mut guard, &format!("window-rules-front[{name}]"), &mut fails, &mut dist, |fails, dist| case_window_rules_front(&mut ctx, &mut t, name, &ops, &args.driver, fails, dist));
                        let _ = guarded(&mut guard, &format!("window-rules-back[{name}]"), &mut fails, &mut dist, |fails, dist| case_window_rules_back(&mut ctx, &mut t, name, &ops, &args.driver, fails, dist));
                        evaluations += 2;
                    }
                    dist.insert("window_rules_wall_ms".into(), t_wr.elapsed().as_millis() as u64);
                    if family == "window-rules" {
                        ctx.w.stop();
                        finish(&args, evaluations, &dist, &samples, &mut fails, &known_witnesses, &guard, t0);
                        return;
                    }
                }
                if args.prop != "C03" && (family.is_empty() || family == "peer-reset") {
                    let t_pr = Instant::now();
                    for name in ["client-cancels-download", "backend-resets-upload", "backend-goaway-retry", "incremental-priorities"] {
                        // A failure of this family is reported only when the same class shows again in one of two
                        // re-runs of the scenario on fresh connections: a one-off (seen about once in 50 runs, cause
                        // undetermined between sozu and the scripted client) is kept as evidence, not as a verdict.
                        // Deterministic defects fail every run and are reported with the first run's detail.
                        let mut first: Vec<Fail> = vec![];
                        let case = guarded(&mut guard, &format!("peer-reset[{name}]"), &mut first, &mut dist, |fails, dist| case_peer_reset(&mut ctx, &mut t, name, fails, dist));
                        evaluations += 1;
                        if !first.is_empty() {
                            let mut reproduced: Vec<String> = vec![];
                            for _ in 0..2 {
                                let mut again: Vec<Fail> = vec![];
                                let _ = guarded(&mut guard, &format!("peer-reset[{name}] re-run"), &mut again, &mut dist, |fails, dist| case_peer_reset(&mut ctx, &mut t, name, fails, dist));
                                evaluations += 1;
                                for f in &again {
                                    if first.iter().any(|g| g.class == f.class) && !reproduced.contains(&f.class) {
                                        reproduced.push(f.class.clone());
                                    }
                                }
                                if !reproduced.is_empty() {
                                    break;
                                }
                            }
                            let (keep, once): (Vec<Fail>, Vec<Fail>) = first.into_iter().partition(|f| reproduced.contains(&f.class));
                            fails.extend(keep);
                            for f in once {
                                *dist.entry("peer-reset:unreproduced-observation".into()).or_insert(0) += 1;
                                samples.push(json!({"note": "peer-reset: failure seen once, not reproduced in two re-runs of the scenario", "class": f.class, "detail": f.detail, "case": f.case}));
                            }
                        }
                        if let (Some(case), true) = (case, name == "backend-resets-upload") {
                            samples.push(json!({"case": case}));
                        }
                    }
                    dist.insert("peer_reset_wall_ms".into(), t_pr.elapsed().as_millis() as u64);
                    if family == "peer-reset" {
                        ctx.w.stop();
                        finish(&args, evaluations, &dist, &samples, &mut fails, &known_witnesses, &guard, t0);
                        return;
                    }
                }
                if family == "backend-stream-limit" {
                    ctx.w.stop();
                    finish(&args, evaluations, &dist, &samples, &mut fails, &known_witnesses, &guard, t0);
                    return;
                }
                if family == "rxledger" {
                    ctx.w.stop();
                    finish(&args, evaluations, &dist, &samples, &mut fails, &known_witnesses, &guard, t0);
                    return;
                }
                if family == "hpack" {
                    ctx.w.stop();
                    finish(&args, evaluations, &dist, &samples, &mut fails, &known_witnesses, &guard, t0);
                    return;
                }
                if args.prop == "C03" || family == "cl-matrix" {
                    let t_cl = Instant::now();
                    let mut obs: Vec<ClObs> = vec![];
                    for cc in cl_matrix_cases(thorough) {
                        let o = guarded(&mut guard, "cl-matrix", &mut fails, &mut dist, |fails, dist| case_cl_matrix(&mut ctx, &mut t, &cc, fails, dist));
                        evaluations += 1;
                        if let Some(Some(o)) = o {
                            if samples.len() < 2 {
                                samples.push(json!({"case": o.case, "model": o.line}));
                            }
                            obs.push(o);
                        }
                    }
                    cl_matrix_model(&args.driver, &obs, &mut fails, &mut dist);
                    dist.insert("cl_matrix_wall_ms".into(), t_cl.elapsed().as_millis() as u64);
                    if family == "cl-matrix" {
                        ctx.w.stop();
                        finish(&args, evaluations, &dist, &samples, &mut fails, &known_witnesses, &guard, t0);
                        return;
                    }
                }
                for spec in h2front_specs(&mut frng, &args.prop) {
                    let case = guarded(&mut guard, &format!("h2front[{}]", spec.name), &mut fails, &mut dist, |fails, dist| case_h2front(&mut ctx, &mut t, &spec, &args.prop, fails, dist));
                    evaluations += 1;
                    if let (Some(case), true) = (case, samples.len() < 3) {
                        samples.push(json!({"case": case}));
                    }
                }
            }
        }
        if !ctx.w.alive().is_alive() {
            fails.push(Fail { class: "worker-died".into(), detail: format!("{:?}", ctx.w.exit_state()), case: "after h2front".into() });
        }
        dist.insert("h2front_wall_ms".into(), t0.elapsed().as_millis() as u64);
    }
    if family == "h2front" || args.prop == "C03" {
        ctx.w.stop();
        finish(&args, evaluations, &dist, &samples, &mut fails, &known_witnesses, &guard, t0);
        return;
    }
    // ---- overlapping upload / download under back-pressure (h2c backend) ----
    if family.is_empty() || family == "overlap" || family == "overlap-front" {
        let plans: Vec<OverlapPlan> = if thorough {
            vec![
                OverlapPlan { upload: 8 << 20, rcvbuf: 32 << 10, burst: 768 << 10, pause: Duration::from_millis(20), frames_per_pause: 8 },
                OverlapPlan { upload: 8 << 20, rcvbuf: 4 << 10, burst: 256 << 10, pause: Duration::from_millis(10), frames_per_pause: 4 },
                OverlapPlan { upload: 16 << 20, rcvbuf: 64 << 10, burst: 1 << 20, pause: Duration::from_millis(30), frames_per_pause: 16 },
                OverlapPlan { upload: 3 << 20, rcvbuf: 16 << 10, burst: 100_000, pause: Duration::from_millis(5), frames_per_pause: 2 },
                OverlapPlan { upload: 8 << 20, rcvbuf: 32 << 10, burst: 768 << 10, pause: Duration::from_millis(20), frames_per_pause: 8 },
            ]
        } else {
            vec![OverlapPlan { upload: 8 << 20, rcvbuf: 32 << 10, burst: 768 << 10, pause: Duration::from_millis(20), frames_per_pause: 8 }]
        };
        let t1 = Instant::now();
        for plan in &plans {
            let case = guarded(&mut guard, "overlap-h2c", &mut fails, &mut dist, |fails, dist| case_overlap_h2c(&mut ctx, plan, fails, dist));
            evaluations += 1;
            if let (Some(case), true) = (case, samples.len() < 4) {
                samples.push(json!({"case": case}));
            }
            if !ctx.w.alive().is_alive() {
                fails.push(Fail { class: "worker-died".into(), detail: format!("{:?}", ctx.w.exit_state()), case: "after overlap".into() });
                break;
            }
        }
        if !thorough && family != "overlap-front" && args.prop != "C14" {
            // quick tier: one slow-reading TLS HTTP/2 client, so that the TLS write path of the frontend
            // (rustls buffer full, write_tls would-block, parked frame resumed) is exercised on every run
            match new_tls_listener(&mut ctx) {
                Err(e) => {
                    guard.inconclusive += 1;
                    guard.notes.push(format!("overlap-h2front https listener set-up: {e}"));
                    evaluations += 1;
                }
                Ok(mut t) => {
                    let case = guarded(&mut guard, "overlap-h2front", &mut fails, &mut dist, |fails, dist| case_overlap_h2front(&mut ctx, &mut t, 1 << 20, 12 << 20, 2048, fails, dist));
                    evaluations += 1;
                    if let Some(case) = case {
                        samples.push(json!({"case": case}));
                    }
                }
            }
        }
        if thorough || family == "overlap-front" {
            match new_tls_listener(&mut ctx) {
                Err(e) => {
                    guard.inconclusive += 1;
                    guard.notes.push(format!("overlap-h2front https listener set-up: {e}"));
                    evaluations += 1;
                }
                Ok(mut t) => {
                    for (u, d, rc) in [(4usize << 20, 24usize << 20, 4096usize), (8 << 20, 16 << 20, 1024), (1 << 20, 32 << 20, 16384)] {
                        let case = guarded(&mut guard, "overlap-h2front", &mut fails, &mut dist, |fails, dist| case_overlap_h2front(&mut ctx, &mut t, u, d, rc, fails, dist));
                        evaluations += 1;
                        if let Some(case) = case {
                            samples.push(json!({"case": case}));
                        }
                    }
                }
            }
        }
        dist.insert("overlap_wall_ms".into(), t1.elapsed().as_millis() as u64);
        if family == "overlap" || family == "overlap-front" {
            ctx.w.stop();
            finish(&args, evaluations, &dist, &samples, &mut fails, &known_witnesses, &guard, t0);
            return;
        }
    }
    // ---- fixed witnesses first (re-demonstrated on every run) ----
    // W1: the backend advertises a small initial window, a large connection window and
    //     gives no stream credit until its window is used up.
    {
        let plan = H2Plan { init_window: Some(1000), conn_bump: 1 << 20, stingy: true, drip: 1000, read_max: 1 << 16, read_pause: Duration::ZERO, resp_body: b"ok".to_vec(), resp_content_length: true };
        let before = fails.len();
        let r = guarded(&mut guard, "witness-small-window", &mut fails, &mut dist, |fails, dist| case_h1_h2c(&mut ctx, &mut rng, 5000, plan, false, fails, dist, "witness-small-window"));
        evaluations += 1;
        if let Some((case, rep)) = r {
            let hit = fails[before..].iter().any(|f| f.class == "h2c-backend-stream-window-exceeded-by-one");
            known_witnesses.push(json!({"class": "h2c-backend-stream-window-exceeded-by-one", "reproduced": hit, "case": case, "over_by": rep.max_over_stream}));
            samples.push(json!({"case": case, "frames": rep.frames, "violations": rep.violations.len(), "over_by": rep.max_over_stream}));
        }
    }
    // W2: RFC-default stream window (65535), large connection window, body of 70000
    {
        let plan = H2Plan { init_window: None, conn_bump: 1 << 20, stingy: true, drip: 65535, read_max: 1 << 16, read_pause: Duration::ZERO, resp_body: pattern(3, 70000), resp_content_length: false };
        let r = guarded(&mut guard, "witness-default-window", &mut fails, &mut dist, |fails, dist| case_h1_h2c(&mut ctx, &mut rng, 70000, plan, false, fails, dist, "witness-default-window"));
        evaluations += 1;
        if let Some((case, rep)) = r {
            samples.push(json!({"case": case, "frames": rep.frames, "violations": rep.violations.len(), "over_by": rep.max_over_stream}));
        }
    }
    // ---- corpus: second request on a kept-alive HTTP/1.1 connection towards an h2c backend ----
    if args.prop != "C14" {
        for req_len in [0usize, 9, 20000] {
            let case = guarded(&mut guard, "h1-h2c-keepalive", &mut fails, &mut dist, |fails, dist| case_h1_h2c_keepalive(&mut ctx, req_len, fails, dist));
            evaluations += 1;
            if let (Some(case), true) = (case, req_len == 9) {
                samples.push(json!({"case": case}));
            }
        }
    }
    if !ctx.w.alive().is_alive() {
        fails.push(Fail { class: "worker-died".into(), detail: format!("{:?}", ctx.w.exit_state()), case: "after witnesses".into() });
    }

    // ---- exploration ----
    let mut tls: Option<TlsCtx> = None;
    let mut i = 0u64;
    let mut no_worker = false;
    while t0.elapsed() < budget && std::env::var("E2E_ONLY_WITNESSES").is_err() {
        i += 1;
        if i % 40 == 0 || !ctx.w.alive().is_alive() {
            if !ctx.w.alive().is_alive() {
                fails.push(Fail { class: "worker-died".into(), detail: format!("{:?}", ctx.w.exit_state()), case: format!("before case {i}") });
            }
            ctx.w.stop();
            tls = None;
            ctx = match new_ctx() {
                Ok(c) => c,
                Err(e) => {
                    guard.inconclusive += 1;
                    guard.notes.push(format!("worker + listener set-up before case {i}: {e}"));
                    evaluations += 1;
                    no_worker = true;
                    break;
                }
            };
        }
        evaluations += 1;
        if thorough && rng.chance(1, 4) {
            if tls.is_none() {
                tls = new_tls_listener(&mut ctx).ok();
            }
            if let Some(t) = tls.as_mut() {
                let iw = *rng.pick(&[1u32, 1000, 16384, 65535, 1 << 20, 0x7fff_ffff]);
                let (rq, mut rs) = (*rng.pick(&sizes), *rng.pick(&sizes));
                if iw == 1 {
                    // a 1-byte drip over a large body is what the flood / stall-budget defences cut off
                    // (C15): keep the drip to bodies it can finish
                    rs = rs.min(100);
                }
                let stingy = rng.chance(1, 2);
                let case = guarded(&mut guard, "h2tls-h1", &mut fails, &mut dist, |fails, dist| case_h2_h1(&mut ctx, t, &mut rng, rq, rs, iw, stingy, fails, dist));
                if let (Some(case), true) = (case, samples.len() < 8) {
                    samples.push(json!({"case": case}));
                }
                continue;
            }
        }
        // under C14 only the h2c pairs matter (peer limits, transfers keep moving)
        if args.prop != "C14" && rng.chance(1, 2) {
            let case = guarded(&mut guard, "h1-h1", &mut fails, &mut dist, |fails, dist| case_h1_h1(&mut ctx, &mut rng, &sizes, fails, dist));
            if let (Some(case), true) = (case, samples.len() < 4) {
                samples.push(json!({"case": case}));
            }
        } else {
            // flow-control precondition respected (stream window >= what sozu assumes), so that
            // byte-exactness and liveness are explored beyond the known over-commit
            let slow = rng.chance(1, 3);
            let init_window = match rng.below(6) {
                0 => None,
                1 => Some(65535),
                2 => Some(1 << 20),
                3 => Some(if thorough { *rng.pick(&[0x7fff_fffeu32, 1 << 30]) } else { 1 << 24 }),
                4 => Some(rng.range(2, 4000) as u32),
                _ => Some(16384 + rng.range(0, 100000) as u32),
            };
            let plan = H2Plan {
                init_window,
                stingy: false,
                conn_bump: *rng.pick(&[0u32, 1, 1000, 1 << 20]),
                drip: *rng.pick(&[1u32, 100, 16384, 65535, 1 << 20]),
                read_max: if slow { *rng.pick(&[512usize, 4096]) } else { 1 << 16 },
                read_pause: if slow { Duration::from_micros(300) } else { Duration::ZERO },
                resp_body: pattern(rng.below(200) as usize, *rng.pick(&sizes)),
                resp_content_length: rng.chance(1, 2),
            };
            let n = *rng.pick(&sizes);
            let r = guarded(&mut guard, "h1-h2c", &mut fails, &mut dist, |fails, dist| case_h1_h2c(&mut ctx, &mut rng, n, plan, slow, fails, dist, if slow { "slow-reader" } else { "fast" }));
            if let (Some((case, rep)), true) = (r, samples.len() < 6) {
                samples.push(json!({"case": case, "frames": rep.frames}));
            }
        }
        if fails.len() > if thorough { 600 } else { 60 } {
            break;
        }
    }
    if !no_worker && !ctx.w.alive().is_alive() {
        fails.push(Fail { class: "worker-died".into(), detail: format!("{:?}", ctx.w.exit_state()), case: "end".into() });
    }
    ctx.w.stop();
    finish(&args, evaluations, &dist, &samples, &mut fails, &known_witnesses, &guard, t0);
}

fn finish(args: &verif_harness::Args, evaluations: u64, dist: &BTreeMap<String, u64>, samples: &[Value], fails: &mut Vec<Fail>, known: &[Value], guard: &Guard, t0: Instant) {
    // more than 5 % of the transfers without an observation: the run says too little
    if guard.inconclusive * 20 > evaluations.max(1) {
        fails.push(Fail {
            class: "harness-inconclusive".into(),
            detail: format!("{} of {} transfers inconclusive (harness set-up could not be completed / harness panic): {}", guard.inconclusive, evaluations, guard.notes.iter().take(4).cloned().collect::<Vec<_>>().join(" | ")),
            case: "-".into(),
        });
    }
    let fails: &[Fail] = fails;
    // at most 3 failures per class
    let mut per: BTreeMap<String, usize> = BTreeMap::new();
    let mut out = vec![];
    // C14 reports the peer-limit and liveness classes; byte-exactness classes belong to C01
    let relevant = |class: &str| {
        let setup = class == "worker-died" || class == "rig-setup" || class == "harness-inconclusive" || class == "listener-connect-failed";
        match args.prop.as_str() {
            // peer limits and liveness
            "C14" => setup || class.starts_with("h2c-") || class.starts_with("h2-front-") || class.starts_with("h2tls-h1-response-stalled") || (class.starts_with("h1-h2c-") && class != "h1-h2c-keepalive-second-request-502") || class == "h2front-response-stalled" || class == "h2-frame-sync-lost-mid-data" || class == "body-corrupted-under-backpressure" || class.starts_with("hpack-") || class == "healthy-backend-request-answered-503" || class == "h2-window-rules-model-disagrees" || class == "h2-sibling-stream-damaged-by-peer-reset",
            // request boundaries at the backend
            "C03" => setup || class.starts_with("h2-h1-") || class.starts_with("c03-"),
            // C02 runs the backend-stream-limit family only: a fully received request answered by sozu instead of the healthy backend
            "C02" => setup || class == "healthy-backend-request-answered-503",
            // C01: byte-exactness and clean ends; the window-ledger classes are C14's, the trailer classes C03's
            _ => !class.starts_with("h2c-") && !class.starts_with("h2-front-") && !class.starts_with("c03-") && !class.starts_with("hpack-size-update") && class != "healthy-backend-request-answered-503",
        }
    };
    for f in fails.iter().filter(|f| relevant(&f.class)) {
        let n = per.entry(f.class.clone()).or_insert(0);
        *n += 1;
        if *n <= 3 {
            out.push(json!({"kind": "oracle", "class": f.class, "detail": f.detail, "case": -1, "ops": [f.case], "impl_out": [], "model_out": []}));
        }
    }
    let res = json!({
        "area": "e2ebody", "property": args.prop, "tier": args.tier, "seed": args.seed,
        "evaluations": evaluations, "distinct_nontrivial": evaluations,
        "rule": "real worker (rig), HTTP/1.1 client with imposed write segmentation; backend HTTP/1.1 (Content-Length / chunked / close-delimited answers, 1..3 keep-alive requests) or scripted h2c backend with its own window ledger (initial window, connection bump, drip size, slow reader with 4 KiB receive buffer); body sizes 0,1,9,100,16383..16385,16392..16394 (buffer_size),32768,65535..65537,70000,200000 both ways; two fixed flow-control witnesses first; non-trivial = every transfer (each is a full proxied exchange)",
        "samples": samples, "traces_validated_against_impl": evaluations, "disagreements_checked": evaluations,
        "distribution": dist, "failures": out, "known_witnesses": known,
        "extra": {"failure_counts": per, "inconclusive": guard.inconclusive, "inconclusive_notes": guard.notes}, "wall_s": t0.elapsed().as_secs_f64(),
    });
    if !args.out.is_empty() {
        let text = serde_json::to_string_pretty(&res).unwrap_or_else(|e| format!("{{\"error\": \"{e}\"}}"));
        if let Err(e) = std::fs::write(&args.out, text) {
            eprintln!("e2ebody: cannot write {}: {e}", args.out);
        }
    }
    let shown: Vec<&Fail> = fails.iter().filter(|f| relevant(&f.class)).collect();
    println!("e2ebody: {evaluations} transfers ({} inconclusive), {} failure(s) in {} class(es) for {}", guard.inconclusive, shown.len(), per.len(), args.prop);
    for n in guard.notes.iter().take(5) {
        println!("  inconclusive: {n}");
    }
    for (c, n) in &per {
        println!("FAIL oracle {c} x{n}");
    }
    for f in shown.iter().take(8) {
        println!("  {} :: {} :: {}", f.class, f.detail, f.case);
    }
    std::process::exit(if shown.is_empty() { 0 } else { 1 });
}
