//! C04: real `sozu_lib::router::Router` vs the Lean model `Sozu.Router.Model`
//! (+ `Sozu.Trie.Model`) and the Lean spec `Sozu.Router.Spec`, plus the
//! property's own oracles (independent of the model):
//!   * precedence: the lookup answer is one of the answers the documented
//!     precedence admits for the *set* of configured frontends (own Rust spec);
//!   * history independence / permutation: two points of a case with the same
//!     configured set give the same lookups (unless both answers are admitted);
//!   * removed-never-routes: the answer is carried by a configured frontend;
//!   * irrelevant change: an add/remove of a frontend that does not match a
//!     probe leaves that probe's answer unchanged.
//! Every failure is fingerprinted by root cause (`classify`).
use std::collections::{BTreeSet, HashMap};
use std::net::SocketAddr;

use regex::bytes::Regex;
use std::collections::BTreeMap;
use sozu_command_lib::proto::command::{Header, HstsConfig, PathRule, RequestHttpFrontend, RulePosition};
use sozu_command_lib::response::HttpFrontend;
use sozu_lib::protocol::kawa_h1::parser::Method;
use std::cell::RefCell;
use std::rc::Rc;

use mio::Token;
use slab::Slab;
use sozu_command_lib::config::ListenerBuilder;
use sozu_command_lib::proto::command::UpdateHttpsListenerConfig;
use sozu_lib::backends::BackendMap;
use sozu_lib::http::HttpProxy;
use sozu_lib::https::HttpsListener;
use sozu_lib::pool::Pool;
use sozu_lib::router::{HstsOrigin, RouteResult, Router, RouterError};
use sozu_lib::server::SessionManager;
use sozu_lib::{FrontendFromRequestError, L7ListenerHandler, ListenerError, ListenerHandler, ProxyError};
use verif_harness::*;

struct RouterArea;

// ------------------------------------------------------------ alphabets --

const HOSTS_BASE: &[&str] = &["a.io", "b.a.io", "*.a.io", "*", "c.a.io", "*.io", "bc.a.io"];
const HOSTS_RE: &[&str] = &["/b.*/.a.io", "/[bc]+/.a.io"];
const HOSTS_MID: &[&str] = &["w./x.*/.io", "w.xy.io", "v./x.*/.io", "v./xy+/.io"];
const HOSTS_BAD: &[&str] = &["a*.io", "/(/.a.io", "/b.a.io", "a./b", "/b/x.io", "b*"];
/// hostnames that pass `DomainRule::from_str` (a regex is compiled from them) but that the trie
/// cannot store: `remove` and `lookup_mut` answer "not found", a tree `add` is refused (it used to panic: F1493)
const HOSTS_UNSTORABLE: &[&str] = &["a/", "x/b/", "w./x/y"];
const PROBE_HOSTS: &[&str] = &[
    "a.io", "b.a.io", "c.a.io", "bc.a.io", "d.a.io", "x.b.a.io", "io", "localhost", "w.xy.io", "v.xy.io",
    "w.xz.io", "", ".io", "a..io", "*.a.io",
];
const PFX: &[&str] = &["", "/", "/a", "/a/b", "/ab"];
const EQS: &[&str] = &["/a", "/ab", "/", "/a/b"];
const RES: &[&str] = &["/a.*", "^/ab?$", "/a/[a-z]+"];
const RE_BAD: &str = "(";
const PROBE_PATHS: &[&str] = &["/", "/a", "/ab", "/a/b", "/abc", "/x", ""];
const METHODS: &[&str] = &["GET", "POST"];

// ------------------------------------------------------------- op lines --

#[derive(Clone, Debug, PartialEq)]
struct Front {
    pos: u8, // 0 pre, 1 post, 2 tree (RulePosition)
    host: String,
    kind: u32,
    path: String,
    method: Option<String>,
    cluster: Option<String>,
    redirect: Option<u32>,
    scheme: Option<u32>,
    tmpl: Option<String>,
    rhost: Option<String>,
    rpath: Option<String>,
    rport: Option<u32>,
    auth: Option<bool>,
    /// HeaderPosition of each header entry
    headers: Vec<u32>,
    /// (enabled == Some(true), max_age.is_some())
    hsts: Option<(bool, bool)>,
    /// HstsOrigin::InheritedFromListenerDefault
    inherit: bool,
    /// 0 = the listener's address, 1 = an address without listener
    addr: u8,
}

fn hx(s: &str) -> String {
    hex(s.as_bytes())
}
fn ohx(s: &Option<String>) -> String {
    match s {
        None => "~".into(),
        Some(s) => hx(s),
    }
}
fn on(n: &Option<u32>) -> String {
    match n {
        None => "~".into(),
        Some(n) => n.to_string(),
    }
}
fn unhx(s: &str) -> String {
    String::from_utf8_lossy(&unhex(s)).into_owned()
}
fn unohx(s: &str) -> Option<String> {
    if s == "~" {
        None
    } else {
        Some(unhx(s))
    }
}
fn unon(s: &str) -> Option<u32> {
    if s == "~" {
        None
    } else {
        s.parse().ok()
    }
}

/// own conversion of a hostname pattern with `/re/` segments into the
/// anchored whole-host regex (what `DomainRule::Regex` means)
fn conv_host_regex(host: &str) -> Option<String> {
    let mut out = String::from("\\A");
    let mut first = true;
    let b = host.as_bytes();
    let mut i = 0;
    loop {
        if !first {
            out.push_str("\\.");
        }
        first = false;
        if i < b.len() && b[i] == b'/' {
            let j = (i + 1..b.len()).find(|&j| b[j] == b'/')?;
            out.push_str(std::str::from_utf8(&b[i + 1..j]).ok()?);
            i = j + 1;
        } else {
            let j = (i..b.len()).find(|&j| b[j] == b'.').unwrap_or(b.len());
            out.push_str(std::str::from_utf8(&b[i..j]).ok()?);
            i = j;
        }
        if i == b.len() {
            out.push_str("\\z");
            return Some(out);
        }
        if b[i] != b'.' {
            return None;
        }
        i += 1;
    }
}

fn host_ok(host: &str) -> bool {
    if host.contains('/') {
        conv_host_regex(host).map(|r| Regex::new(&r).is_ok()).unwrap_or(false)
    } else {
        true
    }
}
fn path_ok(kind: u32, path: &str) -> bool {
    kind != 1 || Regex::new(path).is_ok()
}

/// segment regex sources of a tree host pattern
fn seg_patterns(host: &str) -> Vec<String> {
    let mut v = vec![];
    let b = host.as_bytes();
    let mut i = 0;
    while i < b.len() {
        if b[i] == b'/' {
            if let Some(j) = (i + 1..b.len()).find(|&j| b[j] == b'/') {
                v.push(host[i + 1..j].to_string());
                i = j + 1;
                continue;
            }
        }
        i += 1;
    }
    v
}

#[derive(Default, Clone)]
struct InPlay {
    seg: BTreeSet<String>,
    dom: BTreeSet<String>,
    path: BTreeSet<String>,
}

impl InPlay {
    fn note(&mut self, f: &Front) {
        if f.host.contains('/') && host_ok(&f.host) {
            self.dom.insert(f.host.clone());
            for p in seg_patterns(&f.host) {
                self.seg.insert(p);
            }
        }
        if f.kind == 1 && path_ok(1, &f.path) {
            self.path.insert(f.path.clone());
        }
    }
    /// truth table for one op: segment regexes on every label of `host`,
    /// hostname regexes on `host`, path regexes on `path` (real `regex` crate)
    fn table(&self, host: &str, path: Option<&str>) -> String {
        let mut es = vec![];
        for p in &self.seg {
            if let Ok(r) = Regex::new(&format!("\\A{p}\\z")) {
                let mut labels: BTreeSet<&str> = host.split('.').collect();
                labels.insert(host);
                for l in labels {
                    es.push(format!("S{}:{}:{}", hx(p), hx(l), r.is_match(l.as_bytes()) as u8));
                }
            }
        }
        for p in &self.dom {
            if let Some(Ok(r)) = conv_host_regex(p).map(|c| Regex::new(&c)) {
                es.push(format!("D{}:{}:{}", hx(p), hx(host), r.is_match(host.as_bytes()) as u8));
            }
        }
        if let Some(path) = path {
            for p in &self.path {
                if let Ok(r) = Regex::new(p) {
                    es.push(format!("P{}:{}:{}", hx(p), hx(path), r.is_match(path.as_bytes()) as u8));
                }
            }
        }
        if es.is_empty() {
            "-".into()
        } else {
            es.join(",")
        }
    }
}

fn add_line(f: &Front, ip: &InPlay) -> String {
    format!(
        "add {} {} {} {} {} {} {} {} {} {} {} {} {} {} {} {} {} {} {} {}",
        f.pos,
        hx(&f.host),
        f.kind,
        hx(&f.path),
        ohx(&f.method),
        ohx(&f.cluster),
        on(&f.redirect),
        on(&f.scheme),
        ohx(&f.tmpl),
        ohx(&f.rhost),
        ohx(&f.rpath),
        on(&f.rport),
        match f.auth {
            None => "~".to_string(),
            Some(b) => (b as u8).to_string(),
        },
        path_ok(f.kind, &f.path) as u8,
        host_ok(&f.host) as u8,
        ip.table(&f.host, None),
        if f.headers.is_empty() { "-".to_string() } else { f.headers.iter().map(|h| h.to_string()).collect::<String>() },
        match f.hsts {
            None => "~".to_string(),
            Some((a, b)) => format!("{}{}", a as u8, b as u8),
        },
        f.inherit as u8,
        f.addr
    )
}
fn rem_line(f: &Front, ip: &InPlay) -> String {
    format!(
        "rem {} {} {} {} {} {} {} {} {}",
        f.pos,
        hx(&f.host),
        f.kind,
        hx(&f.path),
        ohx(&f.method),
        path_ok(f.kind, &f.path) as u8,
        host_ok(&f.host) as u8,
        ip.table(&f.host, None),
        f.addr
    )
}
fn probe_line(h: &str, p: &str, m: &str, ip: &InPlay) -> String {
    // in the listener modes `h` is a Host header value: the regexes see the hostname part
    let host = authority_host(h).unwrap_or_else(|| h.to_string());
    format!("probe {} {} {} {}", hx(h), hx(p), hx(m), ip.table(&host, Some(p)))
}

/// own transcription of what `frontend_from_request` accepts as Host /
/// :authority value: hostname characters, optionally `:port` with 1..=65535
fn authority_host(a: &str) -> Option<String> {
    let b = a.as_bytes();
    let n = b.iter().take_while(|c| c.is_ascii_alphanumeric() || **c == b'-' || **c == b'.').count();
    if n == 0 {
        return None;
    }
    let rest = &a[n..];
    if rest.is_empty() {
        return Some(a[..n].to_string());
    }
    let digits = rest.strip_prefix(':')?;
    if digits.is_empty() || !digits.bytes().all(|c| c.is_ascii_digit()) {
        return None;
    }
    match digits.parse::<u32>() {
        Ok(p) if (1..=65535).contains(&p) => Some(a[..n].to_string()),
        _ => None,
    }
}

enum Op {
    New(u8),
    Hsts(bool),
    Add(Front),
    Rem(Front),
    Probe(String, String, String),
    Bad,
}

fn parse_op(line: &str) -> Op {
    let w: Vec<&str> = line.split_whitespace().collect();
    match w.first().copied() {
        Some("new") if w.len() == 1 => Op::New(0),
        Some("new") if w.len() == 2 && w[1] == "http" => Op::New(1),
        Some("new") if w.len() == 2 && w[1] == "https" => Op::New(2),
        Some("add") if w.len() == 21 => Op::Add(Front {
            pos: w[1].parse().unwrap_or(9),
            host: unhx(w[2]),
            kind: w[3].parse().unwrap_or(9),
            path: unhx(w[4]),
            method: unohx(w[5]),
            cluster: unohx(w[6]),
            redirect: unon(w[7]),
            scheme: unon(w[8]),
            tmpl: unohx(w[9]),
            rhost: unohx(w[10]),
            rpath: unohx(w[11]),
            rport: unon(w[12]),
            auth: match w[13] {
                "1" => Some(true),
                "0" => Some(false),
                _ => None,
            },
            headers: if w[17] == "-" { vec![] } else { w[17].chars().filter_map(|c| c.to_digit(10)).collect() },
            hsts: match w[18] {
                "~" => None,
                x => Some((x.starts_with('1'), x.ends_with('1'))),
            },
            inherit: w[19] == "1",
            addr: w[20].parse().unwrap_or(9),
        }),
        Some("rem") if w.len() == 10 => Op::Rem(Front {
            pos: w[1].parse().unwrap_or(9),
            host: unhx(w[2]),
            kind: w[3].parse().unwrap_or(9),
            path: unhx(w[4]),
            method: unohx(w[5]),
            cluster: None,
            redirect: None,
            scheme: None,
            tmpl: None,
            rhost: None,
            rpath: None,
            rport: None,
            auth: None,
            headers: vec![],
            hsts: None,
            inherit: false,
            addr: w[9].parse().unwrap_or(9),
        }),
        Some("probe") if w.len() == 5 => Op::Probe(unhx(w[1]), unhx(w[2]), unhx(w[3])),
        Some("hsts") if w.len() == 2 => Op::Hsts(w[1] == "1"),
        _ => Op::Bad,
    }
}

// ------------------------------------------------------ the real router --

fn http_front(f: &Front) -> Option<HttpFrontend> {
    let position = match f.pos {
        0 => RulePosition::Pre,
        1 => RulePosition::Post,
        2 => RulePosition::Tree,
        _ => return None,
    };
    Some(HttpFrontend {
        cluster_id: f.cluster.clone(),
        address: LISTEN_ADDR.parse::<SocketAddr>().unwrap(),
        hostname: f.host.clone(),
        path: PathRule { kind: f.kind as i32, value: f.path.clone() },
        method: f.method.clone(),
        position,
        tags: None,
        redirect: f.redirect.map(|x| x as i32),
        redirect_scheme: f.scheme.map(|x| x as i32),
        redirect_template: f.tmpl.clone(),
        rewrite_host: f.rhost.clone(),
        rewrite_path: f.rpath.clone(),
        rewrite_port: f.rport,
        required_auth: f.auth,
        headers: mk_headers(f),
        hsts: mk_hsts(f),
    })
}

fn mk_headers(f: &Front) -> Vec<Header> {
    f.headers
        .iter()
        .enumerate()
        .map(|(i, p)| Header { position: *p as i32, key: format!("x-h{i}"), val: format!("v{i}") })
        .collect()
}
fn mk_hsts(f: &Front) -> Option<HstsConfig> {
    f.hsts.map(|(en, age)| HstsConfig {
        enabled: Some(en),
        max_age: if age { Some(31_536_000) } else { None },
        include_subdomains: None,
        preload: None,
        force_replace_backend: None,
    })
}

fn request_front(f: &Front) -> RequestHttpFrontend {
    RequestHttpFrontend {
        cluster_id: f.cluster.clone(),
        address: if f.addr == 0 { LISTEN_ADDR } else { "127.0.0.1:9999" }.parse::<SocketAddr>().unwrap().into(),
        hostname: f.host.clone(),
        path: PathRule { kind: f.kind as i32, value: f.path.clone() },
        method: f.method.clone(),
        position: f.pos as i32,
        tags: BTreeMap::new(),
        redirect: f.redirect.map(|x| x as i32),
        redirect_scheme: f.scheme.map(|x| x as i32),
        redirect_template: f.tmpl.clone(),
        rewrite_host: f.rhost.clone(),
        rewrite_path: f.rpath.clone(),
        rewrite_port: f.rport,
        required_auth: f.auth,
        headers: mk_headers(f),
        hsts: mk_hsts(f),
    }
}

const LISTEN_ADDR: &str = "127.0.0.1:8080";


/// what the operations are driven through: the bare `Router`, an `HttpProxy`
/// with one HTTP listener (`add_http_frontend` / `remove_http_frontend` /
/// `frontend_from_request`), or an `HttpsListener`
enum Backend {
    Router(Router),
    Http(Box<HttpProxy>, Token),
    Https(Box<HttpsListener>),
}

fn router_err(e: &RouterError) -> &'static str {
    match e {
        RouterError::InvalidPathRule(_) => "err-path",
        RouterError::InvalidDomain { .. } => "err-domain",
        RouterError::AddRoute(_) => "err-add",
        RouterError::RemoveRoute(_) => "err-remove",
        _ => "err-other",
    }
}
fn listener_err(e: &ListenerError) -> &'static str {
    match e {
        ListenerError::AddFrontend(r) | ListenerError::RemoveFrontend(r) => router_err(r),
        _ => "err-other",
    }
}
fn proxy_err(e: &ProxyError) -> &'static str {
    match e {
        ProxyError::HstsOnPlainHttp(_) => "err-hsts",
        ProxyError::WrongInputFrontend { .. } => "err-input",
        ProxyError::NoListenerFound(_) => "err-nolistener",
        ProxyError::AddFrontend(l) | ProxyError::RemoveFrontend(l) => listener_err(l),
        _ => "err-other",
    }
}

impl Backend {
    fn new(mode: u8) -> Backend {
        let addr: SocketAddr = LISTEN_ADDR.parse().unwrap();
        match mode {
            1 => {
                let poll = mio::Poll::new().expect("poll");
                let registry = poll.registry().try_clone().expect("registry");
                let sessions = SessionManager::new(Slab::with_capacity(8), 8, 0, 0);
                let pool = Rc::new(RefCell::new(Pool::with_capacity(1, 2, 16_384)));
                let backends = Rc::new(RefCell::new(BackendMap::new()));
                let mut proxy = HttpProxy::new(registry, sessions, pool, backends);
                let cfg = ListenerBuilder::new_http(addr.into()).to_http(None).expect("http listener config");
                let token = proxy.add_listener(cfg, Token(1)).expect("add_listener");
                Backend::Http(Box::new(proxy), token)
            }
            2 => {
                let cfg = ListenerBuilder::new_https(addr.into()).to_tls(None).expect("https listener config");
                Backend::Https(Box::new(HttpsListener::try_new(cfg, Token(1)).expect("https listener")))
            }
            _ => Backend::Router(Router::new()),
        }
    }
    fn mode(&self) -> u8 {
        match self {
            Backend::Router(_) => 0,
            Backend::Http(..) => 1,
            Backend::Https(_) => 2,
        }
    }
    /// `None` = the op cannot be expressed on this backend (bad-op)
    fn add(&mut self, f: &Front) -> Option<&'static str> {
        match self {
            Backend::Router(r) => {
                let hf = http_front(f)?;
                let origin = if f.inherit { HstsOrigin::InheritedFromListenerDefault } else { HstsOrigin::Explicit };
                Some(match r.add_http_front_with_hsts_origin(&hf, origin) {
                    Ok(()) => "ok",
                    Err(e) => router_err(&e),
                })
            }
            Backend::Http(p, _) => Some(match p.add_http_frontend(request_front(f)) {
                Ok(()) => "ok",
                Err(e) => proxy_err(&e),
            }),
            Backend::Https(l) => {
                let hf = http_front(f)?;
                let origin = if f.inherit { HstsOrigin::InheritedFromListenerDefault } else { HstsOrigin::Explicit };
                Some(match l.add_https_front_with_hsts_origin(hf, origin) {
                    Ok(()) => "ok",
                    Err(e) => listener_err(&e),
                })
            }
        }
    }
    fn rem(&mut self, f: &Front) -> Option<String> {
        match self {
            Backend::Router(r) => {
                let hf = http_front(f)?;
                let out = match r.remove_http_front(&hf) {
                    Ok(()) => "ok",
                    Err(e) => router_err(&e),
                };
                Some(format!("{out} hh={}", r.has_hostname(&f.host) as u8))
            }
            Backend::Http(p, t) => {
                let out = match p.remove_http_frontend(request_front(f)) {
                    Ok(()) => "ok",
                    Err(e) => proxy_err(&e),
                };
                let tags = p.get_listener(t).map(|l| l.borrow().get_tags(&f.host).is_some()).unwrap_or(false);
                Some(format!("{out} t={}", tags as u8))
            }
            Backend::Https(l) => {
                let hf = http_front(f)?;
                Some(
                    match l.remove_https_front(hf) {
                        Ok(()) => "ok",
                        Err(e) => listener_err(&e),
                    }
                    .to_string(),
                )
            }
        }
    }
    fn lookup(&self, h: &str, p: &str, m: &str) -> String {
        let method = Method::new(m.as_bytes());
        let res = match self {
            Backend::Router(r) => {
                return match r.lookup(h, p, &method) {
                    Ok(r) => show_result(&r),
                    Err(RouterError::RouteNotFound { .. }) => "none".into(),
                    Err(_) => "error".into(),
                }
            }
            Backend::Http(px, t) => px.get_listener(t).expect("listener").borrow().frontend_from_request(h, p, &method),
            Backend::Https(l) => l.frontend_from_request(h, p, &method),
        };
        match res {
            Ok(r) => show_result(&r),
            Err(FrontendFromRequestError::NoClusterFound(RouterError::RouteNotFound { .. })) => "none".into(),
            Err(FrontendFromRequestError::NoClusterFound(_)) => "error".into(),
            Err(_) => "err-host".into(),
        }
    }
    fn hsts(&mut self, edit: bool) -> Option<&'static str> {
        let cfg = HstsConfig {
            enabled: Some(edit),
            max_age: Some(600),
            include_subdomains: None,
            preload: None,
            force_replace_backend: None,
        };
        match self {
            Backend::Router(r) => {
                r.refresh_inheriting_hsts(Some(&cfg));
                Some("ok")
            }
            Backend::Http(..) => None,
            Backend::Https(l) => {
                let addr: SocketAddr = LISTEN_ADDR.parse().unwrap();
                let patch = UpdateHttpsListenerConfig { address: addr.into(), hsts: Some(cfg), ..Default::default() };
                Some(match l.update_config(&patch) {
                    Ok(()) => "ok",
                    Err(_) => "err-other",
                })
            }
        }
    }
}

fn os(s: &Option<String>) -> String {
    match s {
        None => "~".into(),
        Some(s) => hx(s),
    }
}

fn show_result(r: &RouteResult) -> String {
    format!(
        "c={} r={} s={} t={} h={} p={} o={} a={} q={} e={}",
        os(&r.cluster_id),
        r.redirect as i32,
        r.redirect_scheme as i32,
        os(&r.redirect_template),
        os(&r.rewritten_host),
        os(&r.rewritten_path),
        match r.rewritten_port {
            None => "~".to_string(),
            Some(p) => p.to_string(),
        },
        r.required_auth as u8,
        r.headers_request.len(),
        r.headers_response.len()
    )
}

fn impl_lookup(b: &Backend, h: &str, p: &str, m: &str) -> String {
    b.lookup(h, p, m)
}

// ------------------------------------------------- own spec (Rust side) --

/// what `RouteResult` a configured frontend stands for (own transcription of
/// the documented coercions: clusterless forward and UNAUTHORIZED give a 401)
/// what `RouteResult` a configured frontend stands for (own transcription of
/// the documented coercions: clusterless forward and UNAUTHORIZED give a 401;
/// header edits by position; the HSTS edit; the listener-default refresh)
#[derive(Clone, Debug, PartialEq)]
struct Exp {
    legacy: bool,
    cluster: Option<String>,
    redirect: u32,
    scheme: u32,
    tmpl: Option<String>,
    rhost: Option<String>,
    rpath: Option<String>,
    rport: Option<u32>,
    auth: bool,
    nreq: usize,
    nresp: usize,
    sts: bool,
    inherits: bool,
}

impl Exp {
    fn from_front(f: &Front) -> Exp {
        let has_policy = f.redirect.is_some()
            || f.scheme.is_some()
            || f.tmpl.is_some()
            || f.rhost.is_some()
            || f.rpath.is_some()
            || f.rport.is_some()
            || f.auth.unwrap_or(false)
            || !f.headers.is_empty()
            || f.hsts.is_some();
        let ne = |s: &Option<String>| s.clone().filter(|x| !x.is_empty());
        let mut e = Exp {
            legacy: !has_policy,
            cluster: f.cluster.clone(),
            redirect: 0,
            scheme: 0,
            tmpl: None,
            rhost: None,
            rpath: None,
            rport: None,
            auth: false,
            nreq: 0,
            nresp: 0,
            sts: false,
            inherits: false,
        };
        if !has_policy {
            if f.cluster.is_none() {
                e.redirect = 2;
            }
            return e;
        }
        e.redirect = f.redirect.filter(|r| *r <= 4).unwrap_or(0);
        e.scheme = f.scheme.filter(|r| *r <= 2).unwrap_or(0);
        e.auth = f.auth.unwrap_or(false);
        e.sts = matches!(f.hsts, Some((true, true)));
        e.inherits = f.inherit && f.hsts.is_some();
        if e.redirect == 2 || (f.cluster.is_none() && e.redirect == 0) {
            e.redirect = 2;
            return e;
        }
        e.tmpl = ne(&f.tmpl);
        e.rhost = ne(&f.rhost);
        e.rpath = ne(&f.rpath);
        e.rport = f.rport.filter(|p| *p <= 65535);
        e.nreq = f.headers.iter().filter(|p| **p == 1 || **p == 3).count();
        e.nresp = f.headers.iter().filter(|p| **p == 2 || **p == 3).count();
        e
    }
    /// `refresh_inheriting_hsts`: inheriting frontends take the new listener
    /// default; policy-free routes are promoted when the default renders
    fn refresh(&mut self, edit: bool) {
        if self.legacy {
            if edit {
                self.legacy = false;
                self.sts = true;
                self.inherits = true;
            }
        } else if self.inherits {
            self.sts = edit;
        }
    }
    fn show(&self) -> String {
        let nresp = self.nresp + self.sts as usize;
        if self.redirect == 2 {
            return format!(
                "c={} r=2 s={} t=~ h=~ p=~ o=~ a={} q=0 e={}",
                os(&self.cluster), self.scheme, self.auth as u8, nresp
            );
        }
        format!(
            "c={} r={} s={} t={} h={} p={} o={} a={} q={} e={}",
            os(&self.cluster),
            self.redirect,
            self.scheme,
            os(&self.tmpl),
            os(&self.rhost),
            os(&self.rpath),
            match self.rport {
                None => "~".to_string(),
                Some(p) => p.to_string(),
            },
            self.auth as u8,
            self.nreq,
            nresp
        )
    }
}

fn expected_result(f: &Front) -> String {
    Exp::from_front(f).show()
}

#[derive(Clone, Debug)]
struct Fe {
    f: Front,
    exp: Exp,
    res: String,
    id: usize, // index of the add op
}

fn same_key(a: &Front, b: &Front) -> bool {
    a.pos == b.pos && a.host == b.host && a.kind == b.kind && a.path == b.path && a.method == b.method
}

/// is the hostname a key the host trie can store? (own transcription of the key syntax:
/// labels right to left; a label is literal or a whole `/regex/` segment)
fn tree_key_storable(host: &str) -> bool {
    let mut r = host.as_bytes();
    if r.is_empty() || r == b"." {
        return false;
    }
    loop {
        if r.is_empty() {
            return false;
        }
        if r[r.len() - 1] == b'/' {
            let body = &r[..r.len() - 1];
            match body.iter().rposition(|c| *c == b'/') {
                None => return false,
                Some(0) => return true,
                Some(pos) => {
                    if body[pos - 1] != b'.' {
                        return false;
                    }
                    r = &r[..pos - 1];
                }
            }
        } else {
            match r.iter().rposition(|c| *c == b'.') {
                None => return true,
                Some(pos) => r = &r[..pos],
            }
        }
    }
}

fn valid_front(f: &Front) -> bool {
    if f.pos > 2 || f.kind > 2 || !path_ok(f.kind, &f.path) {
        return false;
    }
    let h = &f.host;
    if h == "*" {
        true
    } else if h.contains('/') {
        host_ok(h)
    } else if h.contains('*') {
        h.starts_with('*')
    } else {
        true
    }
}

#[derive(Clone, Debug, PartialEq)]
enum HSeg {
    Lit(String),
    Star,
    Re(String),
}

/// segments of a tree host pattern, leftmost first
fn pattern_segs(host: &str) -> Option<Vec<HSeg>> {
    let b = host.as_bytes();
    let mut v = vec![];
    let mut i = 0;
    loop {
        if i < b.len() && b[i] == b'/' {
            let j = (i + 1..b.len()).find(|&j| b[j] == b'/')?;
            v.push(HSeg::Re(host[i + 1..j].to_string()));
            i = j + 1;
        } else {
            let j = (i..b.len()).find(|&j| b[j] == b'.').unwrap_or(b.len());
            let l = &host[i..j];
            if l == "*" && v.is_empty() {
                v.push(HSeg::Star);
            } else {
                v.push(HSeg::Lit(l.to_string()));
            }
            i = j;
        }
        if i == b.len() {
            return Some(v);
        }
        if b[i] != b'.' {
            return None;
        }
        i += 1;
    }
}

/// tree host pattern vs request host: specificity vector, TLD first
fn tree_host_match(pat: &str, host: &str) -> Option<Vec<u8>> {
    let segs = pattern_segs(pat)?;
    let mut labels: Vec<&str> = host.split('.').collect();
    // a leading dot leaves an empty leftmost label: the trie then ends its
    // descent one label early and only `*` / a regex segment can take the
    // (dotted) leftmost real label - the spec follows the trie's reading of
    // such degenerate hostnames
    let dotted_left = labels.len() > 1 && labels[0].is_empty();
    if dotted_left {
        labels.remove(0);
    }
    if labels.len() != segs.len() || labels[0].is_empty() && labels.len() == 1 {
        return None;
    }
    let mut v = vec![];
    for (k, (s, l)) in segs.iter().zip(labels.iter()).enumerate().rev() {
        match s {
            HSeg::Lit(x) => {
                if x != l || (k == 0 && dotted_left) {
                    return None;
                }
                v.push(2)
            }
            HSeg::Star => v.push(1),
            HSeg::Re(r) => {
                let re = Regex::new(&format!("\\A{r}\\z")).ok()?;
                if !re.is_match(l.as_bytes()) {
                    return None;
                }
                v.push(0)
            }
        }
    }
    Some(v)
}

/// pre/post hostname rule vs request host
fn prepost_host_match(pat: &str, host: &str) -> bool {
    if pat == "*" {
        true
    } else if pat.contains('/') {
        conv_host_regex(pat)
            .and_then(|c| Regex::new(&c).ok())
            .map(|r| r.is_match(host.as_bytes()))
            .unwrap_or(false)
    } else if let Some(suffix) = pat.strip_prefix('*') {
        match host.strip_suffix(suffix) {
            Some(pre) => !pre.is_empty() && !pre.contains('.'),
            None => false,
        }
    } else {
        pat == host
    }
}

/// (kind rank, prefix length, method-specific) of a matching candidate
fn rank(f: &Front, path: &str, method: &str) -> Option<(u8, usize, u8)> {
    let ms = match &f.method {
        None => 0,
        Some(m) if m == method => 1,
        _ => return None,
    };
    match f.kind {
        0 if path.as_bytes().starts_with(f.path.as_bytes()) => Some((0, f.path.len(), ms)),
        1 if Regex::new(&f.path).map(|r| r.is_match(path.as_bytes())).unwrap_or(false) => Some((1, 0, ms)),
        2 if path == f.path => Some((2, 0, ms)),
        _ => None,
    }
}

fn host_matches(f: &Front, host: &str) -> bool {
    if f.pos == 2 {
        tree_host_match(&f.host, host).is_some()
    } else {
        prepost_host_match(&f.host, host)
    }
}
fn fully_matches(f: &Front, host: &str, path: &str, method: &str) -> bool {
    host_matches(f, host) && rank(f, path, method).is_some()
}

/// admissible answers (the winning configured frontends); empty = no route
/// admissible answers: the winning configured frontends, and whether "no
/// route" is admissible too. Host patterns of equal specificity (two regex
/// hosts) are unordered: one of them is chosen, then the best rule of that
/// host, or - if none of its rules matches - the post rules.
fn spec_answers<'a>(s: &'a [Fe], host: &str, path: &str, method: &str) -> (Vec<&'a Fe>, bool) {
    if let Some(fe) = s.iter().find(|fe| fe.f.pos == 0 && fully_matches(&fe.f, host, path, method)) {
        return (vec![fe], false);
    }
    let post = s.iter().find(|fe| fe.f.pos == 1 && fully_matches(&fe.f, host, path, method));
    let hs: Vec<(&Fe, Vec<u8>)> = s
        .iter()
        .filter(|fe| fe.f.pos == 2)
        .filter_map(|fe| tree_host_match(&fe.f.host, host).map(|v| (fe, v)))
        .collect();
    let group: Vec<&Fe> = hs.iter().filter(|x| !hs.iter().any(|y| x.1 < y.1)).map(|x| x.0).collect();
    let mut hosts: Vec<&str> = vec![];
    for fe in &group {
        if !hosts.contains(&fe.f.host.as_str()) {
            hosts.push(&fe.f.host);
        }
    }
    let mut winners: Vec<&Fe> = vec![];
    let mut to_post = hosts.is_empty();
    for h in hosts {
        let cands: Vec<(&Fe, (u8, usize, u8))> = group
            .iter()
            .filter(|fe| fe.f.host == h)
            .filter_map(|fe| rank(&fe.f, path, method).map(|r| (*fe, r)))
            .collect();
        let best: Vec<&Fe> = cands.iter().filter(|x| !cands.iter().any(|y| x.1 < y.1)).map(|x| x.0).collect();
        if best.is_empty() {
            to_post = true;
        } else {
            winners.extend(best);
        }
    }
    let mut none_ok = false;
    if to_post {
        match post {
            Some(fe) => winners.push(fe),
            None => none_ok = true,
        }
    }
    (winners, none_ok)
}

fn spec_route<'a>(s: &'a [Fe], host: &str, path: &str, method: &str) -> Vec<&'a Fe> {
    spec_answers(s, host, path, method).0
}

fn show_spec(w: &[&Fe], none_ok: bool) -> String {
    let mut set: BTreeSet<&str> = w.iter().map(|fe| fe.res.as_str()).collect();
    if none_ok || set.is_empty() {
        set.insert("none");
    }
    set.into_iter().collect::<Vec<_>>().join(";")
}

fn has_re_seg(host: &str) -> bool {
    host.contains('/')
}
fn mid_regex(host: &str) -> bool {
    // a regex segment that is not the leftmost segment
    pattern_segs(host).map(|v| v.iter().skip(1).any(|s| matches!(s, HSeg::Re(_)))).unwrap_or(false)
}

/// Root-cause fingerprint of a wrong answer `x` for a probe, given the
/// configured set `s`, every frontend ever added (`hist`), and the admissible
/// winners `w`.
thread_local! {
    static REGEX_SHAPES: std::cell::Cell<bool> = const { std::cell::Cell::new(false) };
}

/// does the op list contain the shape of one of the two open regex findings?
fn regex_shapes(ops: &[String]) -> bool {
    let hosts: Vec<String> = ops
        .iter()
        .filter_map(|l| match parse_op(l) {
            Op::Add(f) | Op::Rem(f) if f.pos == 2 => Some(f.host),
            _ => None,
        })
        .collect();
    let f29 = hosts.iter().any(|h| has_re_seg(h) && mid_regex(h));
    let f28 = hosts.iter().any(|r| {
        has_re_seg(r) && hosts.iter().any(|l| !l.contains('/') && !l.contains('*') && tree_host_match(r, l).is_some())
    });
    f28 || f29
}

fn classify(s: &[Fe], hist: &[Fe], removed: &[Front], w: &[&Fe], x: &str, host: &str, path: &str, method: &str) -> String {
    let tree_re_hist: Vec<&Fe> = hist.iter().filter(|fe| fe.f.pos == 2 && has_re_seg(&fe.f.host)).collect();
    let re_matching: Vec<&&Fe> = tree_re_hist.iter().filter(|fe| tree_host_match(&fe.f.host, host).is_some()).collect();
    // the regex findings need their shape in the history: a literal tree host matched by a
    // leftmost-regex tree host (F28) or a regex segment that is not the leftmost label (F29);
    // in histories without these shapes a wrong answer on a regex-matched host is judged
    // like any other (host precedence exact > wildcard > regex, etc.)
    let re_involved = !re_matching.is_empty() && REGEX_SHAPES.with(|c| c.get());
    // a regex-segment host pattern of the history matches the probe host: the two regex findings
    let regex_class = if re_matching.iter().any(|fe| mid_regex(&fe.f.host)) {
        "regex-segment-no-backtrack".to_string()
    } else {
        "regex-host-leaf-shared-with-literal-host".to_string()
    };
    // root causes present in the history take precedence over the generic alarm classes
    let stale_equals = removed.iter().any(|r| r.kind == 2 && host_matches(r, host) && !s.iter().any(|g| same_key(&g.f, r)));
    let dup_equals = hist.iter().any(|fe| fe.f.kind == 2 && host_matches(&fe.f, host) && !s.iter().any(|g| g.id == fe.id)
        && s.iter().any(|g| same_key(&g.f, &fe.f)));
    let fallback = |alarm: &str| -> String {
        if re_involved {
            regex_class.clone()
        } else if stale_equals {
            "equals-rule-not-removed".into()
        } else if dup_equals {
            "equals-rule-not-deduplicated".into()
        } else {
            alarm.into()
        }
    };
    if x == "none" {
        return fallback("no-route-although-admissible");
    }
    // configured frontends that carry the answer x and match the probe
    let matching: Vec<&Fe> = s.iter().filter(|fe| fe.res == x && fully_matches(&fe.f, host, path, method)).collect();
    if matching.is_empty() {
        // stale or phantom: look for a no-longer / never configured frontend that explains x
        let cands: Vec<&Fe> = hist
            .iter()
            .filter(|fe| fe.res == x && !s.iter().any(|g| g.id == fe.id))
            .filter(|fe| rank(&fe.f, path, method).is_some())
            .collect();
        let host_cands: Vec<&&Fe> = cands.iter().filter(|fe| host_matches(&fe.f, host)).collect();
        if host_cands.iter().any(|fe| fe.f.kind == 2) {
            if host_cands.iter().any(|fe| fe.f.kind == 2 && removed.iter().any(|r| same_key(r, &fe.f))) {
                return "equals-rule-not-removed".into();
            }
            return "equals-rule-not-deduplicated".into();
        }
        if !host_cands.is_empty() {
            return fallback("stale-frontend-routes");
        }
        return fallback("nonmatching-frontend-routes");
    }
    if w.is_empty() {
        return fallback("routes-although-none-admissible");
    }
    let wf = &w[0].f;
    // prefer the candidate for x that shares the winner's position / host
    let xf = &matching
        .iter()
        .find(|fe| fe.f.pos == wf.pos && fe.f.host == wf.host)
        .or_else(|| matching.iter().find(|fe| fe.f.pos == wf.pos))
        .unwrap_or(&matching[0])
        .f;
    if xf.pos != wf.pos {
        return fallback("position-order");
    }
    if xf.pos != 2 {
        return "prepost-order".into();
    }
    if xf.host != wf.host {
        return fallback("host-specificity");
    }
    let same_ms = xf.method.is_some() == wf.method.is_some();
    match (wf.kind, xf.kind) {
        (2, 1) if same_ms => "order-dependent-regex-vs-equals".into(),
        (2, 1) if xf.method.is_some() => "method-specific-regex-beats-equals".into(),
        (2, 2) => "equals-rule-not-deduplicated".into(),
        (0, 0) if wf.path == xf.path && wf.method.is_some() && xf.method.is_none() => "order-dependent-method-specificity".into(),
        (2, 0) | (1, 0) if xf.path == path && wf.method.is_none() => "order-dependent-full-prefix-vs-equals".into(),
        _ => fallback("precedence-other"),
    }
}

fn degenerate_host(h: &str) -> bool {
    h.is_empty() || h.starts_with('.')
}

fn is_admissible(s: &[Fe], x: &str, h: &str, p: &str, m: &str) -> bool {
    let (w, none_ok) = spec_answers(s, h, p, m);
    if x == "none" {
        none_ok
    } else {
        w.iter().any(|fe| fe.res == x)
    }
}

/// irrelevant-change oracle: an add/remove of `f` must not change the answer
/// of a probe that `f` does not match. The failure is fingerprinted by the
/// inadmissible answer (before or after); when both answers are admissible
/// for their configured sets the change itself is the finding.
#[allow(clippy::too_many_arguments)]
fn irrelevant_change(
    fails: &mut BTreeSet<(String, String)>, what: &str, f: &Front, valid: bool, g: &[(&str, &str, &str)], before: &[String],
    router: &Backend, s_before: &[Fe], s_after: &[Fe], hist: &[Fe], removed: &[Front],
) {
    let groups = |s: &[Fe]| -> BTreeSet<String> { s.iter().filter(|fe| fe.f.pos == 2).map(|fe| fe.f.host.clone()).collect() };
    for (k, (h, p, m)) in g.iter().enumerate() {
        if degenerate_host(h) {
            continue;
        }
        let after = impl_lookup(router, h, p, m);
        if after == before[k] || (valid && fully_matches(f, h, p, m)) {
            continue;
        }
        let class = if !is_admissible(s_before, &before[k], h, p, m) {
            classify(s_before, hist, removed, &spec_route(s_before, h, p, m), &before[k], h, p, m)
        } else if !is_admissible(s_after, &after, h, p, m) {
            classify(s_after, hist, removed, &spec_route(s_after, h, p, m), &after, h, p, m)
        } else if valid && f.pos == 2 && host_matches(f, h) && groups(s_before) != groups(s_after) {
            "nonmatching-frontend-changes-host-group".to_string()
        } else {
            "irrelevant-change".to_string()
        };
        fails.insert((
            class,
            format!(
                "irrelevant-change: {what} pos={} {:?} kind={} {:?} {:?} changed probe {h} {p:?} {m}: `{}` -> `{after}`",
                f.pos, f.host, f.kind, f.path, f.method, before[k]
            ),
        ));
    }
}

fn canon_set(s: &[Fe]) -> String {
    // pre/post in configuration order, tree as a set
    let mut pre = vec![];
    let mut post = vec![];
    let mut tree = BTreeSet::new();
    for fe in s {
        let k = format!("{}|{}|{}|{}|{:?}|{}", fe.f.pos, fe.f.host, fe.f.kind, fe.f.path, fe.f.method, fe.res);
        match fe.f.pos {
            0 => pre.push(k),
            1 => post.push(k),
            _ => {
                tree.insert(k);
            }
        }
    }
    format!("{pre:?}{tree:?}{post:?}")
}

fn grid() -> Vec<(&'static str, &'static str, &'static str)> {
    let mut g = vec![];
    for h in PROBE_HOSTS {
        for p in PROBE_PATHS {
            for m in METHODS {
                g.push((*h, *p, *m));
            }
        }
    }
    g
}

// ------------------------------------------------------------ generator --

fn gen_front(rng: &mut Rng, hosts: &[&str], id: usize, allow_bad: bool) -> Front {
    let host = if allow_bad && rng.chance(1, 25) { rng.pick(HOSTS_BAD).to_string() } else { rng.pick(hosts).to_string() };
    let (kind, path) = match rng.below(10) {
        0..=4 => (0, rng.pick(PFX).to_string()),
        5..=7 => (2, rng.pick(EQS).to_string()),
        _ => (1, if allow_bad && rng.chance(1, 20) { RE_BAD.to_string() } else { rng.pick(RES).to_string() }),
    };
    let kind = if allow_bad && rng.chance(1, 60) { 7 } else { kind };
    let method = match rng.below(4) {
        0 => Some("GET".to_string()),
        1 if rng.chance(1, 2) => Some("POST".to_string()),
        _ => None,
    };
    let pos = match rng.below(10) {
        0 => 0,
        1 => 1,
        _ => 2,
    };
    let mut f = Front {
        pos,
        host,
        kind,
        path,
        method,
        cluster: Some(format!("c{id}")),
        redirect: None,
        scheme: None,
        tmpl: None,
        rhost: None,
        rpath: None,
        rport: None,
        auth: None,
        headers: vec![],
        hsts: None,
        inherit: false,
        addr: 0,
    };
    match rng.below(12) {
        0 => f.cluster = None, // Route::Deny
        1 => f.redirect = Some(*rng.pick(&[0, 1, 2, 3, 4, 9])),
        2 => {
            f.redirect = Some(1);
            f.scheme = Some(*rng.pick(&[0, 1, 2, 5]));
            f.tmpl = Some(format!("https://r{id}.io/x"));
        }
        3 => {
            f.rhost = Some(format!("h{id}.io"));
            f.rpath = Some(if rng.chance(1, 4) { String::new() } else { format!("/p{id}") });
            f.rport = Some(*rng.pick(&[8080, 70000]));
        }
        4 => {
            f.auth = Some(rng.chance(2, 3));
            if rng.chance(1, 3) {
                f.cluster = None;
            }
        }
        5 => {
            // header edits by position (0 and 9 are dropped), sometimes on a 401 / clusterless frontend
            let n = rng.range(1, 3);
            f.headers = (0..n).map(|_| *rng.pick(&[1u32, 2, 3, 3, 0, 9])).collect();
            if rng.chance(1, 5) {
                f.redirect = Some(2);
            }
        }
        6 => {
            // per-frontend or listener-inherited HSTS: enabled/disabled, with/without max_age
            f.hsts = Some((rng.chance(3, 4), rng.chance(4, 5)));
            f.inherit = rng.chance(1, 2);
            if rng.chance(1, 4) {
                f.cluster = None;
            }
            if rng.chance(1, 4) {
                f.headers = vec![2];
            }
        }
        _ => {}
    }
    f
}

/// Host / :authority values for the listener modes: the hostname, the
/// hostname with a port, and values `frontend_from_request` must refuse
fn authority_of(rng: &mut Rng, h: &str) -> String {
    match rng.below(12) {
        0..=4 => h.to_string(),
        5..=7 => format!("{h}:{}", rng.pick(&["80", "8080", "65535", "00443"])),
        8 => format!("{h}:{}", rng.pick(&["0", "65536", "99999999999", "", "8x", "80:80"])),
        9 => format!("{h}{}", rng.pick(&["_x", "/", " ", "%41", "@b"])),
        10 => format!(":{}", 80),
        _ => h.to_uppercase(),
    }
}

fn push_probes(ops: &mut Vec<String>, rng: &mut Rng, ip: &InPlay, n: usize) {
    let g = grid();
    for _ in 0..n {
        let (h, p, m) = *rng.pick(&g);
        ops.push(probe_line(h, p, m, ip));
    }
}

/// probes aimed at a frontend (its host family, its path)
fn push_aimed(ops: &mut Vec<String>, rng: &mut Rng, ip: &InPlay, f: &Front, n: usize) {
    for _ in 0..n {
        let h = if f.host.ends_with("a.io") { *rng.pick(&["a.io", "b.a.io", "c.a.io", "bc.a.io", "d.a.io"]) } else { *rng.pick(PROBE_HOSTS) };
        let p = *rng.pick(PROBE_PATHS);
        let m = *rng.pick(METHODS);
        ops.push(probe_line(h, p, m, ip));
    }
}

fn host_pool(stream: u64) -> Vec<&'static str> {
    let mut v: Vec<&str> = HOSTS_BASE.to_vec();
    if stream >= 1 {
        v.extend_from_slice(HOSTS_RE);
    }
    if stream >= 2 {
        v.extend_from_slice(HOSTS_MID);
    }
    v
}

impl RouterArea {
    /// random add/remove history with probes after every op
    fn gen_history(&self, rng: &mut Rng, thorough: bool, stream: u64) -> Vec<String> {
        let hosts = host_pool(stream);
        let n = rng.range(3, if thorough { 16 } else { 11 }) as usize;
        // choose the fronts first so that the tables know every regex in play
        let mut fronts: Vec<Front> = vec![];
        let mut plan: Vec<(bool, usize)> = vec![]; // (is_add, front index)
        for i in 0..n {
            if !fronts.is_empty() && rng.chance(1, 30) {
                // add or remove a tree frontend whose hostname the trie cannot even store
                let mut f = gen_front(rng, &hosts, i, false);
                f.host = rng.pick(HOSTS_UNSTORABLE).to_string();
                f.pos = 2;
                fronts.push(f);
                plan.push((rng.chance(1, 2), fronts.len() - 1));
            } else if !fronts.is_empty() && rng.chance(3, 10) {
                // remove something added earlier (sometimes never added / already removed)
                let k = rng.below(fronts.len() as u64) as usize;
                plan.push((false, k));
            } else if !fronts.is_empty() && rng.chance(1, 6) {
                // re-add the key of an earlier front with a new route (dedup path)
                let k = rng.below(fronts.len() as u64) as usize;
                let mut f = fronts[k].clone();
                f.cluster = Some(format!("c{i}"));
                fronts.push(f);
                plan.push((true, fronts.len() - 1));
            } else {
                fronts.push(gen_front(rng, &hosts, i, true));
                plan.push((true, fronts.len() - 1));
            }
        }
        let mut ip = InPlay::default();
        for f in &fronts {
            ip.note(f);
        }
        // 0 = bare Router, 1 = HttpProxy + HTTP listener, 2 = HttpsListener
        let mode = match rng.below(10) {
            0..=5 => 0,
            6..=7 => 1,
            _ => 2,
        };
        let mut ops = vec![["new", "new http", "new https"][mode].to_string()];
        for (is_add, k) in plan {
            let mut f = fronts[k].clone();
            if mode == 1 {
                // glue refusals: a frontend for an address without listener, an invalid position
                if rng.chance(1, 14) {
                    f.addr = 1;
                }
                if rng.chance(1, 25) {
                    f.pos = 7;
                }
            }
            let f = &f;
            ops.push(if is_add { add_line(f, &ip) } else { rem_line(f, &ip) });
            let from = ops.len();
            push_aimed(&mut ops, rng, &ip, f, 4);
            push_probes(&mut ops, rng, &ip, 3);
            if mode != 0 {
                // the probes carry Host header values
                for line in ops[from..].iter_mut() {
                    if let Op::Probe(h, p, m) = parse_op(line) {
                        *line = probe_line(&authority_of(rng, &h), &p, &m, &ip);
                    }
                }
            }
            if mode != 1 && rng.chance(1, 8) {
                ops.push(format!("hsts {}", rng.below(2)));
                push_aimed(&mut ops, rng, &ip, f, 3);
            }
        }
        ops
    }

    /// the same set of distinct-key frontends built in k random orders, the
    /// same probes after each build
    fn gen_permutation(&self, rng: &mut Rng, stream: u64) -> Vec<String> {
        let hosts = host_pool(stream);
        let n = rng.range(2, 6) as usize;
        let mut fronts: Vec<Front> = vec![];
        // concentrate on one or two hosts so that leaves hold several rules
        let h1 = rng.pick(&hosts).to_string();
        let h2 = rng.pick(&hosts).to_string();
        let mut tries = 0;
        while fronts.len() < n && tries < 50 {
            tries += 1;
            let mut f = gen_front(rng, &hosts, fronts.len(), false);
            if rng.chance(3, 4) {
                f.host = if rng.chance(2, 3) { h1.clone() } else { h2.clone() };
            }
            if rng.chance(4, 5) {
                f.pos = 2;
            }
            if !fronts.iter().any(|g| same_key(g, &f)) {
                fronts.push(f);
            }
        }
        let mut ip = InPlay::default();
        for f in &fronts {
            ip.note(f);
        }
        let g = grid();
        let mut probes: Vec<(&str, &str, &str)> = vec![];
        for _ in 0..14 {
            probes.push(*rng.pick(&g));
        }
        for f in &fronts {
            for _ in 0..2 {
                let h = if f.host.ends_with("a.io") { *rng.pick(&["a.io", "b.a.io", "c.a.io", "bc.a.io"]) } else { *rng.pick(PROBE_HOSTS) };
                probes.push((h, *rng.pick(PROBE_PATHS), *rng.pick(METHODS)));
            }
        }
        let mut ops = vec![];
        for _ in 0..3 {
            let mut order: Vec<usize> = (0..fronts.len()).collect();
            rng.shuffle(&mut order);
            ops.push("new".to_string());
            for k in order {
                ops.push(add_line(&fronts[k], &ip));
            }
            for (h, p, m) in &probes {
                ops.push(probe_line(h, p, m, &ip));
            }
        }
        ops
    }
}

impl RouterArea {
    /// pre/post lists: 3..5 rules in one position (many of them matching the
    /// same requests), removal of a non-last one (then sometimes another),
    /// probes matched by two or more survivors - order of the survivors matters
    fn gen_prepost(&self, rng: &mut Rng) -> Vec<String> {
        let pos = rng.below(2) as u8;
        let hosts = ["*", "*.a.io", "*.io", "a.io", "b.a.io"];
        let n = rng.range(3, 5) as usize;
        let mut fronts: Vec<Front> = vec![];
        let mut tries = 0;
        while fronts.len() < n && tries < 60 {
            tries += 1;
            let mut f = gen_front(rng, &hosts, fronts.len(), false);
            f.pos = pos;
            f.host = if rng.chance(1, 2) { "*".to_string() } else { rng.pick(&hosts).to_string() };
            if rng.chance(3, 4) {
                f.kind = 0;
                f.path = rng.pick(&["", "/", "/a"]).to_string();
            }
            if rng.chance(2, 3) {
                f.method = None;
            }
            if !fronts.iter().any(|g| same_key(g, &f)) {
                fronts.push(f);
            }
        }
        // a tree frontend or a rule in the other position now and then
        let mut extra: Vec<Front> = vec![];
        if rng.chance(1, 3) {
            let mut f = gen_front(rng, HOSTS_BASE, 20, false);
            f.pos = if rng.chance(1, 2) { 2 } else { 1 - pos };
            extra.push(f);
        }
        let mut ip = InPlay::default();
        for f in fronts.iter().chain(extra.iter()) {
            ip.note(f);
        }
        let probes = |ops: &mut Vec<String>, rng: &mut Rng| {
            for h in ["a.io", "b.a.io", "c.a.io", "io"] {
                for p in ["/a", "/ab", "/"] {
                    ops.push(probe_line(h, p, *rng.pick(METHODS), &ip));
                }
            }
        };
        let mut ops = vec!["new".to_string()];
        for f in fronts.iter().chain(extra.iter()) {
            ops.push(add_line(f, &ip));
        }
        probes(&mut ops, rng);
        if fronts.len() >= 2 {
            let k = rng.below(fronts.len() as u64 - 1) as usize; // never the last one
            ops.push(rem_line(&fronts[k], &ip));
            probes(&mut ops, rng);
            let rest: Vec<usize> = (0..fronts.len()).filter(|i| *i != k).collect();
            if rest.len() >= 3 && rng.chance(1, 2) {
                let k2 = rest[rng.below(rest.len() as u64 - 1) as usize];
                ops.push(rem_line(&fronts[k2], &ip));
                probes(&mut ops, rng);
            }
            if rng.chance(1, 3) {
                // re-add the removed one: it goes to the end
                let mut f = fronts[k].clone();
                f.cluster = Some("c30".into());
                ops.push(add_line(&f, &ip));
                probes(&mut ops, rng);
            }
        }
        ops
    }
}

fn front_simple(pos: u8, host: &str, kind: u32, path: &str, method: Option<&str>, cluster: &str) -> Front {
    Front {
        pos,
        host: host.into(),
        kind,
        path: path.into(),
        method: method.map(|s| s.to_string()),
        cluster: Some(cluster.into()),
        redirect: None,
        scheme: None,
        tmpl: None,
        rhost: None,
        rpath: None,
        rport: None,
        auth: None,
        headers: vec![],
        hsts: None,
        inherit: false,
        addr: 0,
    }
}

/// fixed witness histories (DESIGN §6 F1-F3 and the ones found while building)
fn witness(adds: &[(bool, Front)], probes: &[(&str, &str, &str)]) -> Vec<String> {
    let mut ip = InPlay::default();
    for (_, f) in adds {
        ip.note(f);
    }
    let mut ops = vec!["new".to_string()];
    for (is_add, f) in adds {
        ops.push(if *is_add { add_line(f, &ip) } else { rem_line(f, &ip) });
        for (h, p, m) in probes {
            ops.push(probe_line(h, p, m, &ip));
        }
    }
    ops
}

impl Area for RouterArea {
    fn name(&self) -> &'static str {
        "router"
    }
    fn rule(&self) -> String {
        "four streams, driven 60% through the bare sozu_lib::router::Router, 20% through HttpProxy::{add_http_frontend,remove_http_frontend} + HttpListener::frontend_from_request, 20% through HttpsListener::{add_https_front_with_hsts_origin,remove_https_front,frontend_from_request,update_config} (listener modes: Host values with valid/invalid ports and foreign characters, frontends for an address without listener, invalid positions, HSTS on plain HTTP); frontends also carry header edits (positions 0..3,9) and per-frontend / inherited HSTS blocks, and histories contain listener-default HSTS refreshes: (55%) random add/remove histories of 3..11 (thorough 16) ops, hosts from {a.io,b.a.io,c.a.io,bc.a.io,*.a.io,*.io,*} (+ leftmost-regex hosts /b.*/.a.io,/[bc]+/.a.io in 1/3, + mid-regex hosts w./x.*/.io.. in 1/6 of the cases, + malformed hosts/regexes/kinds), paths PREFIX{'',/,/a,/a/b,/ab} EQUALS{/a,/ab,/,/a/b} REGEX{/a.*,^/ab?$,/a/[a-z]+}, methods {none,GET,POST}, positions pre/post/tree 1:1:8, routes ClusterId/Deny/Frontend(redirect,scheme,template,rewrite,auth), 7 probes (host,path,method) from a 15x7x2 grid after every op + the full grid before/after every op for the oracles; (30%) permutation cases: 2..6 distinct-key frontends built in 3 random orders with the same 14+ probes; (15%) pre/post cases: 3..5 distinct-key rules in one position (half of them host `*`, mostly PREFIX '' / / /a so that several match one request), removal of a non-last rule (sometimes a second one, sometimes a re-add) with a 4x3 probe grid after each step; non-trivial = at least one probe has an admissible route and at least 2 frontends configured; distinct = distinct op sequence".into()
    }
    fn cases(&self, thorough: bool) -> u64 {
        if thorough {
            70_000
        } else {
            2_400
        }
    }
    fn corpus(&self) -> Vec<Vec<String>> {
        let fs = front_simple;
        vec![
            // F1: EQUALS tree rule: remove reports Ok, rule keeps routing; never deduplicated
            witness(
                &[(true, fs(2, "a.io", 2, "/a", None, "c1")), (false, fs(2, "a.io", 2, "/a", None, "c1"))],
                &[("a.io", "/a", "GET")],
            ),
            witness(
                &[(true, fs(2, "a.io", 2, "/a", None, "c1")), (true, fs(2, "a.io", 2, "/a", None, "c2"))],
                &[("a.io", "/a", "GET")],
            ),
            // F2: REGEX vs EQUALS, both orders
            witness(
                &[(true, fs(2, "a.io", 1, "/a.*", None, "c1")), (true, fs(2, "a.io", 2, "/ab", None, "c2"))],
                &[("a.io", "/ab", "GET")],
            ),
            witness(
                &[(true, fs(2, "a.io", 2, "/ab", None, "c2")), (true, fs(2, "a.io", 1, "/a.*", None, "c1"))],
                &[("a.io", "/ab", "GET")],
            ),
            // F3: PREFIX+GET vs PREFIX+any, both orders
            witness(
                &[(true, fs(2, "a.io", 0, "/a", Some("GET"), "c1")), (true, fs(2, "a.io", 0, "/a", None, "c2"))],
                &[("a.io", "/ab", "GET")],
            ),
            witness(
                &[(true, fs(2, "a.io", 0, "/a", None, "c2")), (true, fs(2, "a.io", 0, "/a", Some("GET"), "c1"))],
                &[("a.io", "/ab", "GET")],
            ),
            // EQUALS (any method) vs PREFIX equal to the whole path
            witness(
                &[(true, fs(2, "a.io", 2, "/ab", None, "c1")), (true, fs(2, "a.io", 0, "/ab", None, "c2"))],
                &[("a.io", "/ab", "GET")],
            ),
            // literal host added after a leftmost-regex host that matches its label
            witness(
                &[(true, fs(2, "/b.*/.a.io", 0, "/", None, "c1")), (true, fs(2, "bc.a.io", 0, "/a", None, "c2"))],
                &[("bc.a.io", "/a", "GET"), ("b.a.io", "/a", "GET")],
            ),
            // mid regex segment shadowed by a literal sibling (no backtracking)
            witness(
                &[(true, fs(2, "v./x.*/.io", 0, "/", None, "c1")), (true, fs(2, "w.xy.io", 0, "/", None, "c2"))],
                &[("v.xy.io", "/", "GET")],
            ),
            // pre list: three rules matching the same request, the middle / the first removed:
            // the survivors keep their order (Vec::remove, not swap_remove)
            witness(
                &[
                    (true, fs(0, "*", 0, "", None, "c1")),
                    (true, fs(0, "*", 0, "/a", None, "c2")),
                    (true, fs(0, "*", 0, "/", None, "c3")),
                    (true, fs(0, "*.io", 0, "/a", None, "c4")),
                    (false, fs(0, "*", 0, "", None, "c1")),
                    (false, fs(0, "*", 0, "/a", None, "c2")),
                ],
                &[("a.io", "/ab", "GET"), ("b.a.io", "/", "GET")],
            ),
            witness(
                &[
                    (true, fs(1, "*", 0, "/a", None, "c1")),
                    (true, fs(1, "a.io", 0, "", None, "c2")),
                    (true, fs(1, "*", 0, "", None, "c3")),
                    (false, fs(1, "*", 0, "/a", None, "c1")),
                ],
                &[("a.io", "/ab", "GET")],
            ),
            // host precedence wildcard > regex host, exact > regex host (no literal host under the regex)
            witness(
                &[
                    (true, fs(2, "/b.*/.a.io", 0, "/", None, "c1")),
                    (true, fs(2, "*.a.io", 0, "/", None, "c2")),
                    (true, fs(2, "/[bc]+/.a.io", 0, "/a", None, "c3")),
                ],
                &[("b.a.io", "/a", "GET"), ("bc.a.io", "/", "GET"), ("d.a.io", "/a", "GET")],
            ),
            // a hostname that `DomainRule::from_str` accepts but the trie cannot store: remove is a no-op,
            // the tree add is refused (it used to panic the worker: F1493, fixed by 13212df)
            witness(
                &[(false, fs(2, "x/b/", 0, "/", None, "c1")), (true, fs(0, "x/b/", 0, "/", None, "c2")), (true, fs(2, "x/b/", 0, "/", None, "c3"))],
                &[("a.io", "/", "GET")],
            ),
            // sanity: exact > wildcard, longest prefix, pre before tree before post
            witness(
                &[
                    (true, fs(2, "*.a.io", 0, "/", None, "c1")),
                    (true, fs(2, "b.a.io", 0, "/a", None, "c2")),
                    (true, fs(2, "b.a.io", 0, "/a/b", None, "c3")),
                    (true, fs(1, "*", 0, "", None, "c4")),
                    (true, fs(0, "*.a.io", 2, "/x", None, "c5")),
                    (false, fs(2, "b.a.io", 0, "/a", None, "c2")),
                ],
                &[("b.a.io", "/a/b", "GET"), ("c.a.io", "/a", "GET"), ("b.a.io", "/x", "POST"), ("io", "/", "GET")],
            ),
        ]
    }
    fn gen(&self, rng: &mut Rng, thorough: bool) -> Vec<String> {
        let stream = match rng.below(6) {
            0..=2 => 0,
            3..=4 => 1,
            _ => 2,
        };
        match rng.below(20) {
            0..=10 => self.gen_history(rng, thorough, stream),
            11..=16 => self.gen_permutation(rng, stream),
            _ => self.gen_prepost(rng),
        }
    }
    fn run_impl(&self, ops: &[String]) -> ImplRun {
        self.run_causal(ops)
    }
    fn classify_mismatch(&self, ops: &[String], impl_out: &[String], model_out: &[String]) -> String {
        self.classify_mismatch_impl(ops, impl_out, model_out)
    }
}

impl RouterArea {
    /// one pass over the ops on the real router with all oracles (surface classes)
    fn run_core(&self, ops: &[String]) -> ImplRun {
        REGEX_SHAPES.with(|c| c.set(regex_shapes(ops)));
        let mut r = ImplRun::default();
        let mut router = Backend::new(0);
        let mut s: Vec<Fe> = vec![]; // configured set (spec semantics)
        let mut hist: Vec<Fe> = vec![];
        let mut removed: Vec<Front> = vec![];
        let mut seen: HashMap<(String, String), String> = HashMap::new();
        let mut fails: BTreeSet<(String, String)> = BTreeSet::new();
        let g = grid();
        let mut tree_routed = false;
        let mut max_cfg = 0usize;
        let mut blocks = 0;

        // evaluate one probe against the spec and the history oracle
        let mut judge_probe = |router: &Backend, s: &[Fe], hist: &[Fe], removed: &[Front], h: &str, p: &str, m: &str,
                               seen: &mut HashMap<(String, String), String>, fails: &mut BTreeSet<(String, String)>,
                               tree_routed: &mut bool|
         -> (String, String) {
            let x = impl_lookup(router, h, p, m);
            if router.mode() != 0 && authority_host(h).is_none() {
                // not a Host value `frontend_from_request` accepts: must be refused, nothing to route
                if x != "err-host" {
                    fails.insert(("authority-parse".into(), format!("authority {h:?} must be rejected, got `{x}`")));
                }
                return (x, String::new());
            }
            let (w, none_ok) = spec_answers(s, h, p, m);
            let admissible: BTreeSet<&str> = w.iter().map(|fe| fe.res.as_str()).collect();
            if !w.is_empty() {
                *tree_routed = true;
            }
            let ok = if x == "none" { none_ok } else { admissible.contains(x.as_str()) };
            if degenerate_host(h) {
                return (x, show_spec(&w, none_ok));
            }
            if !ok {
                let class = classify(s, hist, removed, &w, &x, h, p, m);
                // removed-never-routes is the special case "x is carried by no configured frontend"
                let which = if x != "none" && !s.iter().any(|fe| fe.res == x) { "removed-never-routes" } else { "precedence" };
                fails.insert((class, format!("{which}: probe {h} {p:?} {m}: got `{x}`, admissible `{}`", show_spec(&w, none_ok))));
            }
            let key = (canon_set(s), format!("{h}|{p}|{m}"));
            match seen.get(&key) {
                None => {
                    seen.insert(key, x.clone());
                }
                Some(prev) if *prev != x => {
                    let both_ok = ok
                        && (if prev == "none" { none_ok } else { admissible.contains(prev.as_str()) });
                    if !both_ok {
                        // blame the answer that is not admissible
                        let bad = if ok { prev.clone() } else { x.clone() };
                        let class = classify(s, hist, removed, &w, &bad, h, p, m);
                        fails.insert((class, format!("history-dependence: same configured set, probe {h} {p:?} {m}: `{prev}` vs `{x}`")));
                    }
                }
                _ => {}
            }
            (x, show_spec(&w, none_ok))
        };

        let mut dead = false;
        for (i, line) in ops.iter().enumerate() {
            if dead && !matches!(parse_op(line), Op::New(_)) {
                r.out.push("dead".into());
                continue;
            }
            match parse_op(line) {
                Op::New(mode) => {
                    dead = false;
                    router = Backend::new(mode);
                    s.clear();
                    hist.clear();
                    removed.clear();
                    blocks += 1;
                    r.tags.push(format!("mode:{}", ["router", "http-proxy", "https-listener"][mode as usize]));
                    r.out.push("new".into());
                }
                Op::Add(f) | Op::Rem(f) if router.mode() != 1 && f.pos > 2 => {
                    let _ = f;
                    r.out.push("bad-op".into());
                }
                Op::Add(f) => {
                    // the plain-HTTP glue never passes an HSTS origin
                    let mut fx = f.clone();
                    if router.mode() == 1 {
                        fx.inherit = false;
                    }
                    let before: Vec<String> = g.iter().map(|(h, p, m)| impl_lookup(&router, h, p, m)).collect();
                    let s_before = s.clone();
                    let out = match std::panic::catch_unwind(std::panic::AssertUnwindSafe(|| router.add(&f))) {
                        Ok(o) => o.unwrap_or("bad-op"),
                        Err(_) => {
                            // `TrieNode::insert` asserts the insert did not fail: a hostname that parses
                            // as a regex domain but is not a storable trie key kills the worker
                            fails.insert((
                                "tree-insert-panic-unstorable-regex-host".into(),
                                format!("add of tree frontend with hostname {:?} panics (pattern_trie insert: assert_ne!(.., Failed))", f.host),
                            ));
                            r.out.push("panic".into());
                            dead = true;
                            continue;
                        }
                    };
                    r.tags.push(format!("add:{out}"));
                    r.tags.push(format!("add-pos:{}", f.pos));
                    r.tags.push(format!("add-kind:{}", f.kind));
                    if has_re_seg(&f.host) {
                        r.tags.push(if mid_regex(&f.host) { "host:mid-regex".into() } else { "host:regex".into() });
                    } else if f.host.contains('*') {
                        r.tags.push("host:wildcard".into());
                    } else {
                        r.tags.push("host:exact".into());
                    }
                    let exp = Exp::from_front(&fx);
                    r.tags.push(if exp.legacy { "route:legacy".into() } else { "route:frontend".into() });
                    if !f.headers.is_empty() {
                        r.tags.push("policy:headers".into());
                    }
                    if f.hsts.is_some() {
                        r.tags.push("policy:hsts".into());
                    }
                    let fe = Fe { res: exp.show(), exp, f: fx.clone(), id: i };
                    // spec bookkeeping: what the glue and the router are documented to answer
                    let glue = if router.mode() == 1 && f.hsts.is_some() {
                        Some("err-hsts")
                    } else if router.mode() == 1 && f.pos > 2 {
                        Some("err-input")
                    } else if router.mode() == 1 && f.addr != 0 {
                        Some("err-nolistener")
                    } else {
                        None
                    };
                    let valid = glue.is_none() && valid_front(&f);
                    let dup = s.iter().any(|g| same_key(&g.f, &f));
                    // a tree hostname the trie cannot store is refused (fix 13212df; it used to panic)
                    let refused = valid && f.pos == 2 && !tree_key_storable(&f.host);
                    let valid = valid && !refused;
                    let expect = if let Some(e) = glue {
                        e
                    } else if refused {
                        "err-add"
                    } else if !valid {
                        if f.kind > 2 || !path_ok(f.kind, &f.path) { "err-path" } else { "err-domain" }
                    } else if dup {
                        "err-add"
                    } else {
                        "ok"
                    };
                    if valid {
                        hist.push(fe.clone());
                    }
                    if valid && !dup {
                        s.push(fe);
                        removed.retain(|x| !same_key(x, &f));
                    }
                    if out != expect {
                        let class = if glue.is_some() || ["err-hsts", "err-input", "err-nolistener"].contains(&out) {
                            "listener-glue-outcome"
                        } else if expect == "err-add" && f.kind == 2 {
                            "equals-rule-not-deduplicated"
                        } else if f.pos == 2 && hist.iter().any(|h| h.f.pos == 2 && has_re_seg(&h.f.host)) {
                            "regex-host-leaf-shared-with-literal-host"
                        } else {
                            "add-outcome"
                        };
                        fails.insert((class.into(), format!("add {:?} {} {} {:?}: got {out}, expected {expect}", f.host, f.kind, f.path, f.method)));
                    }
                    irrelevant_change(&mut fails, "add", &f, valid, &g, &before, &router, &s_before, &s, &hist, &removed);
                    max_cfg = max_cfg.max(s.len());
                    r.out.push(out.into());
                }
                Op::Rem(f) => {
                    let before: Vec<String> = g.iter().map(|(h, p, m)| impl_lookup(&router, h, p, m)).collect();
                    let s_before = s.clone();
                    let full = router.rem(&f).unwrap_or_else(|| "bad-op".to_string());
                    let out = full.split(' ').next().unwrap_or("").to_string();
                    r.tags.push(format!("rem:{out}"));
                    let glue = if router.mode() == 1 && f.pos > 2 {
                        Some("err-input")
                    } else if router.mode() == 1 && f.addr != 0 {
                        Some("err-nolistener")
                    } else {
                        None
                    };
                    if let Some(e) = glue {
                        if out != e {
                            fails.insert(("listener-glue-outcome".into(), format!("remove {:?}: got {out}, expected {e}", f.host)));
                        }
                    }
                    let present = glue.is_none() && s.iter().any(|g| same_key(&g.f, &f));
                    if present {
                        s.retain(|g| !same_key(&g.f, &f));
                        removed.push(f.clone());
                        r.tags.push("rem:present".into());
                        if out != "ok" {
                            let class = if f.kind == 2 { "equals-rule-not-removed" } else { "remove-outcome" };
                            fails.insert((class.into(), format!("remove of configured {:?} {} {:?} {:?}: got {out}", f.host, f.kind, f.path, f.method)));
                        }
                    }
                    let valid = glue.is_none() && valid_front(&f);
                    irrelevant_change(&mut fails, "remove", &f, valid, &g, &before, &router, &s_before, &s, &hist, &removed);
                    r.out.push(full);
                }
                Op::Probe(h, p, m) => {
                    if router.mode() == 0 {
                        let (x, spec) = judge_probe(&router, &s, &hist, &removed, &h, &p, &m, &mut seen, &mut fails, &mut tree_routed);
                        r.tags.push(if x == "none" { "probe:none".into() } else { "probe:routed".into() });
                        r.out.push(format!("{x} | {spec}"));
                    } else {
                        // the Host / :authority value goes through `frontend_from_request`
                        let x = router.lookup(&h, &p, &m);
                        match authority_host(&h) {
                            None => {
                                r.tags.push("probe:authority-rejected".into());
                                if x != "err-host" {
                                    fails.insert(("authority-parse".into(), format!("authority {h:?} must be rejected, got `{x}`")));
                                }
                                r.out.push(x);
                            }
                            Some(host) => {
                                if host != h {
                                    r.tags.push("probe:authority-with-port".into());
                                }
                                let (plain, spec) = judge_probe(&router, &s, &hist, &removed, &host, &p, &m, &mut seen, &mut fails, &mut tree_routed);
                                if x != plain {
                                    fails.insert(("authority-parse".into(), format!("authority {h:?} routes `{x}`, its hostname {host:?} routes `{plain}`")));
                                }
                                r.tags.push(if x == "none" { "probe:none".into() } else { "probe:routed".into() });
                                r.out.push(format!("{x} | {spec}"));
                            }
                        }
                    }
                }
                Op::Hsts(edit) => match router.hsts(edit) {
                    None => r.out.push("bad-op".into()),
                    Some(out) => {
                        // a listener-default HSTS patch must not change any routing decision
                        for fe in s.iter_mut().chain(hist.iter_mut()) {
                            fe.exp.refresh(edit);
                            fe.res = fe.exp.show();
                        }
                        seen.clear();
                        r.tags.push("op:hsts-refresh".into());
                        r.out.push(out.into());
                    }
                },
                Op::Bad => r.out.push("bad-op".into()),
            }
            // the full grid after every state change feeds the oracles too
            if matches!(parse_op(line), Op::Add(_) | Op::Rem(_) | Op::Hsts(_)) {
                for (h, p, m) in &g {
                    judge_probe(&router, &s, &hist, &removed, h, p, m, &mut seen, &mut fails, &mut tree_routed);
                }
            }
        }
        if blocks > 1 {
            r.tags.push("stream:permutation".into());
        } else {
            r.tags.push("stream:history".into());
        }
        // one failure per class and case (the first detail)
        let mut seen_class = BTreeSet::new();
        for (c, d) in fails {
            if seen_class.insert(c.clone()) {
                r.oracle.push((c, d));
            }
        }
        r.nontrivial = tree_routed && max_cfg >= 2;
        r
    }
}

const REGEX_CLASSES: &[&str] = &["regex-host-leaf-shared-with-literal-host", "regex-segment-no-backtrack"];

/// the add/rem op names a tree frontend whose hostname has a regex segment
/// (`only_mid`: a regex segment that is not the leftmost one)
fn is_tree_regex_op(line: &str, only_mid: bool) -> bool {
    match parse_op(line) {
        Op::Add(f) | Op::Rem(f) => f.pos == 2 && has_re_seg(&f.host) && (!only_mid || mid_regex(&f.host)),
        _ => false,
    }
}

impl RouterArea {
    /// Causal classification: a failure class produced by the surface
    /// classifier stands only if it survives the removal of every
    /// regex-segment tree host from the history. If it disappears without the
    /// mid-regex hosts the root cause is `regex-segment-no-backtrack`, if it
    /// disappears without all regex-segment hosts it is
    /// `regex-host-leaf-shared-with-literal-host`.
    fn run_causal(&self, ops: &[String]) -> ImplRun {
        let mut r = self.run_core(ops);
        let suspicious = |c: &str| !REGEX_CLASSES.contains(&c) && c != "nonmatching-frontend-changes-host-group";
        if !r.oracle.iter().any(|(c, _)| suspicious(c)) || !ops.iter().any(|l| is_tree_regex_op(l, false)) || !regex_shapes(ops) {
            return r;
        }
        let without = |only_mid: bool| -> BTreeSet<String> {
            let filtered: Vec<String> = ops.iter().filter(|l| !is_tree_regex_op(l, only_mid)).cloned().collect();
            self.run_core(&filtered).oracle.into_iter().map(|(c, _)| c).collect()
        };
        let has_mid = ops.iter().any(|l| is_tree_regex_op(l, true));
        let no_mid = if has_mid { Some(without(true)) } else { None };
        let no_re = without(false);
        let mut out: Vec<(String, String)> = vec![];
        for (c, d) in r.oracle.drain(..) {
            let nc = if !suspicious(&c) {
                c
            } else if no_mid.as_ref().map(|s| !s.contains(&c)).unwrap_or(false) {
                r.tags.push(format!("causal:{c}->regex-segment-no-backtrack"));
                "regex-segment-no-backtrack".to_string()
            } else if !no_re.contains(&c) {
                r.tags.push(format!("causal:{c}->regex-host-leaf-shared-with-literal-host"));
                "regex-host-leaf-shared-with-literal-host".to_string()
            } else {
                c
            };
            if !out.iter().any(|(x, _)| *x == nc) {
                out.push((nc, d));
            }
        }
        r.oracle = out;
        r
    }
}

impl RouterArea {
    fn classify_mismatch_impl(&self, _ops: &[String], impl_out: &[String], model_out: &[String]) -> String {
        // distinguish "model result differs" from "Lean spec differs from the Rust spec"
        for (a, b) in impl_out.iter().zip(model_out.iter()) {
            if a != b {
                let (ax, aspec) = a.split_once(" | ").unwrap_or((a, ""));
                let (bx, bspec) = b.split_once(" | ").unwrap_or((b, ""));
                if ax == bx && aspec != bspec {
                    return "spec-mismatch".into();
                }
                break;
            }
        }
        "model-mismatch".into()
    }
}

fn main() {
    std::panic::set_hook(Box::new(|_| {}));
    let args = parse_args();
    std::process::exit(run_area(&RouterArea, &args));
}
