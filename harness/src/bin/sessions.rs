//! C16 (accounting core): real `sozu_lib::server::SessionManager` vs the Lean
//! model `Sozu.Sessions.Model`, plus the property's own oracles.
use std::cell::RefCell;
use std::net::{IpAddr, Ipv4Addr};
use std::panic::{catch_unwind, AssertUnwindSafe};
use std::rc::Rc;

use mio::Token;
use slab::Slab;
use sozu_lib::Protocol;
use sozu_lib::server::{ListenSession, SessionManager};
use sozu_lib::ProxySession;
use verif_harness::*;

const NT: u64 = 5; // tokens 0..5
const NC: u64 = 3; // clusters
const NI: u64 = 3; // ips
const PROBE: usize = 9999;

struct Sessions;

fn ip(n: u64) -> IpAddr {
    IpAddr::V4(Ipv4Addr::new(10, 0, 0, n as u8))
}
fn cl(n: u64) -> String {
    format!("c{n}")
}

fn count(sm: &SessionManager, c: u64, i: u64) -> u64 {
    // forward count through the public query: largest k with at_limit(fresh, k)
    let mut k = 0;
    while k < 64 && sm.cluster_ip_at_limit(Token(PROBE), &cl(c), &ip(i), Some(k + 1)) {
        k += 1;
    }
    k
}

fn dump(sm: &SessionManager) -> String {
    let mut fwd = vec![];
    let mut rev = vec![];
    for c in 0..NC {
        for i in 0..NI {
            let n = count(sm, c, i);
            if n > 0 {
                fwd.push(format!("{c}:{i}:{n}"));
            }
        }
    }
    for t in 0..NT {
        for c in 0..NC {
            for i in 0..NI {
                if count(sm, c, i) > 0
                    && !sm.cluster_ip_at_limit(Token(t as usize), &cl(c), &ip(i), Some(1))
                {
                    rev.push(format!("{t}:{c}:{i}"));
                }
            }
        }
    }
    format!(
        "nb={} ca={} mpi={} fwd=[{}] rev=[{}]",
        sm.nb_connections,
        sm.can_accept as u8,
        sm.max_connections_per_ip,
        fwd.join(","),
        rev.join(",")
    )
}

impl Area for Sessions {
    fn name(&self) -> &'static str {
        "sessions"
    }
    fn rule(&self) -> String {
        "op sequences over SessionManager: 70% protocol-respecting accept/close cycles (check_limits then incr, decr only when nb>0) with max in {1,2,3,5,10,20,100}, mixed with per-(cluster,ip) track/untrack/at-limit/clear/SetMaxConnectionsPerIp over 5 tokens x 3 clusters x 3 ips and 10% protocol-violating ops (incr without check, decr at 0); non-trivial = reaches the cap or toggles can_accept or holds >=2 slots on one (cluster,ip); distinct = distinct op sequence".into()
    }
    fn cases(&self, thorough: bool) -> u64 {
        if thorough {
            60_000
        } else {
            4_000
        }
    }
    fn corpus(&self) -> Vec<Vec<String>> {
        let s = |v: &[&str]| v.iter().map(|x| x.to_string()).collect::<Vec<_>>();
        vec![
            s(&["new 1 0", "check 0", "incr", "check 0", "decr", "check 0"]),
            s(&["new 2 1", "track 0 0 0", "track 0 0 0", "atlimit 1 0 0 -", "untrack 0", "atlimit 1 0 0 -"]),
            s(&["new 3 2", "track 0 1 1", "track 1 1 1", "setmax 0", "untrack 0", "setmax 2", "atlimit 2 1 1 -"]),
        ]
    }
    fn gen(&self, rng: &mut Rng, thorough: bool) -> Vec<String> {
        let max = *rng.pick(&[1u64, 2, 3, 5, 10, 20, 100]);
        let mpi = *rng.pick(&[0u64, 1, 2, 3]);
        let mut ops = vec![format!("new {max} {mpi}")];
        let len = rng.range(4, if thorough { 80 } else { 40 });
        let mut nb = 0u64; // generator's own estimate, to stay mostly in-protocol
        for _ in 0..len {
            let r = rng.below(100);
            if r < 30 {
                // accept cycle
                let slab = if rng.chance(1, 12) { 10 + 2 * max + rng.below(2) } else { rng.below(10 + 2 * max) };
                ops.push(format!("check {slab}"));
                if nb < max && slab < 10 + 2 * max {
                    ops.push("incr".into());
                    nb += 1;
                }
            } else if r < 50 {
                if nb > 0 {
                    ops.push("decr".into());
                    nb -= 1;
                } else if rng.chance(1, 5) {
                    ops.push("decr".into()); // protocol violation: panics
                }
            } else if r < 53 {
                ops.push("incr".into()); // possibly without room: assert! fires
                nb += 1;
            } else if r < 64 {
                let ov = if rng.chance(2, 3) { "-".to_string() } else { rng.below(4).to_string() };
                ops.push(format!("admit {} {} {} {}", rng.below(NT), rng.below(NC), rng.below(NI), ov));
            } else if r < 70 {
                ops.push(format!("track {} {} {}", rng.below(NT), rng.below(NC), rng.below(NI)));
            } else if r < 82 {
                ops.push(format!("untrack {}", rng.below(NT)));
            } else if r < 94 {
                let ov = if rng.chance(1, 2) { "-".to_string() } else { rng.below(4).to_string() };
                ops.push(format!("atlimit {} {} {} {}", rng.below(NT), rng.below(NC), rng.below(NI), ov));
            } else if r < 97 {
                ops.push(format!("setmax {}", rng.below(4)));
            } else {
                ops.push("clear".into());
            }
        }
        ops
    }
    fn run_impl(&self, ops: &[String]) -> ImplRun {
        let mut r = ImplRun::default();
        let mut sm_rc: Option<Rc<RefCell<SessionManager>>> = None;
        let mut dead = false;
        let mut max = 0usize;
        let mut toggles = 0;
        let mut last_ca = true;
        for op in ops {
            let w: Vec<&str> = op.split_whitespace().collect();
            if w[0] == "new" {
                max = w[1].parse().unwrap();
                let slab: Slab<Rc<RefCell<dyn ProxySession>>> = Slab::new();
                let sm = SessionManager::new(slab, max, w[2].parse().unwrap(), 0);
                r.out.push(format!("new {}", dump(&sm.borrow())));
                sm_rc = Some(sm);
                dead = false;
                continue;
            }
            if dead {
                r.out.push("dead".into());
                continue;
            }
            let smc = sm_rc.as_ref().expect("new first").clone();
            let mut sm = smc.borrow_mut();
            r.tags.push(format!("op:{}", w[0]));
            let res: Result<String, ()> = catch_unwind(AssertUnwindSafe(|| match w[0] {
                "check" => {
                    let want: usize = w[1].parse().unwrap();
                    while sm.slab.len() < want {
                        sm.slab.insert(Rc::new(RefCell::new(ListenSession { protocol: Protocol::HTTPListen })));
                    }
                    while sm.slab.len() > want {
                        let k = sm.slab.iter().next().map(|(k, _)| k).unwrap();
                        sm.slab.remove(k);
                    }
                    (sm.check_limits() as u8).to_string()
                }
                "incr" => {
                    sm.incr();
                    "ok".into()
                }
                "decr" => {
                    sm.decr();
                    "ok".into()
                }
                "atlimit" => {
                    let ov = if w[4] == "-" { None } else { Some(w[4].parse::<u64>().unwrap()) };
                    let t: usize = w[1].parse().unwrap();
                    (sm.cluster_ip_at_limit(Token(t), &cl(w[2].parse().unwrap()), &ip(w[3].parse().unwrap()), ov) as u8).to_string()
                }
                "admit" => {
                    // the admission call site (mux/router.rs connect, tcp.rs connect_to_backend)
                    let ov = if w[4] == "-" { None } else { Some(w[4].parse::<u64>().unwrap()) };
                    let t: usize = w[1].parse().unwrap();
                    let (c, i) = (cl(w[2].parse().unwrap()), ip(w[3].parse().unwrap()));
                    if sm.cluster_ip_at_limit(Token(t), &c, &i, ov) {
                        "0".into()
                    } else {
                        sm.track_cluster_ip(Token(t), c, i);
                        "1".into()
                    }
                }
                "track" => {
                    let t: usize = w[1].parse().unwrap();
                    sm.track_cluster_ip(Token(t), cl(w[2].parse().unwrap()), ip(w[3].parse().unwrap()));
                    "ok".into()
                }
                "untrack" => {
                    let t: usize = w[1].parse().unwrap();
                    sm.untrack_all_cluster_ip(Token(t));
                    "ok".into()
                }
                "clear" => {
                    sm.clear_cluster_ip_tracking();
                    "ok".into()
                }
                "setmax" => {
                    // the worker's SetMaxConnectionsPerIp handler (lib/src/server.rs)
                    let limit: u64 = w[1].parse().unwrap();
                    sm.max_connections_per_ip = limit;
                    if limit == 0 {
                        sm.clear_cluster_ip_tracking();
                    }
                    "ok".into()
                }
                _ => "bad-op".into(),
            }))
            .map_err(|_| ());
            match res {
                Err(()) => {
                    r.out.push("panic".into());
                    r.tags.push("panic".into());
                    dead = true;
                }
                Ok(s) => {
                    // ---- property oracles (independent of the model) ----
                    if sm.nb_connections > sm.max_connections {
                        r.oracle.push(("nb-exceeds-max".into(), format!("nb={} max={}", sm.nb_connections, sm.max_connections)));
                    }
                    if w[0] == "decr" && !sm.can_accept && (sm.nb_connections < max * 90 / 100 || sm.nb_connections == 0) {
                        // "accepting resumes when load drops": idle, or under 90 % of the cap
                        let class = if max == 1 { "accept-never-resumes-max1" } else { "accept-not-resumed" };
                        r.oracle.push((class.into(), format!("nb={} max={} can_accept=false after decr", sm.nb_connections, max)));
                    }
                    if w[0] == "check" && s == "1" && sm.nb_connections >= sm.max_connections {
                        r.oracle.push(("admitted-at-cap".into(), format!("nb={} max={}", sm.nb_connections, max)));
                    }
                    if sm.can_accept != last_ca {
                        toggles += 1;
                        last_ca = sm.can_accept;
                    }
                    if sm.nb_connections == max {
                        r.nontrivial = true;
                    }
                    let d = dump(&sm);
                    if d.contains(":2]") || d.contains(":2,") || d.contains(":3") {
                        r.nontrivial = true;
                    }
                    r.out.push(format!("{s} {d}"));
                }
            }
        }
        if toggles > 0 {
            r.nontrivial = true;
            r.tags.push("can_accept-toggled".into());
        }
        // baseline oracle: after untracking every token nothing is left
        if !dead {
            if let Some(smc) = &sm_rc {
                let mut sm = smc.borrow_mut();
                let _ = catch_unwind(AssertUnwindSafe(|| {
                    for t in 0..NT {
                        sm.untrack_all_cluster_ip(Token(t as usize));
                    }
                }));
                for c in 0..NC {
                    for i in 0..NI {
                        let n = count(&sm, c, i);
                        if n != 0 {
                            r.oracle.push(("per-ip-slot-leak".into(), format!("cluster {c} ip {i} count {n} after all tokens untracked")));
                        }
                    }
                }
            }
        }
        r
    }
}

fn main() {
    std::panic::set_hook(Box::new(|_| {}));
    let args = parse_args();
    std::process::exit(run_area(&Sessions, &args));
}
