//! C01 (in-process part): kawa's HTTP/1 parser on bodies at arbitrary
//! segmentations vs the Lean decoder `Sozu.H1Body.Model`, kawa's H1 re-serialiser
//! (H1 -> H1 path) and sozu's real `H2BlockConverter` (H1 -> H2 DATA path) under
//! window schedules, partial socket writes and buffer back-pressure, with the
//! property's own oracle: the body bytes that leave are exactly the body bytes
//! that came in, in order, ended once.
use kawa::h1::converter::H1BlockConverter;
use kawa::h1::{parse, NoCallbacks};
use kawa::{AsBuffer, Block, Buffer, Kawa, Kind, OutBlock};
use sozu_lib::protocol::mux::verif::H2BlockConverter;
use verif_harness::*;

pub struct VecBuf(pub Vec<u8>);
impl AsBuffer for VecBuf {
    fn as_buffer(&self) -> &[u8] {
        &self.0
    }
    fn as_mut_buffer(&mut self) -> &mut [u8] {
        &mut self.0
    }
}

#[derive(Clone, Copy, PartialEq, Debug)]
enum Framing {
    Length(usize),
    Chunked,
    Close,
}

fn parse_framing(s: &str) -> Framing {
    if s == "chunked" {
        Framing::Chunked
    } else if s == "close" {
        Framing::Close
    } else {
        Framing::Length(s[3..].parse().unwrap())
    }
}

/// independent reference decoder (neither kawa nor the Lean model): body bytes
/// decodable from `wire` and whether the message is complete
fn ref_decode(f: Framing, wire: &[u8]) -> (Vec<u8>, bool) {
    match f {
        Framing::Close => (wire.to_vec(), false),
        Framing::Length(n) => (wire[..n.min(wire.len())].to_vec(), wire.len() >= n),
        Framing::Chunked => {
            let mut out = vec![];
            let mut i = 0;
            loop {
                let mut j = i;
                while j < wire.len() && wire[j].is_ascii_hexdigit() {
                    j += 1;
                }
                if j == i || j + 1 >= wire.len() || wire[j] != b'\r' || wire[j + 1] != b'\n' {
                    return (out, false);
                }
                let n = usize::from_str_radix(std::str::from_utf8(&wire[i..j]).unwrap(), 16).unwrap_or(usize::MAX);
                i = j + 2;
                if n == 0 {
                    // trailers until the empty line
                    loop {
                        match wire[i..].windows(2).position(|w| w == b"\r\n") {
                            None => return (out, false),
                            Some(0) => return (out, true),
                            Some(p) => i += p + 2,
                        }
                    }
                }
                let take = n.min(wire.len().saturating_sub(i));
                out.extend_from_slice(&wire[i..i + take]);
                i += take;
                if take < n || i + 1 >= wire.len() {
                    return (out, false);
                }
                if &wire[i..i + 2] != b"\r\n" {
                    return (out, false);
                }
                i += 2;
            }
        }
    }
}

fn pattern(k: usize, n: usize) -> Vec<u8> {
    (0..n).map(|i| ((i * 13 + k) % 251) as u8).collect()
}

struct Msg {
    bytes: Vec<u8>,
    hlen: usize,
    framing: Framing,
    kind: &'static str,
}

fn gen_msg(rng: &mut Rng, max_body: usize) -> Msg {
    let kind = if rng.chance(1, 2) { "req" } else { "resp" };
    let sizes = [0usize, 1, 2, 9, 15, 16, 17, 255, 256, 1000, 4095, 4096, 16383, 16384, 16385, 65535, 65536, 70000];
    let mut n = if rng.chance(1, 2) { *rng.pick(&sizes) } else { rng.range(0, 300) as usize };
    n = n.min(max_body);
    let body = pattern(rng.below(251) as usize, n);
    let fr = match rng.below(10) {
        0..=3 => Framing::Length(n),
        4..=8 => Framing::Chunked,
        _ => {
            if kind == "resp" {
                Framing::Close
            } else {
                Framing::Chunked
            }
        }
    };
    let mut head = if kind == "req" {
        b"POST /upload HTTP/1.1\r\nHost: a.test\r\nX-Pad: abcdefghij\r\n".to_vec()
    } else {
        b"HTTP/1.1 200 OK\r\nServer: t\r\n".to_vec()
    };
    match fr {
        Framing::Length(n) => head.extend_from_slice(format!("Content-Length: {n}\r\n").as_bytes()),
        Framing::Chunked => head.extend_from_slice(b"Transfer-Encoding: chunked\r\n"),
        Framing::Close => {}
    }
    head.extend_from_slice(b"\r\n");
    let hlen = head.len();
    let mut bytes = head;
    match fr {
        Framing::Chunked => {
            let mut i = 0;
            while i < body.len() {
                let c = match rng.below(6) {
                    0 => 1,
                    1 => rng.range(1, 17) as usize,
                    2 => 16384,
                    3 => body.len() - i,
                    _ => rng.range(1, 5000) as usize,
                }
                .min(body.len() - i)
                .max(1);
                let hx = match rng.below(4) {
                    0 => format!("{:X}", c),
                    1 => format!("{:04x}", c),
                    _ => format!("{:x}", c),
                };
                bytes.extend_from_slice(hx.as_bytes());
                bytes.extend_from_slice(b"\r\n");
                bytes.extend_from_slice(&body[i..i + c]);
                bytes.extend_from_slice(b"\r\n");
                i += c;
            }
            bytes.extend_from_slice(b"0\r\n");
            if rng.chance(1, 5) {
                bytes.extend_from_slice(b"X-Trailer: v1\r\n");
            }
            bytes.extend_from_slice(b"\r\n");
        }
        _ => bytes.extend_from_slice(&body),
    }
    Msg { bytes, hlen, framing: fr, kind }
}

fn framing_str(f: Framing) -> String {
    match f {
        Framing::Length(n) => format!("cl:{n}"),
        Framing::Chunked => "chunked".into(),
        Framing::Close => "close".into(),
    }
}

fn out_bytes(k: &Kawa<VecBuf>, from: usize) -> Vec<u8> {
    let buf = k.storage.buffer();
    let mut v = vec![];
    for b in k.out.iter().skip(from) {
        if let OutBlock::Store(s) = b {
            v.extend_from_slice(s.data(buf));
        }
    }
    v
}

/// (DATA payload concatenation, END_STREAM count, malformed)
fn h2_scan(wire: &[u8]) -> (Vec<u8>, usize, Option<String>) {
    let mut data = vec![];
    let mut es = 0;
    let mut i = 0;
    while i < wire.len() {
        if wire.len() - i < 9 {
            return (data, es, Some(format!("truncated frame header at {i}")));
        }
        let len = ((wire[i] as usize) << 16) | ((wire[i + 1] as usize) << 8) | wire[i + 2] as usize;
        let ty = wire[i + 3];
        let fl = wire[i + 4];
        if wire.len() - i - 9 < len {
            return (data, es, Some(format!("frame at {i} announces {len}, {} present", wire.len() - i - 9)));
        }
        if ty == 0 {
            data.extend_from_slice(&wire[i + 9..i + 9 + len]);
        }
        if (ty == 0 || ty == 1) && fl & 1 != 0 {
            es += 1;
        }
        if ty > 9 {
            return (data, es, Some(format!("frame type {ty} at {i}")));
        }
        i += 9 + len;
    }
    (data, es, None)
}

fn new_conv<'a>(enc: &'a mut loona_hpack::Encoder<'static>) -> H2BlockConverter<'a> {
    H2BlockConverter {
        max_frame_size: 16384,
        window: 0,
        stream_id: 1,
        encoder: enc,
        out: Vec::new(),
        scheme: b"http",
        lowercase_buf: Vec::new(),
        cookie_buf: Vec::new(),
        position_is_client: false,
        incremental_mode: false,
        incremental_peer_count: 0,
        pending_table_size_update: None,
        size_update_emitted: false,
        pending_oversized_abort: false,
    }
}

fn new_kawa(cap: usize, kind: &str) -> Kawa<VecBuf> {
    Kawa::new(if kind == "req" { Kind::Request } else { Kind::Response }, Buffer::new(VecBuf(vec![0u8; cap])))
}

/// the socket-write half of `flush_stream_out`: `k` bytes leave, then `consume(k)`
fn socket_write(k: &mut Kawa<VecBuf>, n: usize, wire: &mut Vec<u8>) -> usize {
    let avail = out_bytes(k, 0);
    let n = n.min(avail.len());
    wire.extend_from_slice(&avail[..n]);
    // mirrors `flush_stream_out` (lib/src/protocol/mux/h2.rs): `Kawa::consume` may shift the
    // storage and re-bases only `kawa.out`; the queued blocks are re-based by the caller
    // (fix for F65-F67). `H1BODY_PRE_FIX=1` replays the pre-fix call pattern, only to
    // show that the three *-after-shift-with-queued-blocks oracles are still alive.
    let end_before = k.storage.end;
    k.consume(n);
    if std::env::var("H1BODY_PRE_FIX").is_err() {
        let shifted = end_before - k.storage.end;
        if shifted > 0 {
            for b in k.blocks.iter_mut() {
                b.push_left(shifted as u32);
            }
        }
    }
    n
}

/// one whole transfer through a buffer of `cap` bytes under a schedule derived
/// from `seed`: reads sized by the free space, passes with varying windows,
/// partial socket writes. Returns the wire bytes produced.
fn run_stream(cap: usize, kind: &str, msg: &[u8], mode: &str, seed: u64, tags: &mut Vec<String>, shifted: &mut bool, wire_out: &mut Vec<u8>) {
    let mut rng = Rng::new(seed);
    let mut k = new_kawa(cap, kind);
    let mut enc = loona_hpack::Encoder::new();
    let mut conv = new_conv(&mut enc);
    let wire = wire_out;
    let mut fed = 0usize;
    let mut idle = 0;
    let mut rounds = 0;
    while rounds < 200_000 {
        rounds += 1;
        let mut progressed = false;
        // read
        if fed < msg.len() && !k.is_terminated() && !k.is_error() {
            let space = k.storage.available_space();
            if space == 0 {
                tags.push("buffer-full".into());
            }
            let want = match rng.below(4) {
                0 => 1,
                1 => rng.range(1, 64) as usize,
                _ => space,
            };
            let n = want.min(space).min(msg.len() - fed);
            if n > 0 {
                k.storage.space()[..n].copy_from_slice(&msg[fed..fed + n]);
                k.storage.fill(n);
                fed += n;
                parse(&mut k, &mut NoCallbacks);
                progressed = true;
            }
        }
        // convert
        if k.is_main_phase() || k.is_terminated() {
            let before = k.out.len();
            let blocks_before = k.blocks.len();
            if mode == "h2" {
                let w = if idle > 3 {
                    1 << 20
                } else {
                    match rng.below(6) {
                        0 => 0,
                        1 => 1,
                        2 => rng.range(1, 100) as i32,
                        3 => 16384,
                        _ => rng.range(1, 70000) as i32,
                    }
                };
                conv.window = w;
                conv.max_frame_size = 16384;
                k.prepare(&mut conv);
                if !k.blocks.is_empty() {
                    tags.push("stalled-blocks".into());
                }
            } else {
                k.prepare(&mut H1BlockConverter);
            }
            if k.out.len() != before || k.blocks.len() != blocks_before {
                progressed = true;
            }
        }
        // socket write (partial)
        let avail: usize = out_bytes(&k, 0).len();
        if avail > 0 {
            let n = if idle > 3 {
                avail
            } else {
                match rng.below(5) {
                    0 => 0,
                    1 => 1,
                    2 => rng.range(1, avail as u64) as usize,
                    _ => avail,
                }
            };
            let start_before = k.storage.start;
            let end_before = k.storage.end;
            if socket_write(&mut k, n, wire) > 0 {
                progressed = true;
            }
            let _ = start_before;
            if k.storage.end < end_before && !k.blocks.is_empty() {
                // Kawa::consume shifted the buffer (and re-based `out`) while blocks still point into it
                if !*shifted {
                    tags.push("shift-with-queued-blocks".into());
                }
                *shifted = true;
            }
        }
        if progressed {
            idle = 0;
        } else {
            idle += 1;
            if idle > 12 {
                break;
            }
        }
        if fed == msg.len() && k.out.is_empty() && k.blocks.is_empty() && (k.is_terminated() || k.is_error()) {
            break;
        }
    }
}

struct H1Body;

impl Area for H1Body {
    fn name(&self) -> &'static str {
        "h1body"
    }
    fn rule(&self) -> String {
        "HTTP/1.1 requests and responses with Content-Length / chunked (random chunk sizes incl. 1, 16384, whole body; upper-case and zero-padded sizes; optional trailer) / close-delimited bodies of 0..70000 bytes (sizes around 16, 256, 4096, 16384, 65536), optional pipelined bytes after the end. 60% step-wise: fed to kawa::h1::parse at random segmentations (1 byte .. everything), interleaved with H2BlockConverter passes (window 0/1/small/16384/large) or H1 re-serialisation passes and partial socket writes, buffer >= message; 40% `stream`: the whole transfer through a buffer smaller than the message (capacity 64..4096 or 16393) under a seed-derived schedule with back-pressure. non-trivial = body >= 1 byte and at least one split (segmentation, window stall or partial write); distinct = distinct op sequence".into()
    }
    fn cases(&self, thorough: bool) -> u64 {
        if thorough {
            30_000
        } else {
            2_500
        }
    }
    fn corpus(&self) -> Vec<Vec<String>> {
        let s = |v: &[&str]| v.iter().map(|x| x.to_string()).collect::<Vec<_>>();
        let resp = b"HTTP/1.1 200 OK\r\nTransfer-Encoding: chunked\r\n\r\n3\r\nABC\r\n0\r\n\r\n";
        let hl = resp.windows(4).position(|w| w == b"\r\n\r\n").unwrap() + 4;
        vec![
            s(&[&format!("new chunked {hl} 256 resp"), &format!("feed {}", hex(&resp[..hl + 2])), &format!("feed {}", hex(&resp[hl + 2..hl + 5])), "h2 16384 2", "consume 1000", &format!("feed {}", hex(&resp[hl + 5..])), "h2 16384 10", "consume 1000"]),
            s(&[&format!("stream 64 chunked {hl} {} h2 1", hex(resp))]),
            s(&[&format!("stream 64 chunked {hl} {} h1 2", hex(resp))]),
            // F65 witness (seed 1, case 11 before the fix): 16384-byte response through a 4096-byte
            // buffer; a partial socket write shifts the storage while a window-stalled chunk is queued
            s(&[&{
                let mut m = b"HTTP/1.1 200 OK\r\nServer: t\r\nContent-Length: 16384\r\n\r\n".to_vec();
                let hl = m.len();
                m.extend_from_slice(&pattern(173, 16384));
                format!("stream 4096 cl:16384 {hl} {} h2 463701567", hex(&m))
            }]),
            // F66 witness (slice index panic), seed 1 case 95: 20000-byte request body, 233-byte buffer
            s(&[&{
                let mut m = b"POST /upload HTTP/1.1\r\nHost: a.test\r\nX-Pad: abcdefghij\r\nContent-Length: 20000\r\n\r\n".to_vec();
                let hl = m.len();
                m.extend_from_slice(&pattern(7, 20000));
                format!("stream 233 cl:20000 {hl} {} h2 215901865", hex(&m))
            }]),
        ]
    }
    fn lines_agree(&self, impl_line: &str, model_line: &str) -> bool {
        // `shiftq=` is harness-side diagnosis (fingerprint), not an observation the model predicts
        let strip = |l: &str| l.split(" shiftq=").next().unwrap_or("").to_string();
        strip(impl_line) == strip(model_line)
    }
    fn classify_mismatch(&self, ops: &[String], impl_out: &[String], _model_out: &[String]) -> String {
        if let Some(op) = ops.first() {
            if op.starts_with("stream ") {
                let md = if op.contains(" h2 ") { "h2" } else { "h1" };
                let sh = impl_out.first().map(|l| l.ends_with("shiftq=1")).unwrap_or(false);
                return format!("h1-to-{md}-body-corrupted{}", if sh { "-after-shift-with-queued-blocks" } else { "" });
            }
        }
        "model-mismatch".into()
    }
    fn keep_prefix(&self) -> usize {
        1
    }
    fn gen(&self, rng: &mut Rng, thorough: bool) -> Vec<String> {
        let mode = if rng.chance(3, 5) { "h2" } else { "h1" };
        if rng.chance(2, 5) {
            // whole transfer through a small buffer
            let m = gen_msg(rng, if thorough { 70000 } else { 20000 });
            let cap = match rng.below(5) {
                0 => 16393,
                1 => 4096,
                _ => rng.range(m.hlen as u64 + 8, (m.hlen as u64 + 8).max(1500)) as usize,
            };
            let mut bytes = m.bytes.clone();
            if m.framing != Framing::Close && rng.chance(1, 6) {
                bytes.extend_from_slice(b"GET /next HTTP/1.1\r\n");
            }
            return vec![format!("stream {cap} {} {} {} {mode} {}", framing_str(m.framing), m.hlen, hex(&m.bytes), rng.below(1 << 30))];
        }
        let m = gen_msg(rng, if thorough { 70000 } else { 5000 });
        let mut bytes = m.bytes.clone();
        if m.framing != Framing::Close && rng.chance(1, 4) {
            bytes.extend_from_slice(b"GET /next HTTP/1.1\r\nHost: a.test\r\n\r\n");
        }
        let cap = bytes.len() + rng.range(0, 64) as usize;
        let mut ops = vec![format!("new {} {} {cap} {}", framing_str(m.framing), m.hlen, m.kind)];
        let mut i = 0;
        while i < bytes.len() {
            let n = match rng.below(6) {
                0 => 1,
                1 => rng.range(1, 8) as usize,
                2 => bytes.len() - i,
                _ => rng.range(1, 3000) as usize,
            }
            .min(bytes.len() - i);
            ops.push(format!("feed {}", hex(&bytes[i..i + n])));
            i += n;
            if rng.chance(1, 2) {
                if mode == "h2" {
                    let w = match rng.below(6) {
                        0 => 0,
                        1 => 1,
                        2 => rng.range(1, 50) as i64,
                        3 => 16384,
                        4 => -3,
                        _ => rng.range(1, 70000) as i64,
                    };
                    ops.push(format!("h2 16384 {w}"));
                } else {
                    ops.push("h1pass".into());
                }
            }
            if rng.chance(1, 3) {
                ops.push(format!("consume {}", if rng.chance(1, 2) { rng.range(0, 40) } else { 1 << 20 }));
            }
        }
        if mode == "h2" {
            ops.push("h2 16384 1000000".into());
        } else {
            ops.push("h1pass".into());
        }
        ops.push("consume 1048576".into());
        ops
    }
    fn run_impl(&self, ops: &[String]) -> ImplRun {
        let mut r = ImplRun::default();
        let mut enc = loona_hpack::Encoder::new();
        let mut conv = new_conv(&mut enc);
        let mut k = new_kawa(16, "resp");
        let mut wire: Vec<u8> = vec![];
        let mut fed: Vec<u8> = vec![];
        let mut framing = Framing::Length(0);
        let mut hlen = 0usize;
        let mut mode = "";
        let mut splits = 0;
        for op in ops {
            let w: Vec<&str> = op.split_whitespace().collect();
            r.tags.push(format!("op:{}", w[0]));
            match w[0] {
                "stream" => {
                    let cap: usize = w[1].parse().unwrap();
                    let fr = parse_framing(w[2]);
                    let hl: usize = w[3].parse().unwrap();
                    let msg = unhex(w[4]);
                    let md = w[5];
                    let seed: u64 = w[6].parse().unwrap();
                    let kind = if msg.starts_with(b"HTTP/") { "resp" } else { "req" };
                    r.tags.push(format!("stream:{md}:{}", w[2].split(':').next().unwrap()));
                    let mut shifted = false;
                    let mut out: Vec<u8> = vec![];
                    let panicked = {
                        let (tags, sh, o) = (&mut r.tags, &mut shifted, &mut out);
                        std::panic::catch_unwind(std::panic::AssertUnwindSafe(|| run_stream(cap, kind, &msg, md, seed, tags, sh, o))).err().map(|e| {
                            e.downcast_ref::<String>().cloned().or_else(|| e.downcast_ref::<&str>().map(|s| s.to_string())).unwrap_or_else(|| "panic".into())
                        })
                    };
                    let suffix = if shifted { "-after-shift-with-queued-blocks" } else { "" };
                    let did_panic = panicked.is_some();
                    if let Some(msg) = panicked {
                        r.oracle.push((format!("h1-to-{md}-panic{suffix}"), format!("cap {cap} framing {}: {msg}", w[2])));
                        r.tags.push("stream-panic".into());
                    }
                    let (expected, complete) = ref_decode(fr, &msg[hl.min(msg.len())..]);
                    let (body, ended) = if md == "h2" {
                        let (d, es, bad) = h2_scan(&out);
                        if let Some(e) = bad {
                            if !did_panic {
                                r.oracle.push((format!("h2-output-malformed{suffix}"), e));
                            }
                        }
                        if es > 1 {
                            r.oracle.push(("end-stream-twice".into(), format!("{es} END_STREAM flags")));
                        }
                        (d, es == 1)
                    } else {
                        match out.windows(4).position(|x| x == b"\r\n\r\n") {
                            None => (vec![], false),
                            Some(p) => ref_decode(fr, &out[p + 4..]),
                        }
                    };
                    if body != expected {
                        let at = body.iter().zip(expected.iter()).position(|(a, b)| a != b).unwrap_or(body.len().min(expected.len()));
                        let class = format!("h1-to-{md}-body-corrupted{suffix}");
                        r.oracle.push((class, format!("cap {cap} framing {}: {} body bytes out, {} in, first difference at {at}", w[2], body.len(), expected.len())));
                    }
                    if complete && !ended && fr != Framing::Close && body == expected {
                        r.oracle.push(("clean-end-missing".into(), format!("message complete on input, output not terminated ({md})")));
                    }
                    if expected.len() > 0 {
                        r.nontrivial = true;
                    }
                    r.out.push(format!("body={} end={} shiftq={}", hex(&body), (ended && fr != Framing::Close) as u8, shifted as u8));
                }
                "new" => {
                    framing = parse_framing(w[1]);
                    hlen = w[2].parse().unwrap();
                    k = new_kawa(w[3].parse().unwrap(), w[4]);
                    wire.clear();
                    fed.clear();
                    mode = "";
                    r.out.push("ok".into());
                }
                "feed" => {
                    let b = unhex(w[1]);
                    fed.extend_from_slice(&b);
                    if k.storage.available_space() < b.len() {
                        r.out.push("no-space".into());
                        continue;
                    }
                    k.storage.space()[..b.len()].copy_from_slice(&b);
                    k.storage.fill(b.len());
                    let nb = k.blocks.len();
                    parse(&mut k, &mut NoCallbacks);
                    let buf = k.storage.buffer();
                    let mut body = vec![];
                    for bl in k.blocks.iter().skip(nb) {
                        if let Block::Chunk(c) = bl {
                            body.extend_from_slice(c.data.data(buf));
                        }
                    }
                    if fed.len() > 1 {
                        splits += 1;
                    }
                    let headers_done = fed.len() >= hlen;
                    let mut line = format!("body={} done={} err={}", hex(&body), (headers_done && k.is_terminated()) as u8, k.is_error() as u8);
                    if headers_done && k.is_terminated() {
                        line.push_str(&format!(" left={}", k.storage.unparsed_data().len()));
                    }
                    if k.is_error() {
                        r.oracle.push(("h1-parser-rejects-valid-message".into(), format!("after {} bytes", fed.len())));
                    }
                    r.out.push(line);
                }
                "h2" => {
                    mode = "h2";
                    if !(k.is_main_phase() || k.is_terminated()) || fed.len() < hlen {
                        r.out.push("data=- es=0".into());
                        continue;
                    }
                    let win: i64 = w[2].parse().unwrap();
                    conv.max_frame_size = w[1].parse().unwrap();
                    conv.window = win as i32;
                    let before = k.out.len();
                    k.prepare(&mut conv);
                    let new = out_bytes(&k, before);
                    let (d, es, bad) = h2_scan(&new);
                    if let Some(e) = bad {
                        r.oracle.push(("h2-output-malformed".into(), e));
                    }
                    if d.len() as i64 > win.max(0) {
                        r.oracle.push(("data-exceeds-window".into(), format!("{} > {win}", d.len())));
                    }
                    if !k.blocks.is_empty() {
                        splits += 1;
                    }
                    r.out.push(format!("data={} es={}", hex(&d), (es > 0) as u8));
                }
                "h1pass" => {
                    mode = "h1";
                    if k.is_main_phase() || k.is_terminated() {
                        k.prepare(&mut H1BlockConverter);
                    }
                    r.out.push("ok".into());
                }
                "consume" => {
                    let n: usize = w[1].parse().unwrap();
                    let avail = out_bytes(&k, 0).len();
                    if n < avail {
                        splits += 1;
                    }
                    socket_write(&mut k, n, &mut wire);
                    r.out.push("ok".into());
                }
                _ => r.out.push("bad-op".into()),
            }
        }
        if !mode.is_empty() && fed.len() >= hlen {
            socket_write(&mut k, usize::MAX, &mut wire);
            let (expected, complete) = ref_decode(framing, &fed[hlen..]);
            let (body, ended) = if mode == "h2" {
                let (d, es, bad) = h2_scan(&wire);
                if let Some(e) = bad {
                    r.oracle.push(("h2-output-malformed".into(), e));
                }
                if es > 1 {
                    r.oracle.push(("end-stream-twice".into(), format!("{es} END_STREAM flags")));
                }
                (d, es == 1)
            } else {
                match wire.windows(4).position(|x| x == b"\r\n\r\n") {
                    None => (vec![], false),
                    Some(p) => ref_decode(framing, &wire[p + 4..]),
                }
            };
            let last_pass_fair = ops.iter().rev().take(2).any(|o| o == "h2 16384 1000000" || o == "h1pass");
            if body.len() > expected.len() || body[..] != expected[..body.len()] {
                let class = if mode == "h2" { "h1-to-h2-body-corrupted" } else { "h1-to-h1-body-corrupted" };
                r.oracle.push((class.into(), format!("{} body bytes out are not a prefix of the {} in", body.len(), expected.len())));
            } else if last_pass_fair && body.len() < expected.len() && !k.is_error() {
                r.oracle.push(("body-truncated".into(), format!("{} of {} body bytes after the final fair pass ({mode})", body.len(), expected.len())));
            } else if last_pass_fair && complete && !ended && framing != Framing::Close && !k.is_error() {
                r.oracle.push(("clean-end-missing".into(), format!("complete input, output not terminated ({mode})")));
            }
            if !expected.is_empty() && splits > 0 {
                r.nontrivial = true;
            }
        }
        r
    }
}

fn main() {
    std::panic::set_hook(Box::new(|_| {}));
    let args = parse_args();
    std::process::exit(run_area(&H1Body, &args));
}
