//! C07 / C05 on a REAL WORKER (`lib/src/server.rs::notify_proxys`, the proxies of
//! `lib/src/{http,https,tcp,udp}.rs`): the commands of the State generator that
//! the main process would forward (the ones its own `ConfigState` accepts) are
//! sent, one by one, through the command channel of a worker thread started by
//! the rig (`verif_harness::rig`).
//!
//! * `--mode c07`: after every answer the worker's view of the configuration
//!   (`QueryClusterById` for every cluster id of the value space +
//!   `QueryClustersHashes`) is read back. Answer FAILURE => the view must be the
//!   one before the command (a rejected command leaves no trace in the worker).
//!   Answer OK => the view must be the one of a reference `ConfigState` that
//!   applied the command (an accepted command changes only what it names).
//! * `--mode c05`: the final main-process state `S` is turned back into requests
//!   (`produce_initial_state`, what a new worker is booted with) and replayed on a
//!   FRESH worker: every request must be accepted and the worker's view must be
//!   the view of `S`.
//!
//! Listener activation is left out (the value space's addresses cannot be
//! bound); listeners are added but stay inactive, which is all the frontends need.
#[path = "../state_codec.rs"]
mod codec;
#[path = "../state_gen.rs"]
mod gen;

use std::collections::BTreeMap;
use std::sync::OnceLock;
use std::time::{Duration, Instant};

use codec::*;
use gen::*;
use serde_json::{json, Value};
use sozu_command_lib::proto::command::{
    request::RequestType, response_content::ContentType, QueryClustersHashes, Request, ResponseStatus,
};
use sozu_command_lib::state::ConfigState;
use verif_harness::rig::{RigError, Worker, WorkerOpts};
use verif_harness::*;

static PEMS: OnceLock<Pems> = OnceLock::new();
fn pems() -> &'static Pems {
    PEMS.get_or_init(|| load_pems(&std::env::var("VERIF_REPO").unwrap_or_else(|_| "/repo".into())))
}

#[derive(Default)]
struct Outcome {
    out: Vec<String>,
    oracle: Vec<(String, String)>,
    tags: Vec<String>,
    nontrivial: bool,
    inconclusive: bool,
}
impl Outcome {
    fn fail(&mut self, class: String, detail: String) {
        if !self.oracle.iter().any(|(c, _)| *c == class) {
            self.oracle.push((class, detail));
        }
    }
}

type View = BTreeMap<String, String>;

fn sorted_json<T: serde::Serialize>(v: &[T]) -> Vec<String> {
    let mut x: Vec<String> = v.iter().map(|e| serde_json::to_string(e).unwrap_or_default()).collect();
    x.sort();
    x
}

fn info_str(ci: &sozu_command_lib::proto::command::ClusterInformation) -> String {
    format!(
        "conf={} http={:?} https={:?} tcp={:?} udp={:?} backends={:?}",
        serde_json::to_string(&ci.configuration).unwrap_or_default(),
        sorted_json(&ci.http_frontends),
        sorted_json(&ci.https_frontends),
        sorted_json(&ci.tcp_frontends),
        sorted_json(&ci.udp_frontends),
        sorted_json(&ci.backends)
    )
}

fn universe() -> Vec<String> {
    (0..CIDS.len() as u64).map(cid).collect()
}

fn view_of_state(s: &ConfigState) -> View {
    let mut v = View::new();
    for id in universe() {
        v.insert(format!("cluster:{id}"), s.cluster_state(&id).map(|ci| info_str(&ci)).unwrap_or_else(|| "-".into()));
    }
    v.insert("hashes".into(), format!("{:?}", s.hash_state()));
    v
}

fn view_of_worker(w: &mut Worker) -> Result<View, RigError> {
    let mut v = View::new();
    for id in universe() {
        let r = w.request(RequestType::QueryClusterById(id.clone()))?;
        let s = match r.content.and_then(|c| c.content_type) {
            Some(ContentType::Clusters(cs)) => cs.vec.first().map(info_str).unwrap_or_else(|| "-".into()),
            other => format!("?{other:?}"),
        };
        v.insert(format!("cluster:{id}"), s);
    }
    let r = w.request(RequestType::QueryClustersHashes(QueryClustersHashes {}))?;
    let s = match r.content.and_then(|c| c.content_type) {
        Some(ContentType::ClusterHashes(h)) => format!("{:?}", h.map),
        other => format!("?{other:?}"),
    };
    v.insert("hashes".into(), s);
    Ok(v)
}

fn view_diff(a: &View, b: &View) -> String {
    let mut d = vec![];
    for (k, va) in a {
        let vb = b.get(k).cloned().unwrap_or_default();
        if &vb != va {
            // show the neighbourhood of the first difference
            let (ca, cb): (Vec<char>, Vec<char>) = (va.chars().collect(), vb.chars().collect());
            let i = ca.iter().zip(cb.iter()).take_while(|(x, y)| x == y).count();
            let from = i.saturating_sub(60);
            let sa: String = ca.iter().skip(from).take(220).collect();
            let sb: String = cb.iter().skip(from).take(220).collect();
            d.push(format!("{k} (at char {i}): `..{sa}` vs `..{sb}`"));
        }
    }
    d.join(" ; ")
}

fn wr_names_empty(r: &Request) -> bool {
    match &r.request_type {
        Some(RequestType::AddCertificate(a)) => a.certificate.names.is_empty(),
        _ => true,
    }
}

fn forwarded(verb: &str) -> bool {
    // activation binds a socket (the value space's addresses cannot be bound); `other`/`empty` are not configuration
    !matches!(verb, "activate" | "deactivate" | "other" | "empty")
}

fn short_msg(m: &str) -> String {
    // stable part of a worker error message: letters only, first words
    m.split(|c: char| !c.is_ascii_alphabetic() && c != ' ').next().unwrap_or("").split_whitespace().take(6).collect::<Vec<_>>().join("_")
}

fn rig_fail(o: &mut Outcome, what: &str, e: RigError) {
    match e {
        RigError::Setup(m) => {
            o.inconclusive = true;
            o.tags.push(format!("inconclusive:setup:{}", m.chars().take(40).collect::<String>()));
        }
        RigError::WorkerGone(m) => o.fail("worker-died".into(), format!("{what}: the worker thread exited: {m}")),
        RigError::Timeout(m) => o.fail("worker-no-answer".into(), format!("{what}: {m}")),
        other => o.fail("worker-channel-error".into(), format!("{what}: {other:?}")),
    }
}

fn run_case(mode: &str, ops: &[String]) -> Outcome {
    let p = pems();
    let mut o = Outcome::default();
    let mut worker = match Worker::start(WorkerOpts { log_level: "error".into(), ..Default::default() }) {
        Ok(w) => w,
        Err(e) => {
            rig_fail(&mut o, "start", e);
            return o;
        }
    };
    let mut main = ConfigState::new(); // what the main process holds (it applies first, then scatters)
    let mut wref = ConfigState::new(); // what the worker should hold: the commands it answered OK
    let mut wactual = ConfigState::new(); // every forwarded command, whatever the answer (server.rs applies config_state.dispatch first)
    let mut before = match view_of_worker(&mut worker) {
        Ok(v) => v,
        Err(e) => {
            rig_fail(&mut o, "first view", e);
            return o;
        }
    };
    let mut failures = 0;
    for op in ops {
        let w: Vec<&str> = op.split_whitespace().collect();
        if w.is_empty() || !forwarded(w[0]) {
            continue;
        }
        let Some(req) = parse_cmd(p, &w) else { continue };
        let Some(rt) = req.request_type.clone() else { continue };
        if main.dispatch(&req).is_err() {
            o.tags.push(format!("main-refuses:{}", w[0]));
            continue; // the main process answers the error itself, nothing reaches the worker
        }
        let resp = match worker.request(rt) {
            Ok(r) => r,
            Err(e) => {
                rig_fail(&mut o, op, e);
                return o;
            }
        };
        let after = match view_of_worker(&mut worker) {
            Ok(v) => v,
            Err(e) => {
                rig_fail(&mut o, "view", e);
                return o;
            }
        };
        let _ = wactual.dispatch(&req);
        // model of `notify_proxys` (Sozu.State.Model.workerNotify): the worker's ConfigState applies every
        // forwarded command, whatever the proxies answer
        if after != view_of_state(&wactual) {
            o.fail(
                format!("worker-view-differs-from-model:{}", w[0]),
                format!("after `{op}` the worker's view is not the one of a ConfigState that dispatched every forwarded command: {}", view_diff(&view_of_state(&wactual), &after)),
            );
        }
        if resp.status == ResponseStatus::Failure as i32 {
            failures += 1;
            o.tags.push(format!("worker-failure:{}:{}", w[0], short_msg(&resp.message)));
            o.out.push(format!("{op} => FAILURE {}", resp.message.chars().take(120).collect::<String>()));
            // property: a command answered FAILURE leaves no trace in the worker
            if mode == "c07" && after != before {
                o.fail(
                    "worker-applies-rejected-command".to_string(),
                    format!("`{op}` answered FAILURE ({}) but the worker's view changed: {}", resp.message.chars().take(160).collect::<String>(), view_diff(&before, &after)),
                );
            }
        } else {
            o.tags.push(format!("worker-ok:{}", w[0]));
            o.out.push(format!("{op} => OK"));
            let _ = wref.dispatch(&req);
            // property: the worker holds what it accepted, nothing else (a command refused earlier may show only now)
            let want = view_of_state(&wref);
            if mode == "c07" && after != want {
                o.fail(
                    "worker-applies-rejected-command".to_string(),
                    format!("`{op}` answered OK; worker view vs the commands it accepted: {}", view_diff(&want, &after)),
                );
            }
        }
        before = after;
    }
    if mode == "c07" {
        o.nontrivial = failures > 0;
        let _ = worker.stop();
        return o;
    }
    let _ = worker.stop();
    // ---- c05: boot a fresh worker with the requests generated from the main state
    let init = main.produce_initial_state();
    o.nontrivial = init.requests.len() >= 4;
    let mut fresh = match Worker::start(WorkerOpts { log_level: "error".into(), ..Default::default() }) {
        Ok(w) => w,
        Err(e) => {
            rig_fail(&mut o, "start fresh", e);
            return o;
        }
    };
    let mut accepted = ConfigState::new();
    for wr in &init.requests {
        let Some(rt) = wr.content.request_type.clone() else { continue };
        let words = cmd_words(p, &wr.content);
        match fresh.request(rt) {
            Ok(r) if r.status == ResponseStatus::Failure as i32 => {
                o.tags.push(format!("bootstrap-failure:{}:{}", words[0], short_msg(&r.message)));
                let family = ["found no listener", "HSTS is only valid", "Could not parse rule", "Could not add route"].iter().any(|m| r.message.contains(m));
                // AddCertificate with explicit `names`: ConfigState::add_certificate only reads the PEM wrapper
                // (fingerprint) and never parses the DER, so a PEM block that is not X.509 enters the saved state;
                // the worker's certificate store parses it and refuses
                let non_x509 = words[0] == "addcert" && r.message.contains("x509") && !wr_names_empty(&wr.content);
                o.fail(
                    if family { "worker-bootstrap-rejects-saved-entry".to_string() }
                    else if non_x509 { "worker-bootstrap-rejects-non-x509-certificate".to_string() }
                    else { format!("worker-bootstrap-rejects:{}", words[0]) },
                    format!("generated request `{}` is refused by a fresh worker: {}", words.join(" "), r.message.chars().take(160).collect::<String>()),
                );
            }
            Ok(_) => {
                let _ = accepted.dispatch(&wr.content);
            }
            Err(e) => {
                rig_fail(&mut o, &words.join(" "), e);
                return o;
            }
        }
    }
    match view_of_worker(&mut fresh) {
        Ok(v) => {
            let want = view_of_state(&main);
            let (mut v2, mut w2) = (v.clone(), want.clone());
            v2.remove("hashes");
            w2.remove("hashes");
            if v2 == w2 && v != want {
                // same clusters, fronts and backends, other hash: an empty bucket left by a removal is hashed (F133)
                o.fail("cluster-hash-depends-on-history".into(), format!("fresh worker vs saved state: {}", view_diff(&want, &v)));
            } else if v != want {
                o.fail("worker-bootstrap-view-differs".into(), format!("fresh worker after the generated requests vs the saved state: {}", view_diff(&want, &v)));
            }
        }
        Err(e) => rig_fail(&mut o, "view fresh", e),
    }
    let _ = fresh.stop();
    o
}

fn judge(mode: &str, ops: &[String]) -> Outcome {
    quiet_logs();
    for attempt in 0..3 {
        match std::panic::catch_unwind(std::panic::AssertUnwindSafe(|| run_case(mode, ops))) {
            Ok(o) if !o.inconclusive => return o,
            Ok(_) | Err(_) => std::thread::sleep(Duration::from_millis(100 << attempt)),
        }
    }
    let mut o = Outcome::default();
    o.inconclusive = true;
    o.tags.push("inconclusive".into());
    o
}

fn gen_case(mode: &str, rng: &mut Rng, thorough: bool) -> Vec<String> {
    let mut sh = new_shadow(rng);
    let mut ops = vec![];
    // listeners first (inactive), so that frontends have somewhere to go — and sometimes not
    for t in 0..4usize {
        if rng.chance(2, 3) {
            let a = g_addr(rng, &sh) % 16;
            sh.listeners[t].insert(a);
            ops.push(match t {
                0 | 1 => {
                    let l = g_httpl(rng, &sh, t == 1);
                    let mut w: Vec<String> = l.split(' ').map(|x| x.to_string()).collect();
                    w[1] = a.to_string();
                    w[9] = "0".into(); // inactive
                    w.join(" ")
                }
                2 => format!("addtcpl {a} - {} 60 30 3 0", rng.below(2)),
                _ => format!("addudpl {a} - 30 30 1500 {} 0", rng.below(3)),
            });
        }
    }
    let n = rng.range(6, if thorough { 40 } else { 24 });
    let bias = if mode == "c07" { 20 } else { 5 };
    for _ in 0..n {
        ops.push(g_cmd(rng, &mut sh, bias));
    }
    ops.iter().map(|l| worker_valid(l)).collect()
}

/// The State value space sets fields a worker validates on its own (answer templates, cipher
/// lists, ...) to arbitrary tokens. Listeners and clusters must exist in the worker for the
/// interesting commands to have a target, so their worker-validated fields are reset here.
fn worker_valid(line: &str) -> String {
    let mut w: Vec<String> = line.split(' ').map(|x| x.to_string()).collect();
    match w[0].as_str() {
        "addhttpl" | "addhttpsl" if w.len() == 17 => {
            w[9] = "0".into();
            w[10] = "-".into();
            w[16] = if w[0] == "addhttpsl" { "4".into() } else { "0".into() };
        }
        "updhttpl" | "updhttpsl" if w.len() > 9 => w[9] = "-".into(),
        "addcluster" if w.len() == 4 => {
            w[3] = match w[3].as_str() { "2" | "3" => "2".into(), _ => "0".into() };
        }
        "addtcpl" | "addudpl" if w.len() == 8 => w[7] = "0".into(),
        // the certificate store checks key and chain (C17's business): real key, no chain
        "addcert" if w.len() == 7 => w[4] = "0".into(),
        "replcert" if w.len() == 8 => w[5] = "0".into(),
        _ => {}
    }
    w.join(" ")
}

fn corpus(_mode: &str) -> Vec<Vec<String>> {
    let s = |v: &[&str]| v.iter().map(|x| x.to_string()).collect::<Vec<_>>();
    let hl0 = "addhttpl 2 - 0 1 60 30 3 10 0 - - - - -,-,-,-,-,-,-,-,-,-,-,-,-,-,-,-,-,- - 0";
    vec![
        // a frontend for an address without listener; with a listener; a tcp front without listener
        s(&["addcluster 1 - 0", "addhttpf 1 4 0 0 0 - 2 0 0", hl0, "addhttpf 1 2 0 0 0 - 2 0 0", "addtcpf 1 5 0", "addbackend 1 1 4 - - -"]),
        // a REGEX path that does not compile
        s(&["addcluster 1 - 0", hl0, "addhttpf 1 2 0 1 5 - 2 0 0"]),
        // a PEM block that is not X.509 (lib/assets/key.pem) with explicit names: the main state accepts it
        s(&["addhttpsl 3 - 0 0 60 30 3 10 0 - - - - -,-,-,-,-,-,-,-,-,-,-,-,-,-,-,-,-,- - 4", "addcluster 1 - 0", "addbackend 1 1 4 - - -",
            "addhttpsf 1 3 0 0 0 - 2 0 0", "addcert 3 10 2 0 10 !"]),
    ]
}

fn main() {
    std::panic::set_hook(Box::new(|_| {}));
    verif_harness::rig::silence_worker_panics();
    let args = parse_args();
    let t0 = Instant::now();
    let mode = args.extra.get("mode").cloned().unwrap_or_else(|| if args.prop == "C05" { "c05".into() } else { "c07".into() });
    let _ = pems();
    let emit = |res: Value, code: i32| -> ! {
        if !args.out.is_empty() {
            let _ = std::fs::write(&args.out, serde_json::to_string_pretty(&res).unwrap());
        }
        std::process::exit(code)
    };
    if let Some(path) = &args.replay {
        let ops = read_replay_ops(path);
        // replay files of the other State harnesses start with `new` / `set family`
        let ours = !ops.iter().any(|l| l == "new" || l.starts_with("set family "));
        let o = if ours { judge(&mode, &ops) } else { Outcome::default() };
        for (c, d) in &o.oracle {
            println!("FAIL oracle {c} {d}");
        }
        let fails: Vec<Value> = o.oracle.iter().map(|(c, d)| json!({"kind": "oracle", "class": c, "detail": d, "case": -1, "ops": ops, "impl_out": o.out, "model_out": []})).collect();
        let code = if fails.is_empty() { 0 } else { 1 };
        emit(json!({"area": "stateworker", "property": args.prop, "replay": path, "evaluations": 1, "failures": fails}), code);
    }
    let thorough = args.thorough();
    let n = args.cases.unwrap_or(if thorough { 400 } else { 40 });
    let mut cases = corpus(&mode);
    let ncorpus = cases.len() as i64;
    for i in 0..n {
        let mut rng = Rng::for_case(args.seed ^ 0x5357_4b52, i);
        cases.push(gen_case(&mode, &mut rng, thorough));
    }
    let nthreads = std::thread::available_parallelism().map(|x| x.get()).unwrap_or(4).min(8);
    let chunk = cases.len().div_ceil(nthreads).max(1);
    let mut outcomes: Vec<Outcome> = vec![];
    std::thread::scope(|s| {
        let mode = &mode;
        let hs: Vec<_> = cases.chunks(chunk).map(|cs| s.spawn(move || cs.iter().map(|ops| judge(mode, ops)).collect::<Vec<_>>())).collect();
        for h in hs {
            outcomes.extend(h.join().expect("case thread"));
        }
    });
    let mut dist: BTreeMap<String, u64> = BTreeMap::new();
    let mut failures: Vec<Value> = vec![];
    let mut per_class: BTreeMap<String, u64> = BTreeMap::new();
    let mut samples = vec![];
    let mut distinct = std::collections::HashSet::new();
    let (mut clean, mut inconclusive) = (0u64, 0u64);
    for (idx, (ops, o)) in cases.iter().zip(outcomes.iter()).enumerate() {
        for t in &o.tags {
            *dist.entry(t.clone()).or_insert(0) += 1;
        }
        if o.inconclusive {
            inconclusive += 1;
            continue;
        }
        if o.nontrivial {
            distinct.insert(ops.clone());
        }
        if samples.len() < 2 && o.nontrivial {
            samples.push(json!({"case": idx as i64 - ncorpus, "ops": ops, "impl_out": o.out}));
        }
        if o.oracle.is_empty() {
            clean += 1;
        }
        for (c, d) in &o.oracle {
            let k = per_class.entry(c.clone()).or_insert(0);
            *k += 1;
            if *k <= 3 {
                failures.push(json!({"kind": "oracle", "class": c, "detail": d, "case": idx as i64 - ncorpus, "ops": ops, "impl_out": o.out, "model_out": []}));
            } else {
                *dist.entry(format!("more-failures:oracle:{c}")).or_insert(0) += 1;
            }
        }
    }
    if inconclusive * 20 > cases.len() as u64 {
        failures.push(json!({"kind": "oracle", "class": "harness-inconclusive", "detail": format!("{inconclusive} of {} cases were inconclusive (worker set-up failures)", cases.len()), "case": -1, "ops": [], "impl_out": [], "model_out": []}));
    }
    println!("stateworker[{mode}]: {} cases, {} without oracle failure, {} inconclusive, {} distinct non-trivial, classes {:?}", cases.len(), clean, inconclusive, distinct.len(), per_class);
    for f in &failures {
        println!("FAIL oracle {} case={} {}", f["class"].as_str().unwrap_or(""), f["case"], f["detail"].as_str().unwrap_or("").chars().take(400).collect::<String>());
    }
    let code = if failures.is_empty() { 0 } else { 1 };
    emit(json!({
        "area": "stateworker", "property": args.prop, "tier": args.tier, "seed": args.seed,
        "evaluations": cases.len(), "distinct_nontrivial": distinct.len(),
        "rule": format!("mode {mode}: command sequences of the State generator (every mutating verb except listener activation, valid and invalid arguments, frontends with and without a listener) that the main process's ConfigState accepts, sent one by one to a real worker thread (Server::try_new_from_config via the rig); c07: after every answer the worker's QueryClusterById (all cluster ids of the value space) + QueryClustersHashes are read back: FAILURE => unchanged, OK => equal to a reference ConfigState; c05: produce_initial_state of the final main state replayed on a fresh worker: every request accepted, worker view == saved state; non-trivial = at least one FAILURE answer (c07) / at least 4 generated requests (c05)"),
        "samples": samples, "traces_validated_against_impl": clean, "disagreements_checked": cases.len(),
        "distribution": dist, "failures": failures, "wall_s": t0.elapsed().as_secs_f64(),
    }), code);
}
